//! Encoding of a played scenario for the Lean engine model
//! (`lean/RoutinatorModel/Model/Engine.lean`, driver `drv-engine`).
//!
//! The request is one s-expression (tokens separated by blanks):
//!
//! ```text
//! scenario := ( fix cfg ( tal* ) ( run* ) )
//! cfg      := ( stale maxDepth aspa bgpsec )        stale: 0 reject 1 warn 2 accept
//! tal      := ( key ( uri* ) )
//! run      := ( now hasView cleanup ( tafile* ) ( point* ) ( tamper* ) [ ( tal* ) ] )
//!             the optional last element: the TALs installed during this run
//!             (replaces the scenario's TAL list for the run)
//! tafile   := ( uri id ) | ( uri id ( key ok notBefore notAfter repo mft ) )
//! point    := ( mftUri mftfile ( file* ) ( pick* ) )
//! mftfile  := ( ) | ( id ) | ( id cert crlName number thisUpdate nextUpdate ( entry* ) )
//! cert     := ( ok serial notBefore notAfter crlUri )            "-" = absent
//! entry    := ( name ext hash nameOk )   ext: 0 cer 1 roa 2 asa 3 gbr 4 crl 5 other
//! file     := ( name hash content )
//! content  := ( crl sigOk nextUpdate ( serial* ) ) | ( roa cert ( item* ) )
//!           | ( asa cert ( item* ) ) | ( gbr cert ) | ( router cert ( item* ) )
//!           | ( ca cert key repo mft ) | ( junk )
//! tamper   := ( mftUri number thisUpdate )   cached values overwritten before the run
//! ```
//!
//! All names, URIs, byte strings and payload items are small integers handed
//! out by an [`Ids`] table. The reply (and the canonical rendering of the
//! implementation's behaviour, [`Encoder::impl_line`]) is, per run,
//! `i=<items> s=<uri:mft:number:thisUpdate:name/hash,…;…> t=<uri:id;…>`,
//! runs separated by ` | `.

use std::collections::BTreeMap;
use crate::build::{sha256, Builder, Meaning};
use crate::runner::{EngineOpts, Policy, RunStatus};
use crate::scenario::{RunObs, Scenario};
use crate::spec::*;
use crate::truth::{self, EffRes};

/// Hands out small integers for strings.
#[derive(Default)]
pub struct Ids {
    map: BTreeMap<String, usize>,
}

impl Ids {
    pub fn get(&mut self, key: &str) -> usize {
        let next = self.map.len();
        *self.map.entry(key.to_string()).or_insert(next)
    }
    pub fn bytes(&mut self, data: &[u8]) -> usize {
        let key = format!("#{}", crate::build::hex_encode(&sha256(data)));
        self.get(&key)
    }
    pub fn known(&self, key: &str) -> Option<usize> { self.map.get(key).copied() }
}

fn ext_code(name: &str) -> u8 {
    if name.ends_with(".cer") { 0 }
    else if name.ends_with(".roa") { 1 }
    else if name.ends_with(".asa") { 2 }
    else if name.ends_with(".gbr") { 3 }
    else if name.ends_with(".crl") { 4 }
    else { 5 }
}

fn b(v: bool) -> &'static str { if v { "1" } else { "0" } }

/// Encodes a played scenario.
pub struct Encoder<'a> {
    scn: &'a Scenario,
    pub uris: Ids,
    pub names: Ids,
    pub hashes: Ids,
    pub items: Ids,
    /// SHA-256 → meaning for everything the description can produce.
    index: BTreeMap<Vec<u8>, Meaning>,
    /// Effective resources per CA name.
    eff: BTreeMap<String, Option<EffRes>>,
}

impl<'a> Encoder<'a> {
    pub fn new(builder: &Builder, scn: &'a Scenario) -> Self {
        let mut index = BTreeMap::new();
        for ca in &scn.world.cas {
            for version in &ca.versions {
                for file in builder.point_files(&scn.world, ca, version).files {
                    index.entry(sha256(&file.bytes)).or_insert(file.meaning);
                }
            }
        }
        for run in &scn.runs {
            for ta in &run.serve.tas {
                let bytes = builder.ta_bytes(&scn.world, &ta.content);
                let meaning = match &ta.content {
                    TaContent::Cert { fault: Fault::Garbage, .. } => Meaning::Junk,
                    TaContent::Cert { .. } => Meaning::Ta(ta.content.clone()),
                    TaContent::Raw { .. } => Meaning::Junk,
                };
                index.entry(sha256(&bytes)).or_insert(meaning);
            }
        }
        let mut enc = Encoder {
            scn, uris: Ids::default(), names: Ids::default(),
            hashes: Ids::default(), items: Ids::default(), index,
            eff: BTreeMap::new(),
        };
        enc.compute_eff();
        enc
    }

    /// Effective resources of every CA, from the first certificate found
    /// for it (trust anchor certificates first, then top-down).
    fn compute_eff(&mut self) {
        let scn: &'a Scenario = self.scn;
        let world = &scn.world;
        for run in &scn.runs {
            for ta in &run.serve.tas {
                if let TaContent::Cert { ca, res, .. } = &ta.content {
                    self.eff.entry(ca.clone()).or_insert_with(|| {
                        if res.inherit { None } else { Some(EffRes::listed(res)) }
                    });
                }
            }
        }
        // Top-down closure.
        for _ in 0..world.cas.len() + 1 {
            for ca in &world.cas {
                let Some(parent) = self.eff.get(&ca.name).cloned() else { continue };
                for version in &ca.versions {
                    for obj in &version.objects {
                        let mut all = vec![obj];
                        if let Publish::Replace(other) = &obj.publish { all.push(other) }
                        for obj in all {
                            if let ObjKind::Ca { ca: child, res, trim } = &obj.kind {
                                if !self.eff.contains_key(child) {
                                    let eff = parent.as_ref().and_then(|p| p.issue(res, *trim));
                                    self.eff.insert(child.clone(), eff);
                                }
                            }
                        }
                    }
                }
            }
        }
    }

    fn cert(&mut self, ok: bool, serial: u64, nb: i64, na: i64, crl_uri: Option<&str>) -> String {
        let crl = match crl_uri {
            Some(uri) => self.uris.get(uri).to_string(),
            None => "-".into(),
        };
        format!("( {} {} {} {} {} )", b(ok), serial, nb, na, crl)
    }

    fn item_list(&mut self, payload: &[String]) -> String {
        let ids: Vec<String> = payload.iter().map(|p| self.items.get(p).to_string()).collect();
        format!("( {} )", ids.join(" "))
    }

    /// The content of a file found in the directory of CA `owner`.
    fn content(&mut self, owner: &CaSpec, bytes: &[u8]) -> String {
        let scn: &'a Scenario = self.scn;
        let world = &scn.world;
        let mut meaning = self.index.get(&sha256(bytes)).cloned().unwrap_or(Meaning::Junk);
        // BER (non-DER) framing: certificates and CRLs are always decoded as
        // DER; signed objects only when the run is strict.
        if crate::build::is_ber_framed(bytes) {
            let signed = matches!(
                &meaning,
                Meaning::Obj { obj, .. } if matches!(obj.kind, ObjKind::Roa { .. } | ObjKind::Aspa { .. } | ObjKind::Gbr)
            );
            if !signed || scn.opts.strict { meaning = Meaning::Junk }
        }
        match meaning {
            Meaning::Crl { ca, crl } => {
                let issuer = world.ca(&ca).expect("CA");
                let sig_ok = issuer.key == owner.key && matches!(crl.fault, Fault::None | Fault::CrlUri(_));
                format!(
                    "( crl {} {} ( {} ) )", b(sig_ok), crl.next_update,
                    crl.revoked.iter().map(|s| s.to_string()).collect::<Vec<_>>().join(" ")
                )
            }
            Meaning::Obj { ca, obj } => {
                let issuer = world.ca(&ca).expect("CA");
                let same_issuer = issuer.key == owner.key;
                let fault_ok = matches!(obj.fault, Fault::None | Fault::CrlUri(_));
                let crl_uri = match &obj.fault {
                    Fault::CrlUri(uri) => uri.clone(),
                    _ => issuer.crl_uri(),
                };
                let eff = self.eff.get(&issuer.name).cloned().flatten();
                let res_ok = |obj: &ObjSpec| -> bool {
                    let Some(eff) = eff.as_ref() else { return false };
                    // Reuse the ground-truth resource rules (time and CRL
                    // are the model's business: neutral values here).
                    let neutral = CrlSpec {
                        this_update: 0, next_update: 0, number: 0, revoked: vec![],
                        fault: Fault::None, publish: Publish::Normal,
                    };
                    let mut probe = obj.clone();
                    probe.fault = Fault::None;
                    probe.not_before = 0;
                    probe.not_after = 1;
                    truth::obj_reject_reason(issuer, eff, &neutral, &probe, 0).is_none()
                };
                match &obj.kind {
                    ObjKind::Roa { .. } => {
                        let ok = same_issuer && fault_ok && res_ok(&obj);
                        let cert = self.cert(ok, obj.serial, obj.not_before, obj.not_after, Some(&crl_uri));
                        let items = self.item_list(&truth::obj_payload(&obj));
                        format!("( roa {cert} {items} )")
                    }
                    ObjKind::Aspa { .. } => {
                        let ok = same_issuer && fault_ok && res_ok(&obj);
                        let cert = self.cert(ok, obj.serial, obj.not_before, obj.not_after, Some(&crl_uri));
                        let items = self.item_list(&truth::obj_payload(&obj));
                        format!("( asa {cert} {items} )")
                    }
                    ObjKind::Router { .. } => {
                        let ok = same_issuer && fault_ok && res_ok(&obj);
                        let cert = self.cert(ok, obj.serial, obj.not_before, obj.not_after, Some(&crl_uri));
                        let items = self.item_list(&truth::obj_payload(&obj));
                        format!("( router {cert} {items} )")
                    }
                    ObjKind::Gbr => {
                        let ok = same_issuer && fault_ok && eff.is_some();
                        let cert = self.cert(ok, obj.serial, obj.not_before, obj.not_after, Some(&crl_uri));
                        format!("( gbr {cert} )")
                    }
                    ObjKind::Ca { ca: child, .. } => {
                        let child_spec = world.ca(child).expect("child CA");
                        let ok = same_issuer && fault_ok
                            && self.eff.get(child).cloned().flatten().is_some();
                        let cert = self.cert(ok, obj.serial, obj.not_before, obj.not_after, Some(&crl_uri));
                        let repo = self.uris.get(&child_spec.repo);
                        let mft = self.uris.get(&child_spec.mft_uri());
                        format!("( ca {cert} {} {repo} {mft} )", child_spec.key)
                    }
                    ObjKind::Raw { .. } => "( junk )".into(),
                }
            }
            _ => "( junk )".into(),
        }
    }

    fn mft_file(&mut self, owner: &CaSpec, bytes: Option<&Vec<u8>>) -> String {
        let Some(bytes) = bytes else { return "( )".into() };
        let id = self.hashes.bytes(bytes);
        let meaning = self.index.get(&sha256(bytes)).cloned().unwrap_or(Meaning::Junk);
        let Meaning::Mft { ca, version, entries } = meaning else {
            return format!("( {id} )")
        };
        if self.scn.opts.strict && crate::build::is_ber_framed(bytes) {
            // `Manifest::decode(.., strict = true)` insists on DER.
            return format!("( {id} )")
        }
        let scn: &'a Scenario = self.scn;
        let issuer = scn.world.ca(&ca).expect("CA");
        let ok = issuer.key == owner.key
            && matches!(version.mft_fault, Fault::None | Fault::CrlUri(_))
            && self.eff.get(&issuer.name).cloned().flatten().is_some();
        let crl_uri = match &version.mft_fault {
            Fault::CrlUri(uri) => uri.clone(),
            _ => issuer.crl_uri(),
        };
        let crl_name = match crl_uri.strip_prefix(owner.repo.as_str()) {
            Some(rest) if crl_uri.ends_with(".crl") => self.names.get(rest).to_string(),
            _ => "-".into(),
        };
        let cert = self.cert(
            ok, version.ee_serial, version.ee_not_before, version.ee_not_after,
            Some(&crl_uri)
        );
        let number = u128::from_str_radix(&version.number, 16)
            .map(|n| n.to_string())
            .unwrap_or_else(|_| big_hex_to_dec(&version.number));
        let entries: Vec<String> = entries.iter().map(|(name, hash)| {
            format!(
                "( {} {} {} {} )", self.names.get(name), ext_code(name),
                self.hashes.get(&format!("#{}", crate::build::hex_encode(hash))),
                b(name.is_ascii())
            )
        }).collect();
        format!(
            "( {id} {cert} {crl_name} {number} {} {} ( {} ) )",
            version.this_update, version.next_update, entries.join(" ")
        )
    }

    /// The pick code that turns the manifest's entry order into the order
    /// imposed on this run, for a manifest with these entry names.
    fn pick_code(&self, run: usize, entry_names: &[String]) -> Vec<usize> {
        let Some(perm) = self.scn.runs[run].order.perm(entry_names.len()) else {
            return Vec::new()
        };
        let mut sorted: Vec<&String> = entry_names.iter().collect();
        sorted.sort_by(|a, b| a.as_bytes().cmp(b.as_bytes()));
        let wanted: Vec<&String> = perm.iter().map(|i| sorted[*i]).collect();
        let mut left: Vec<&String> = entry_names.iter().collect();
        let mut code = Vec::new();
        for name in wanted {
            let pos = left.iter().position(|n| *n == name).expect("entry");
            left.remove(pos);
            code.push(pos);
        }
        code
    }

    fn point(&mut self, run: usize, ca: &CaSpec, local: &BTreeMap<String, Vec<u8>>) -> String {
        let mft_uri = ca.mft_uri();
        let mft_bytes = local.get(&mft_uri);
        let mft = self.mft_file(ca, mft_bytes);
        let entry_names: Vec<String> = mft_bytes
            .and_then(|bytes| self.index.get(&sha256(bytes)).cloned())
            .and_then(|m| match m {
                Meaning::Mft { entries, .. } => Some(entries.into_iter().map(|(n, _)| n).collect()),
                _ => None
            }).unwrap_or_default();
        let mut files = Vec::new();
        for (uri, bytes) in local.range(ca.repo.clone()..) {
            let Some(name) = uri.strip_prefix(ca.repo.as_str()) else { break };
            if name.contains('/') { continue }
            let content = self.content(ca, bytes);
            files.push(format!(
                "( {} {} {} )", self.names.get(name), self.hashes.bytes(bytes), content
            ));
        }
        let code = self.pick_code(run, &entry_names);
        format!(
            "( {} {} ( {} ) ( {} ) )",
            self.uris.get(&mft_uri), mft, files.join(" "),
            code.iter().map(|c| c.to_string()).collect::<Vec<_>>().join(" ")
        )
    }

    fn ta_file(&mut self, uri: &str, bytes: &[u8]) -> String {
        let id = self.hashes.bytes(bytes);
        let uri_id = self.uris.get(uri);
        match self.index.get(&sha256(bytes)).cloned() {
            Some(Meaning::Ta(TaContent::Cert { ca, key, not_before, not_after, res, fault, .. })) => {
                let scn: &'a Scenario = self.scn;
                let spec = scn.world.ca(&ca).expect("CA");
                let ok = matches!(fault, Fault::None) && !res.inherit
                    && (!res.v4.is_empty() || !res.v6.is_empty() || !res.asn.is_empty());
                let repo = self.uris.get(&spec.repo);
                let mft = self.uris.get(&spec.mft_uri());
                format!("( {uri_id} {id} ( {key} {} {not_before} {not_after} {repo} {mft} ) )", b(ok))
            }
            _ => format!("( {uri_id} {id} )")
        }
    }

    /// The request line for the model (without the component name).
    pub fn request(&mut self, obs: &[RunObs]) -> String {
        let scn: &'a Scenario = self.scn;
        let opts: &EngineOpts = &scn.opts;
        let cfg = format!(
            "( {} {} {} {} )",
            match opts.stale { Policy::Reject => 0, Policy::Warn => 1, Policy::Accept => 2 },
            opts.max_ca_depth, b(opts.enable_aspa), b(opts.enable_bgpsec)
        );
        let tals: Vec<String> = self.scn.world.tals.clone().iter().map(|tal| {
            format!(
                "( {} ( {} ) )", tal.key,
                tal.uris.iter().map(|u| self.uris.get(u).to_string()).collect::<Vec<_>>().join(" ")
            )
        }).collect();
        // TALs are processed in TAL-name order; the payload is a set, so
        // the order is irrelevant for the canonical output.
        let mut runs = Vec::new();
        for (idx, (run, ob)) in scn.runs.iter().zip(obs).enumerate() {
            let update = run.update.unwrap_or(opts.update);
            let mut tas = Vec::new();
            for tal in &scn.world.tals {
                for uri in &tal.uris {
                    if let Some(bytes) = ob.local.get(uri) {
                        tas.push(self.ta_file(uri, bytes));
                    }
                }
            }
            let cas = self.scn.world.cas.clone();
            let mut seen = Vec::new();
            let mut points = Vec::new();
            for ca in &cas {
                if seen.contains(&ca.mft_uri()) { continue }
                seen.push(ca.mft_uri());
                points.push(self.point(idx, ca, &ob.local));
            }
            let tamper: Vec<String> = run.tamper.iter().filter_map(|t| {
                let ca = scn.world.ca(&t.ca)?;
                let number = u128::from_str_radix(&t.number, 16)
                    .map(|n| n.to_string())
                    .unwrap_or_else(|_| big_hex_to_dec(&t.number));
                Some(format!("( {} {} {} )", self.uris.get(&ca.mft_uri()), number, t.this_update))
            }).collect();
            let cleanup = opts.cleanup && !opts.dirty;
            // Per-run TAL set (only when some TAL is not always installed).
            let run_tals = if scn.world.tals.iter().any(|t| t.runs.is_some()) {
                let list: Vec<String> = scn.world.tals_in(idx).iter().map(|tal| {
                    format!(
                        "( {} ( {} ) )", tal.key,
                        tal.uris.iter().map(|u| self.uris.get(u).to_string()).collect::<Vec<_>>().join(" ")
                    )
                }).collect();
                format!(" ( {} )", list.join(" "))
            }
            else { String::new() };
            runs.push(format!(
                "( {} {} {} ( {} ) ( {} ) ( {} ){} )", run.now, b(update), b(cleanup),
                tas.join(" "), points.join(" "), tamper.join(" "), run_tals
            ));
        }
        format!("( 1 {cfg} ( {} ) ( {} ) )", tals.join(" "), runs.join(" "))
    }

    /// The canonical rendering of what the implementation did.
    pub fn impl_line(&mut self, obs: &[RunObs]) -> String {
        let mut runs = Vec::new();
        for ob in obs {
            if ob.out.status != RunStatus::Ok {
                runs.push(format!("status={}", ob.out.status.as_str()));
                continue
            }
            let mut items: Vec<usize> = ob.out.payload().iter().map(|p| {
                self.items.known(p).unwrap_or_else(|| 1_000_000 + self.items.get(p))
            }).collect();
            items.sort();
            items.dedup();
            let mut points = Vec::new();
            for point in &ob.store.points {
                let Some(m) = point.manifest.as_ref() else { continue };
                // path: rsync/rsync/<authority>/<module>/<path>
                let uri = match point.path.strip_prefix("rsync/rsync/") {
                    Some(rest) => format!("rsync://{rest}"),
                    None => point.path.clone(),
                };
                let mut objs: Vec<(usize, usize)> = point.objects.iter().map(|o| {
                    let name = o.uri.strip_prefix(m.ca_repository.as_str()).unwrap_or(&o.uri);
                    (self.names.get(name), self.hashes.bytes(&o.content))
                }).collect();
                objs.sort();
                points.push((
                    self.uris.get(&uri),
                    format!(
                        "{}:{}:{}:{}:{}", self.uris.get(&uri), self.hashes.bytes(&m.manifest),
                        m.number, m.this_update,
                        objs.iter().map(|(n, h)| format!("{n}/{h}")).collect::<Vec<_>>().join(",")
                    )
                ));
            }
            points.sort();
            let mut tas = Vec::new();
            let scn: &'a Scenario = self.scn;
            for tal in &scn.world.tals {
                for uri in &tal.uris {
                    let path = ta_store_path(uri);
                    if let Some(bytes) = ob.store.tas.get(&path) {
                        tas.push((self.uris.get(uri), self.hashes.bytes(bytes)));
                    }
                }
            }
            tas.sort();
            tas.dedup();
            runs.push(format!(
                "i={} s={} t={}",
                items.iter().map(|i| i.to_string()).collect::<Vec<_>>().join(","),
                points.iter().map(|(_, s)| s.clone()).collect::<Vec<_>>().join(";"),
                tas.iter().map(|(u, h)| format!("{u}:{h}")).collect::<Vec<_>>().join(";"),
            ));
        }
        runs.join(" | ")
    }
}

/// Where the store keeps the trust anchor certificate for `uri`, relative
/// to `<cache>/stored`.
pub fn ta_store_path(uri: &str) -> String {
    let (scheme, rest) = uri.split_once("://").unwrap_or(("rsync", uri));
    let authority = rest.split('/').next().unwrap_or("").to_ascii_lowercase();
    format!(
        "ta/{scheme}/{authority}/{}.cer",
        crate::build::hex_encode(&sha256(uri.as_bytes()))
    )
}

fn big_hex_to_dec(hex: &str) -> String {
    // Decimal rendering of an up to 160 bit number.
    let mut digits: Vec<u8> = vec![0];
    for ch in hex.chars() {
        let mut carry = ch.to_digit(16).expect("hex digit");
        for d in digits.iter_mut() {
            let v = (*d as u32) * 16 + carry;
            *d = (v % 10) as u8;
            carry = v / 10;
        }
        while carry > 0 {
            digits.push((carry % 10) as u8);
            carry /= 10;
        }
    }
    digits.iter().rev().map(|d| (b'0' + d) as char).collect()
}
