//! The abstract, JSON-serialisable description of an RPKI universe.
//!
//! A [`World`] names trust anchor locators and CAs. Every CA has a key (an
//! index into the key pool), a publication point location and a list of
//! publication point *versions*. Which version of which CA (and which trust
//! anchor certificates) a run sees is chosen by a [`Serve`] value. All times
//! are integer Unix seconds. Faults are part of the description and are
//! materialised by [`crate::build`], not flagged.

use serde::{Deserialize, Serialize};

//------------ Resources -----------------------------------------------------

/// Internet number resources of a certificate.
#[derive(Clone, Debug, Default, Deserialize, Eq, PartialEq, Serialize)]
pub struct Res {
    /// IPv4 prefixes, `"10.0.0.0/8"`.
    #[serde(default, skip_serializing_if = "Vec::is_empty")]
    pub v4: Vec<String>,
    /// IPv6 prefixes, `"2001:db8::/32"`.
    #[serde(default, skip_serializing_if = "Vec::is_empty")]
    pub v6: Vec<String>,
    /// Inclusive AS number ranges.
    #[serde(default, skip_serializing_if = "Vec::is_empty")]
    pub asn: Vec<(u32, u32)>,
    /// All three families are marked "inherit" (the lists are ignored).
    #[serde(default, skip_serializing_if = "is_false")]
    pub inherit: bool,
}

fn is_false(b: &bool) -> bool { !*b }

impl Res {
    /// 0.0.0.0/0, ::/0, AS0-AS4294967295.
    pub fn all() -> Self {
        Res {
            v4: vec!["0.0.0.0/0".into()],
            v6: vec!["::/0".into()],
            asn: vec![(0, u32::MAX)],
            inherit: false,
        }
    }
    pub fn inherit() -> Self { Res { inherit: true, ..Default::default() } }
    pub fn v4(prefixes: &[&str]) -> Self {
        Res { v4: prefixes.iter().map(|s| s.to_string()).collect(), ..Default::default() }
    }
    pub fn with_asn(mut self, lo: u32, hi: u32) -> Self {
        self.asn.push((lo, hi));
        self
    }
    pub fn with_v6(mut self, prefix: &str) -> Self {
        self.v6.push(prefix.into());
        self
    }
}

//------------ Faults --------------------------------------------------------

/// Tampering applied to one signed thing (certificate, CRL, signed object).
#[derive(Clone, Debug, Default, Deserialize, Eq, PartialEq, Serialize)]
pub enum Fault {
    #[default]
    None,
    /// The last byte of the encoding (part of the outermost signature) is
    /// flipped after signing.
    SigFlip,
    /// Signed with this other pool key while claiming (AKI, issuer name) the
    /// right issuer.
    WrongKey(usize),
    /// The certificate's CRL distribution point is this URI instead of the
    /// issuing CA's CRL (for signed objects: of their EE certificate).
    CrlUri(String),
    /// The encoding is replaced by bytes that do not decode.
    Garbage,
}

impl Fault {
    pub fn is_none(&self) -> bool { matches!(self, Fault::None) }
}

/// How a file of a publication point version reaches the server.
#[derive(Clone, Debug, Default, Deserialize, Eq, PartialEq, Serialize)]
pub enum Publish {
    /// Listed on the manifest with its hash and served.
    #[default]
    Normal,
    /// Listed on the manifest but not served.
    Missing,
    /// Listed on the manifest; the served bytes differ (one byte appended).
    Corrupt,
    /// Listed on the manifest with the hash of the described object; the
    /// bytes of this other object are served under the name instead.
    Replace(Box<ObjSpec>),
    /// Served but not listed on the manifest.
    Unlisted,
    /// Listed and served, but re-framed as BER that is not DER: the outermost
    /// SEQUENCE uses the indefinite length form (nothing covered by a
    /// signature changes; the manifest lists the hash of the re-framed
    /// bytes). Signed objects (manifest, ROA, ASPA, GBR) in this form are
    /// accepted by routinator unless it runs with `strict`; certificates and
    /// CRLs are always decoded as DER and are rejected.
    Ber,
    /// Like `Ber`, with a non-minimal (over-long) definite length instead.
    BerLongLen,
}

impl Publish {
    pub fn is_normal(&self) -> bool { matches!(self, Publish::Normal) }
}

//------------ Objects -------------------------------------------------------

#[derive(Clone, Debug, Deserialize, Eq, PartialEq, Serialize)]
pub struct RoaPfx {
    /// `"10.0.0.0/24"` or `"2001:db8::/48"`.
    pub prefix: String,
    #[serde(default, skip_serializing_if = "Option::is_none")]
    pub max_len: Option<u8>,
}

#[derive(Clone, Debug, Deserialize, Eq, PartialEq, Serialize)]
pub enum ObjKind {
    Roa { asn: u32, prefixes: Vec<RoaPfx> },
    Aspa { customer: u32, providers: Vec<u32> },
    /// A BGPsec router certificate for router key `key` of the pool.
    Router { asns: Vec<u32>, key: usize },
    /// The CA certificate of `World.cas[ca]`, issued by the publishing CA.
    /// `trim` selects the RFC 8360 "trim" policy OIDs instead of "refuse".
    Ca {
        ca: String,
        res: Res,
        #[serde(default, skip_serializing_if = "is_false")]
        trim: bool,
    },
    /// A Ghostbusters record (signed object with arbitrary content).
    Gbr,
    /// Arbitrary bytes (hex); the file name's extension selects the decoder.
    Raw { hex: String },
}

/// One object of a publication point version.
#[derive(Clone, Debug, Deserialize, Eq, PartialEq, Serialize)]
pub struct ObjSpec {
    /// File name within the CA's repository directory.
    pub name: String,
    pub kind: ObjKind,
    /// Serial number of the (EE) certificate.
    pub serial: u64,
    pub not_before: i64,
    pub not_after: i64,
    #[serde(default, skip_serializing_if = "Fault::is_none")]
    pub fault: Fault,
    #[serde(default, skip_serializing_if = "Publish::is_normal")]
    pub publish: Publish,
}

#[derive(Clone, Debug, Deserialize, Eq, PartialEq, Serialize)]
pub struct CrlSpec {
    pub this_update: i64,
    pub next_update: i64,
    pub number: u64,
    /// Revoked certificate serial numbers.
    #[serde(default, skip_serializing_if = "Vec::is_empty")]
    pub revoked: Vec<u64>,
    #[serde(default, skip_serializing_if = "Fault::is_none")]
    pub fault: Fault,
    #[serde(default, skip_serializing_if = "Publish::is_normal")]
    pub publish: Publish,
}

/// One version of a CA's publication point.
#[derive(Clone, Debug, Deserialize, Eq, PartialEq, Serialize)]
pub struct PointVersion {
    /// Manifest number as up to 40 hex digits (20 octets, top bit clear).
    pub number: String,
    pub this_update: i64,
    pub next_update: i64,
    /// The manifest's EE certificate.
    pub ee_serial: u64,
    pub ee_not_before: i64,
    pub ee_not_after: i64,
    #[serde(default, skip_serializing_if = "Fault::is_none")]
    pub mft_fault: Fault,
    /// `Normal`, `Missing` (no manifest served), `Ber` / `BerLongLen` (BER
    /// re-framing, accepted in lax mode only) or `Corrupt` (a stray byte
    /// appended — routinator still decodes and accepts such a manifest; use
    /// `mft_fault = Garbage` for an undecodable one).
    #[serde(default, skip_serializing_if = "Publish::is_normal")]
    pub mft_publish: Publish,
    pub crl: CrlSpec,
    pub objects: Vec<ObjSpec>,
}

//------------ CAs, TALs -----------------------------------------------------

#[derive(Clone, Debug, Deserialize, Eq, PartialEq, Serialize)]
pub struct CaSpec {
    /// Unique name, used to refer to the CA.
    pub name: String,
    /// Pool index of the CA's key pair.
    pub key: usize,
    /// caRepository, `"rsync://host/module/dir/"` (must end in a slash).
    pub repo: String,
    /// Manifest file name (rpkiManifest = repo + mft).
    pub mft: String,
    /// CRL file name.
    pub crl: String,
    /// rpkiNotify URI, if any.
    #[serde(default, skip_serializing_if = "Option::is_none")]
    pub notify: Option<String>,
    /// URI of the CA's own certificate (goes into the AIA of what it issues).
    pub cert_uri: String,
    pub versions: Vec<PointVersion>,
}

impl CaSpec {
    pub fn mft_uri(&self) -> String { format!("{}{}", self.repo, self.mft) }
    pub fn crl_uri(&self) -> String { format!("{}{}", self.repo, self.crl) }
    pub fn obj_uri(&self, name: &str) -> String { format!("{}{}", self.repo, name) }
}

#[derive(Clone, Debug, Deserialize, Eq, PartialEq, Serialize)]
pub struct TalSpec {
    /// The TAL file is `<name>.tal`, the TAL label `name`.
    pub name: String,
    /// Pool index of the key in the TAL.
    pub key: usize,
    /// Certificate URIs in TAL order (`rsync://…` or `https://…`).
    pub uris: Vec<String>,
    /// The runs (indexes into `Scenario.runs`) during which the TAL file is
    /// installed; `None`: always. Two `TalSpec`s with the same name and
    /// disjoint `runs` model a TAL file whose content (key, URIs) changes.
    #[serde(default, skip_serializing_if = "Option::is_none")]
    pub runs: Option<Vec<usize>>,
}

impl TalSpec {
    pub fn active_in(&self, run: usize) -> bool {
        self.runs.as_ref().map(|runs| runs.contains(&run)).unwrap_or(true)
    }
}

#[derive(Clone, Debug, Default, Deserialize, Eq, PartialEq, Serialize)]
pub struct World {
    pub tals: Vec<TalSpec>,
    pub cas: Vec<CaSpec>,
}

impl World {
    /// The TALs installed during run `run`, sorted by name (the order in
    /// which the engine queues them).
    pub fn tals_in(&self, run: usize) -> Vec<&TalSpec> {
        let mut res: Vec<&TalSpec> = self.tals.iter().filter(|t| t.active_in(run)).collect();
        res.sort_by(|a, b| a.name.cmp(&b.name));
        res
    }
    pub fn ca(&self, name: &str) -> Option<&CaSpec> {
        self.cas.iter().find(|ca| ca.name == name)
    }
    pub fn ca_mut(&mut self, name: &str) -> Option<&mut CaSpec> {
        self.cas.iter_mut().find(|ca| ca.name == name)
    }
}

//------------ What a run sees -----------------------------------------------

/// What is served under a trust anchor certificate URI.
#[derive(Clone, Debug, Deserialize, Eq, PartialEq, Serialize)]
pub enum TaContent {
    /// A self-signed CA certificate for key `key` whose SIA points to
    /// `World.cas[ca]`.
    Cert {
        ca: String,
        key: usize,
        serial: u64,
        not_before: i64,
        not_after: i64,
        res: Res,
        #[serde(default, skip_serializing_if = "Fault::is_none")]
        fault: Fault,
    },
    /// Arbitrary bytes (hex).
    Raw { hex: String },
}

#[derive(Clone, Debug, Deserialize, Eq, PartialEq, Serialize)]
pub struct TaFile {
    pub uri: String,
    pub content: TaContent,
}

/// Scripted misbehaviour of the fake rsync for one module.
#[derive(Clone, Debug, Deserialize, Eq, PartialEq, Serialize)]
pub enum RsyncMode {
    /// Exit with `code` without touching the destination.
    Fail { code: i32 },
    /// Copy only the first `files` files (sorted by path), do not delete
    /// anything, then exit with `code`.
    Partial { files: usize, code: i32 },
}

#[derive(Clone, Debug, Deserialize, Eq, PartialEq, Serialize)]
pub struct RsyncCtl {
    /// `"host/module"`.
    pub module: String,
    pub mode: RsyncMode,
}

/// The server side of one run.
#[derive(Clone, Debug, Default, Deserialize, Eq, PartialEq, Serialize)]
pub struct Serve {
    /// Trust anchor certificate files.
    #[serde(default)]
    pub tas: Vec<TaFile>,
    /// Published publication points: (CA name, version index). CAs not
    /// listed publish nothing.
    #[serde(default)]
    pub points: Vec<(String, usize)>,
    #[serde(default, skip_serializing_if = "Vec::is_empty")]
    pub rsync: Vec<RsyncCtl>,
}

impl Serve {
    pub fn version_of(&self, ca: &str) -> Option<usize> {
        self.points.iter().find(|(name, _)| name == ca).map(|(_, v)| *v)
    }
}
