//! Listing and decoding of the store (`<cache>/stored`) with routinator's
//! own readers.

use std::collections::BTreeMap;
use std::fs;
use std::path::Path;
use serde_json::{json, Value};
use routinator::store::StoredPoint;
use crate::build::{hex_encode, sha256};

/// One decoded stored object.
#[derive(Clone, Debug, Eq, PartialEq)]
pub struct StoredObjectDump {
    pub uri: String,
    /// SHA-256 of the content (hex).
    pub sha256: String,
    /// Does the recorded manifest hash match the content? (`None`: no hash.)
    pub hash_ok: Option<bool>,
    pub content: Vec<u8>,
}

/// The manifest part of a stored point.
#[derive(Clone, Debug, Eq, PartialEq)]
pub struct StoredManifestDump {
    /// Manifest number, decimal.
    pub number: String,
    pub this_update: i64,
    /// notAfter of the manifest's EE certificate.
    pub not_after: i64,
    pub ca_repository: String,
    pub manifest: Vec<u8>,
    pub crl_uri: String,
    pub crl: Vec<u8>,
}

/// One file below `stored/rsync` or `stored/rrdp`.
#[derive(Clone, Debug, Eq, PartialEq)]
pub struct StoredPointDump {
    /// Path relative to `<cache>/stored`.
    pub path: String,
    /// SHA-256 of the whole file (hex).
    pub file_sha256: String,
    /// Did `StoredPoint::load_quietly` accept the file?
    pub readable: bool,
    /// `None`: never successfully updated (`LastAttempt`).
    pub manifest: Option<StoredManifestDump>,
    pub objects: Vec<StoredObjectDump>,
    /// Reading the object list stopped with an error.
    pub objects_error: bool,
}

impl StoredPointDump {
    pub fn to_json(&self) -> Value {
        json!({
            "path": self.path,
            "file": &self.file_sha256[..16],
            "readable": self.readable,
            "manifest": self.manifest.as_ref().map(|m| json!({
                "number": m.number, "this_update": m.this_update,
                "not_after": m.not_after, "ca_repository": m.ca_repository,
                "mft": &hex_encode(&sha256(&m.manifest))[..16],
                "crl_uri": m.crl_uri,
                "crl": &hex_encode(&sha256(&m.crl))[..16],
            })),
            "objects": self.objects.iter().map(|o| json!([o.uri, &o.sha256[..16], o.hash_ok])).collect::<Vec<_>>(),
            "objects_error": self.objects_error,
        })
    }
}

#[derive(Clone, Debug, Default, Eq, PartialEq)]
pub struct StoreDump {
    pub points: Vec<StoredPointDump>,
    /// Stored trust anchor certificates: path relative to `stored/` → bytes.
    pub tas: BTreeMap<String, Vec<u8>>,
    /// Everything else below `stored/` (status.bin, tmp files): path → size.
    pub other: BTreeMap<String, u64>,
}

impl StoreDump {
    /// The stored point whose file path ends in `suffix` (e.g. the manifest
    /// URI without the scheme).
    pub fn point(&self, suffix: &str) -> Option<&StoredPointDump> {
        self.points.iter().find(|p| p.path.ends_with(suffix))
    }

    pub fn to_json(&self) -> Value {
        json!({
            "points": self.points.iter().map(|p| p.to_json()).collect::<Vec<_>>(),
            "tas": self.tas.iter().map(|(k, v)| (k.clone(), json!(&hex_encode(&sha256(v))[..16]))).collect::<BTreeMap<_, _>>(),
            "other": self.other,
        })
    }
}

fn walk(dir: &Path, out: &mut Vec<std::path::PathBuf>) {
    let Ok(read) = fs::read_dir(dir) else { return };
    let mut entries: Vec<_> = read.filter_map(|e| e.ok()).map(|e| e.path()).collect();
    entries.sort();
    for path in entries {
        if path.is_dir() { walk(&path, out) }
        else { out.push(path) }
    }
}

/// Lists all files under `dir`: relative path → size.
pub fn list_dir(dir: &Path) -> BTreeMap<String, u64> {
    let mut files = Vec::new();
    walk(dir, &mut files);
    files.into_iter().map(|path| {
        let size = fs::metadata(&path).map(|m| m.len()).unwrap_or(0);
        (path.strip_prefix(dir).unwrap().to_string_lossy().into_owned(), size)
    }).collect()
}

fn dump_point(base: &Path, path: &Path) -> StoredPointDump {
    let rel = path.strip_prefix(base).unwrap().to_string_lossy().into_owned();
    let raw = fs::read(path).unwrap_or_default();
    let mut res = StoredPointDump {
        path: rel,
        file_sha256: hex_encode(&sha256(&raw)),
        readable: false,
        manifest: None,
        objects: Vec::new(),
        objects_error: false,
    };
    let Some(mut point) = StoredPoint::load_quietly(path.to_path_buf()) else {
        return res
    };
    res.readable = true;
    res.manifest = point.manifest().map(|m| StoredManifestDump {
        number: {
            // `Serial`'s `Display` renders zero as the empty string.
            let text = m.manifest_number.to_string();
            if text.is_empty() { "0".into() } else { text }
        },
        this_update: m.this_update.timestamp(),
        not_after: m.not_after.timestamp(),
        ca_repository: m.ca_repository.to_string(),
        manifest: m.manifest.to_vec(),
        crl_uri: m.crl_uri.to_string(),
        crl: m.crl.to_vec(),
    });
    if res.manifest.is_some() {
        for item in &mut point {
            match item {
                Ok(obj) => res.objects.push(StoredObjectDump {
                    uri: obj.uri.to_string(),
                    sha256: hex_encode(&sha256(&obj.content)),
                    hash_ok: obj.hash.as_ref().map(|h| h.verify(&obj.content).is_ok()),
                    content: obj.content.to_vec(),
                }),
                Err(_) => { res.objects_error = true; break }
            }
        }
    }
    res
}

/// Decodes the whole store below `<cache>/stored`.
pub fn dump_store(cache: &Path) -> StoreDump {
    let base = cache.join("stored");
    let mut files = Vec::new();
    walk(&base, &mut files);
    let mut res = StoreDump::default();
    for path in files {
        let rel = path.strip_prefix(&base).unwrap().to_string_lossy().into_owned();
        if rel.starts_with("rsync/") || rel.starts_with("rrdp/") {
            res.points.push(dump_point(&base, &path))
        }
        else if rel.starts_with("ta/") {
            res.tas.insert(rel, fs::read(&path).unwrap_or_default());
        }
        else {
            res.other.insert(rel, fs::metadata(&path).map(|m| m.len()).unwrap_or(0));
        }
    }
    res
}

/// Overwrites the cached manifest number and thisUpdate of the stored point
/// for `mft_uri` (rsync store only), leaving everything else as it is.
/// Returns whether there was a stored manifest to tamper with.
pub fn tamper_cached(
    cache: &Path, mft_uri: &str,
    number: rpki::repository::x509::Serial, this_update: i64,
) -> bool {
    use std::io::Read;
    use routinator::store::{StoredManifest, StoredPointHeader};
    let path = cache.join("stored").join("rsync").join("rsync")
        .join(mft_uri.trim_start_matches("rsync://"));
    let Ok(mut file) = fs::File::open(&path) else { return false };
    let Ok(header) = StoredPointHeader::read(&mut file) else { return false };
    let Ok(mut manifest) = StoredManifest::read(&mut file) else { return false };
    let mut rest = Vec::new();
    if file.read_to_end(&mut rest).is_err() { return false }
    manifest.manifest_number = number;
    manifest.this_update = crate::build::time(this_update);
    let mut out = Vec::new();
    if header.write(&mut out).is_err() || manifest.write(&mut out).is_err() { return false }
    out.extend_from_slice(&rest);
    fs::write(&path, out).is_ok()
}
