//! A persistent pool of key pairs and a `rpki::crypto::Signer` on top of it.
//!
//! RSA key generation dominates the cost of building RPKI objects, so keys
//! are generated lazily, once, and cached as DER files under
//! `$VERIF_DIR/harness/assets/rsa-keys` (default `/verif/...`). Pool indexes
//! `0 .. CA_KEYS` are meant for CA / TA keys (never use one index twice on
//! one chain unless a loop is intended), `CA_KEYS .. CA_KEYS + EE_KEYS` are
//! drawn round-robin for the one-off EE keys of signed objects. Router keys
//! (ECDSA P-256, public part only) live in a separate small pool.
//!
//! RSA PKCS#1 v1.5 signatures are deterministic, so the same spec built with
//! the same pool yields byte-identical objects (also across processes).

use std::io;
use std::path::PathBuf;
use std::sync::atomic::{AtomicUsize, Ordering};
use std::sync::{Mutex, OnceLock};
use openssl::hash::MessageDigest;
use openssl::pkey::{PKey, Private};
use openssl::rsa::Rsa;
use rpki::crypto::signer::{KeyError, SigningAlgorithm};
use rpki::crypto::{
    PublicKey, PublicKeyFormat, Signature, SignatureAlgorithm, Signer,
    SigningError,
};

/// Number of pool indexes reserved for CA keys.
pub const CA_KEYS: usize = 28;

/// Number of pool indexes used for one-off EE keys.
pub const EE_KEYS: usize = 12;

/// Number of ECDSA router keys.
pub const ROUTER_KEYS: usize = 6;

struct Entry {
    key: PKey<Private>,
    public: PublicKey,
}

/// The process-wide key pool.
pub struct KeyPool {
    dir: PathBuf,
    rsa: Mutex<Vec<Option<&'static Entry>>>,
    ec: Mutex<Vec<Option<PublicKey>>>,
}

fn assets_dir() -> PathBuf {
    if let Ok(dir) = std::env::var("RPKITEST_KEY_DIR") {
        return PathBuf::from(dir)
    }
    PathBuf::from(
        std::env::var("VERIF_DIR").unwrap_or_else(|_| "/verif".into())
    ).join("harness").join("assets").join("rsa-keys")
}

fn write_atomic(path: &PathBuf, data: &[u8]) -> io::Result<()> {
    let tmp = path.with_extension(format!("tmp{}", std::process::id()));
    std::fs::write(&tmp, data)?;
    std::fs::rename(&tmp, path)
}

impl KeyPool {
    /// The global pool.
    pub fn global() -> &'static KeyPool {
        static POOL: OnceLock<KeyPool> = OnceLock::new();
        POOL.get_or_init(|| {
            let dir = assets_dir();
            std::fs::create_dir_all(&dir).expect("create key directory");
            KeyPool {
                dir,
                rsa: Mutex::new(Vec::new()),
                ec: Mutex::new(Vec::new()),
            }
        })
    }

    fn entry(&self, idx: usize) -> &'static Entry {
        let mut rsa = self.rsa.lock().unwrap();
        while rsa.len() <= idx { rsa.push(None) }
        if let Some(entry) = rsa[idx] {
            return entry
        }
        let path = self.dir.join(format!("rsa-{idx:03}.der"));
        let key = match std::fs::read(&path) {
            Ok(der) => PKey::private_key_from_der(&der)
                .expect("broken key file"),
            Err(_) => {
                let key = PKey::from_rsa(
                    Rsa::generate(2048).expect("RSA key generation")
                ).unwrap();
                write_atomic(&path, &key.private_key_to_der().unwrap())
                    .expect("write key file");
                // Somebody else may have won the race: use what is on disk.
                let der = std::fs::read(&path).expect("re-read key file");
                PKey::private_key_from_der(&der).expect("broken key file")
            }
        };
        let der = key.rsa().unwrap().public_key_to_der().unwrap();
        let public = PublicKey::decode(der.as_slice()).unwrap();
        let entry: &'static Entry = Box::leak(Box::new(Entry { key, public }));
        rsa[idx] = Some(entry);
        entry
    }

    /// The public key of RSA pool key `idx`.
    pub fn public(&self, idx: usize) -> PublicKey {
        self.entry(idx).public.clone()
    }

    /// The public part of ECDSA P-256 router key `idx`.
    pub fn router_public(&self, idx: usize) -> PublicKey {
        let mut ec = self.ec.lock().unwrap();
        while ec.len() <= idx { ec.push(None) }
        if let Some(key) = ec[idx].as_ref() {
            return key.clone()
        }
        let path = self.dir.join(format!("ec-{idx:03}.spki"));
        let der = match std::fs::read(&path) {
            Ok(der) => der,
            Err(_) => {
                use openssl::ec::{EcGroup, EcKey};
                use openssl::nid::Nid;
                let group = EcGroup::from_curve_name(
                    Nid::X9_62_PRIME256V1
                ).unwrap();
                let key = PKey::from_ec_key(
                    EcKey::generate(&group).unwrap()
                ).unwrap();
                write_atomic(&path, &key.public_key_to_der().unwrap())
                    .expect("write key file");
                std::fs::read(&path).expect("re-read key file")
            }
        };
        let key = PublicKey::decode(der.as_slice()).expect("router key");
        ec[idx] = Some(key.clone());
        key
    }

    /// Makes sure the whole pool exists on disk (slow the first time).
    pub fn warm_up(&self) {
        for idx in 0..CA_KEYS + EE_KEYS { self.entry(idx); }
        for idx in 0..ROUTER_KEYS { self.router_public(idx); }
    }

    fn sign<Alg: SignatureAlgorithm>(
        &self, idx: usize, algorithm: Alg, data: &[u8]
    ) -> Result<Signature<Alg>, io::Error> {
        if !matches!(
            algorithm.signing_algorithm(), SigningAlgorithm::RsaSha256
        ) {
            return Err(io::Error::other("invalid algorithm"))
        }
        let mut signer = openssl::sign::Signer::new(
            MessageDigest::sha256(), &self.entry(idx).key
        )?;
        signer.update(data)?;
        Ok(Signature::new(algorithm, signer.sign_to_vec()?.into()))
    }
}


/// A key as seen by [`PoolSigner`].
///
/// `claims` is the pool key whose public part (and thus key identifier and
/// default issuer name) is reported, `signs` the pool key that produces the
/// signature. They differ only for deliberately forged objects ("signed with
/// another key": the AKI is right, the signature does not verify).
#[derive(Clone, Copy, Debug, Eq, PartialEq)]
pub struct SignKey {
    pub claims: usize,
    pub signs: usize,
}

impl SignKey {
    pub fn honest(idx: usize) -> Self { SignKey { claims: idx, signs: idx } }
    pub fn forged(claims: usize, signs: usize) -> Self {
        SignKey { claims, signs }
    }
}

/// A signer drawing all keys from the pool.
pub struct PoolSigner {
    pool: &'static KeyPool,
    next_ee: AtomicUsize,
}

impl PoolSigner {
    pub fn new() -> Self {
        PoolSigner { pool: KeyPool::global(), next_ee: AtomicUsize::new(0) }
    }

    /// Chooses the EE pool slot (`0 .. EE_KEYS`) used by the next one-off
    /// signature; later ones continue round-robin from there.
    pub fn set_next_ee(&self, slot: usize) {
        self.next_ee.store(slot, Ordering::SeqCst)
    }

    pub fn pool(&self) -> &'static KeyPool { self.pool }
}

impl Default for PoolSigner {
    fn default() -> Self { Self::new() }
}

impl Signer for PoolSigner {
    type KeyId = SignKey;
    type Error = io::Error;

    fn create_key(
        &self, _algorithm: PublicKeyFormat
    ) -> Result<Self::KeyId, Self::Error> {
        Err(io::Error::other("pool keys are addressed by index"))
    }

    fn get_key_info(
        &self, key: &Self::KeyId
    ) -> Result<PublicKey, KeyError<Self::Error>> {
        Ok(self.pool.public(key.claims))
    }

    fn destroy_key(
        &self, _key: &Self::KeyId
    ) -> Result<(), KeyError<Self::Error>> {
        Ok(())
    }

    fn sign<Alg: SignatureAlgorithm, D: AsRef<[u8]> + ?Sized>(
        &self, key: &Self::KeyId, algorithm: Alg, data: &D
    ) -> Result<Signature<Alg>, SigningError<Self::Error>> {
        self.pool.sign(key.signs, algorithm, data.as_ref()).map_err(Into::into)
    }

    fn sign_one_off<Alg: SignatureAlgorithm, D: AsRef<[u8]> + ?Sized>(
        &self, algorithm: Alg, data: &D
    ) -> Result<(Signature<Alg>, PublicKey), Self::Error> {
        let slot = self.next_ee.fetch_add(1, Ordering::SeqCst) % EE_KEYS;
        let idx = CA_KEYS + slot;
        let sig = self.pool.sign(idx, algorithm, data.as_ref())?;
        Ok((sig, self.pool.public(idx)))
    }

    fn rand(&self, target: &mut [u8]) -> Result<(), Self::Error> {
        // Deterministic on purpose: nothing here needs real randomness.
        for (i, byte) in target.iter_mut().enumerate() {
            *byte = (i as u8).wrapping_mul(37).wrapping_add(11)
        }
        Ok(())
    }
}
