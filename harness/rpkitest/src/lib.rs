//! Test infrastructure for the validation-engine properties (see /verif/notes/rpkitest.md).
pub fn fake_rsync_special(_name: &str, _args: &[String]) -> Option<i32> { None }
