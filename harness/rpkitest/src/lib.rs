//! Test infrastructure for the validation-engine properties: abstract RPKI
//! universes materialised as real signed objects, a fake rsync, and a runner
//! for the real `routinator::engine::Engine`. See `/verif/notes/rpkitest.md`.

pub mod keys;
pub mod spec;
pub mod build;
pub mod rsync;
pub mod store;
pub mod runner;
pub mod truth;
pub mod gen;
pub mod scenario;
pub mod model;

pub use build::{Builder, ServerTree};
pub use runner::{Bench, EngineOpts, Policy, RunOutput, RunStatus};
pub use spec::*;

/// The `special` hook for `rvcore::main_with`: makes the harness binary act
/// as the fake rsync.
pub fn fake_rsync_special(name: &str, args: &[String]) -> Option<i32> {
    rsync::special(name, args)
}
