//! Multi-run scenarios: a world, a configuration and a list of runs, each
//! with its own clock value, server content and manifest-entry processing
//! order; [`play`] executes them against the real engine.

use std::collections::BTreeMap;
use std::sync::Arc;
use serde::{Deserialize, Serialize};
use crate::build::{Builder, ServerTree};
use crate::runner::{Bench, EngineOpts, RunOutput};
use crate::spec::{Serve, World};
use crate::store::StoreDump;

/// The order in which `process_collected` walks the entries of a fetched
/// manifest. The real code shuffles them randomly; the guarded hook
/// `routinator::verif::permute_sorted` lets the harness impose an order
/// relative to the entries sorted by file name.
#[derive(Clone, Debug, Default, Deserialize, Eq, PartialEq, Serialize)]
pub enum Order {
    /// Leave the random shuffle alone.
    Random,
    /// Sorted by file name.
    #[default]
    Sorted,
    /// A pseudo-random permutation that is a function of (seed, n) only.
    Seed(u64),
    /// For a manifest with n entries use the listed permutation of length n
    /// (position i receives the i-th-by-name entry `perm[i]`), sorted order
    /// if none has that length.
    Table(Vec<Vec<usize>>),
}

impl Order {
    /// The permutation for a manifest with `n` entries (indices into the
    /// entries sorted by name), `None` for [`Order::Random`].
    pub fn perm(&self, n: usize) -> Option<Vec<usize>> {
        match self {
            Order::Random => None,
            Order::Sorted => Some((0..n).collect()),
            Order::Seed(seed) => {
                let mut rng = rvcore::Rng(seed ^ (n as u64).wrapping_mul(0x9E37_79B9));
                let mut perm: Vec<usize> = (0..n).collect();
                rng.shuffle(&mut perm);
                Some(perm)
            }
            Order::Table(table) => Some(
                table.iter().find(|p| p.len() == n).cloned()
                    .unwrap_or_else(|| (0..n).collect())
            ),
        }
    }
}

#[derive(Clone, Debug, Deserialize, Eq, PartialEq, Serialize)]
pub struct RunSpec {
    /// The wall clock during the run (Unix seconds).
    pub now: i64,
    pub serve: Serve,
    #[serde(default)]
    pub order: Order,
    /// Overrides `opts.update` for this run.
    #[serde(default, skip_serializing_if = "Option::is_none")]
    pub update: Option<bool>,
    /// Store files to tamper with before the run.
    #[serde(default, skip_serializing_if = "Vec::is_empty")]
    pub tamper: Vec<Tamper>,
}

/// Overwrites the cached manifest number / thisUpdate in the stored point of
/// CA `ca` (making the stored copy internally inconsistent).
#[derive(Clone, Debug, Deserialize, Eq, PartialEq, Serialize)]
pub struct Tamper {
    pub ca: String,
    /// Manifest number, hex.
    pub number: String,
    pub this_update: i64,
}

#[derive(Clone, Debug, Deserialize, Eq, PartialEq, Serialize)]
pub struct Scenario {
    pub world: World,
    pub opts: EngineOpts,
    pub runs: Vec<RunSpec>,
}

/// What was observed in and after one run.
#[derive(Clone)]
pub struct RunObs {
    pub out: RunOutput,
    /// The store after the run.
    pub store: StoreDump,
    /// The rsync collector's local copy after the run: URI → bytes.
    pub local: BTreeMap<String, Vec<u8>>,
    /// What the server offered.
    pub served: ServerTree,
}

/// Reads the rsync collector's local copy (`<cache>/rsync`).
pub fn local_copy(bench: &Bench) -> BTreeMap<String, Vec<u8>> {
    let base = bench.cache.join("rsync");
    crate::store::list_dir(&base).into_keys().map(|rel| {
        let bytes = std::fs::read(base.join(&rel)).unwrap_or_default();
        (format!("rsync://{rel}"), bytes)
    }).collect()
}

/// Installs the processing order for the following runs.
pub fn install_order(order: &Order) {
    match order {
        Order::Random => routinator::verif::set_permute_handler(None),
        other => {
            let order = other.clone();
            routinator::verif::set_permute_handler(Some(Arc::new(
                move |n| order.perm(n)
            )))
        }
    }
}

/// Plays a scenario on a fresh bench and returns the observations.
pub fn play(builder: &Builder, scn: &Scenario) -> Vec<RunObs> {
    let bench = Bench::new("scn");
    play_on(&bench, builder, scn)
}

/// Plays a scenario on an existing bench (keeps its cache and store).
pub fn play_on(bench: &Bench, builder: &Builder, scn: &Scenario) -> Vec<RunObs> {
    play_on_from(bench, builder, scn, 0)
}

/// Plays the runs `from..` of a scenario on an existing bench.
pub fn play_on_from(
    bench: &Bench, builder: &Builder, scn: &Scenario, from: usize
) -> Vec<RunObs> {
    let mut res = Vec::new();
    for (idx, run) in scn.runs.iter().enumerate().skip(from) {
        bench.install_tals_for_run(builder, &scn.world, idx);
        rvcore::clock::set(run.now, 0);
        for tamper in &run.tamper {
            if let Some(ca) = scn.world.ca(&tamper.ca) {
                crate::store::tamper_cached(
                    &bench.cache, &ca.mft_uri(),
                    crate::build::serial_from_hex(&tamper.number), tamper.this_update
                );
            }
        }
        let served = bench.serve(builder, &scn.world, &run.serve);
        install_order(&run.order);
        let mut opts = scn.opts.clone();
        if let Some(update) = run.update { opts.update = update }
        let out = bench.run(&opts);
        install_order(&Order::Random);
        res.push(RunObs {
            out,
            store: bench.store(),
            local: local_copy(bench),
            served,
        });
    }
    res
}

fn copy_dir(from: &std::path::Path, to: &std::path::Path) {
    let _ = std::fs::create_dir_all(to);
    let Ok(read) = std::fs::read_dir(from) else { return };
    for entry in read.filter_map(|e| e.ok()) {
        let path = entry.path();
        let target = to.join(entry.file_name());
        if path.is_dir() { copy_dir(&path, &target) }
        else { let _ = std::fs::copy(&path, &target); }
    }
}

/// Plays scenarios, remembering the cache directory and observations after
/// a common prefix of runs so that cases differing only in later runs do not
/// replay the prefix (the engine is deterministic given cache, server and
/// clock; a fresh `Engine` is created for every run anyway).
pub struct Player {
    pub builder: Builder,
    keep: Bench,
    memo: BTreeMap<String, (std::path::PathBuf, Vec<RunObs>)>,
}

impl Default for Player {
    fn default() -> Self { Self::new() }
}

impl Player {
    pub fn new() -> Self {
        Player { builder: Builder::new(), keep: Bench::new("memo"), memo: BTreeMap::new() }
    }

    /// Plays `scn`; the first `prefix` runs are taken from / added to the memo.
    pub fn play(&mut self, scn: &Scenario, prefix: usize) -> Vec<RunObs> {
        let prefix = prefix.min(scn.runs.len());
        if prefix == 0 {
            return play(&self.builder, scn)
        }
        let head = Scenario {
            world: scn.world.clone(), opts: scn.opts.clone(),
            runs: scn.runs[..prefix].to_vec(),
        };
        let key = serde_json::to_string(&head).unwrap();
        let bench = Bench::new("scn");
        if !self.memo.contains_key(&key) {
            let obs = play_on(&bench, &self.builder, &head);
            let saved = self.keep.dir.join(format!("m{}", self.memo.len()));
            copy_dir(&bench.cache, &saved);
            self.memo.insert(key.clone(), (saved, obs));
        }
        else {
            copy_dir(&self.memo[&key].0, &bench.cache);
        }
        let mut obs = self.memo[&key].1.clone();
        obs.extend(play_on_from(&bench, &self.builder, scn, prefix));
        obs
    }
}
