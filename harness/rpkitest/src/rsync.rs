//! A fake `rsync` living inside the harness binary.
//!
//! `config.rsync_command` is the harness executable itself and
//! `config.rsync_args = ["fake-rsync", "--root", <dir>, "--log", <file>]`,
//! so routinator runs
//!
//! ```text
//! <exe> -h                                              (probe; must exit 0)
//! <exe> fake-rsync --root R --log L -rtO --delete rsync://host/module/ <dest>/
//! ```
//!
//! The server content is the directory tree `R/<host>/<module>/…`. Every
//! invocation appends one line `<source> <flags> -> <exit code> <files>` to
//! `L`. Misbehaviour is scripted through `R/.ctl.json`, a JSON array of
//! [`crate::spec::RsyncCtl`]: per module either "fail with this exit code
//! and touch nothing" or "copy only the first k files, then exit with this
//! code". An unknown host gives exit code 10, an unknown module 5 (as the
//! real rsync does); in both cases the destination is left alone.

use std::fs;
use std::io::Write;
use std::path::{Path, PathBuf};
use crate::build::ServerTree;
use crate::spec::{RsyncCtl, RsyncMode};

/// The `special` hook for `rvcore::main_with`.
pub fn special(name: &str, args: &[String]) -> Option<i32> {
    if name == "-h" || name == "--help" {
        println!("fake rsync (rpkitest)  --contimeout is not supported");
        return Some(0)
    }
    if name != "fake-rsync" {
        return None
    }
    Some(run(args))
}

fn files_under(dir: &Path, base: &Path, out: &mut Vec<PathBuf>) {
    let Ok(read) = fs::read_dir(dir) else { return };
    let mut entries: Vec<_> = read.filter_map(|e| e.ok()).collect();
    entries.sort_by_key(|e| e.file_name());
    for entry in entries {
        let path = entry.path();
        if path.is_dir() {
            files_under(&path, base, out)
        }
        else if path.is_file() {
            out.push(path.strip_prefix(base).unwrap().to_path_buf())
        }
    }
}

fn remove_empty_dirs(dir: &Path, top: bool) -> bool {
    let Ok(read) = fs::read_dir(dir) else { return false };
    let mut empty = true;
    for entry in read.filter_map(|e| e.ok()) {
        let path = entry.path();
        if path.is_dir() {
            if !remove_empty_dirs(&path, false) { empty = false }
        }
        else {
            empty = false
        }
    }
    if empty && !top {
        let _ = fs::remove_dir(dir);
    }
    empty
}

fn run(args: &[String]) -> i32 {
    let mut root = None;
    let mut log = None;
    let mut flags = Vec::new();
    let mut positional = Vec::new();
    let mut i = 0;
    while i < args.len() {
        match args[i].as_str() {
            "--root" => { root = args.get(i + 1).cloned(); i += 2 }
            "--log" => { log = args.get(i + 1).cloned(); i += 2 }
            arg if arg.starts_with('-') => { flags.push(arg.to_string()); i += 1 }
            arg => { positional.push(arg.to_string()); i += 1 }
        }
    }
    let (code, copied) = match (root.as_ref(), positional.as_slice()) {
        (Some(root), [source, dest]) => {
            sync(Path::new(root), source, Path::new(dest), &flags)
        }
        _ => {
            eprintln!("fake rsync: bad arguments {args:?}");
            (1, 0)
        }
    };
    if let Some(log) = log {
        if let Ok(mut file) = fs::OpenOptions::new().create(true).append(true).open(log) {
            let _ = writeln!(
                file, "{} {} -> {} {}",
                positional.first().map(String::as_str).unwrap_or("?"),
                flags.join(","), code, copied
            );
        }
    }
    code
}

fn sync(root: &Path, source: &str, dest: &Path, flags: &[String]) -> (i32, usize) {
    let Some(rest) = source.strip_prefix("rsync://") else {
        eprintln!("fake rsync: unsupported source {source}");
        return (1, 0)
    };
    let mut parts = rest.trim_end_matches('/').splitn(3, '/');
    let host = parts.next().unwrap_or("");
    let module = parts.next().unwrap_or("");
    let sub = parts.next().unwrap_or("");
    let key = format!("{host}/{module}");

    let ctl: Vec<RsyncCtl> = fs::read_to_string(root.join(".ctl.json")).ok()
        .and_then(|s| serde_json::from_str(&s).ok()).unwrap_or_default();
    let mode = ctl.iter().find(|c| c.module == key).map(|c| c.mode.clone());
    if let Some(RsyncMode::Fail { code }) = mode {
        eprintln!("rsync error: scripted failure for {key}");
        return (code, 0)
    }
    if !root.join(host).is_dir() {
        eprintln!("rsync: failed to connect to {host}: Connection refused");
        return (10, 0)
    }
    let mut src = root.join(host).join(module);
    if !src.is_dir() {
        eprintln!("@ERROR: Unknown module '{module}'");
        return (5, 0)
    }
    if !sub.is_empty() { src = src.join(sub) }

    let recursive = flags.iter().any(|f| {
        f == "--recursive" || (f.starts_with('-') && !f.starts_with("--") && f.contains('r'))
    });
    let delete = flags.iter().any(|f| f == "--delete");

    let mut files = Vec::new();
    files_under(&src, &src, &mut files);
    if !recursive {
        files.retain(|f| f.components().count() == 1)
    }
    let (limit, code) = match mode {
        Some(RsyncMode::Partial { files, code }) => (files, code),
        _ => (usize::MAX, 0),
    };
    let mut copied = 0;
    for file in files.iter().take(limit) {
        let target = dest.join(file);
        if let Some(parent) = target.parent() {
            let _ = fs::create_dir_all(parent);
        }
        match fs::read(src.join(file)) {
            Ok(data) => {
                // Write via a temporary name like rsync does.
                let tmp = target.with_extension("rsynctmp");
                if fs::write(&tmp, data).and_then(|_| fs::rename(&tmp, &target)).is_err() {
                    eprintln!("rsync: write failed for {}", target.display());
                    return (11, copied)
                }
                copied += 1;
            }
            Err(_) => return (23, copied)
        }
    }
    if delete && limit == usize::MAX {
        let mut present = Vec::new();
        files_under(dest, dest, &mut present);
        for file in present {
            if !files.contains(&file) {
                let _ = fs::remove_file(dest.join(&file));
            }
        }
        remove_empty_dirs(dest, true);
    }
    (code, copied)
}

/// Replaces the content of the server directory `root` with `tree` (rsync
/// URIs only; other URIs are returned) and installs the control script.
pub fn publish(root: &Path, tree: &ServerTree, ctl: &[RsyncCtl]) -> Vec<String> {
    let _ = fs::remove_dir_all(root);
    fs::create_dir_all(root).expect("create server root");
    let mut other = Vec::new();
    for (uri, bytes) in tree {
        match uri.strip_prefix("rsync://") {
            Some(rest) => {
                let path = root.join(rest);
                fs::create_dir_all(path.parent().unwrap()).expect("create server dir");
                fs::write(&path, bytes).expect("write server file");
            }
            None => other.push(uri.clone())
        }
    }
    fs::write(
        root.join(".ctl.json"), serde_json::to_string(ctl).unwrap()
    ).expect("write rsync control file");
    other
}

/// Makes sure `host/module` exists (possibly empty) on the server.
pub fn ensure_module(root: &Path, module: &str) {
    let _ = fs::create_dir_all(root.join(module));
}
