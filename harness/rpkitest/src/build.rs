//! Turns the abstract description ([`crate::spec`]) into real, signed DER
//! objects using the `rpki` crate's own builders.

use std::collections::BTreeMap;
use std::str::FromStr;
use bcder::{Mode, Oid};
use bcder::encode::Values;
use bytes::Bytes;
use chrono::{TimeZone, Utc};
use rpki::crypto::{DigestAlgorithm, PublicKey, RpkiSignatureAlgorithm, Signer};
use rpki::repository::aspa::AspaBuilder;
use rpki::repository::cert::{ExtendedKeyUsage, KeyUsage, Overclaim, TbsCert};
use rpki::repository::crl::{CrlEntry, TbsCertList};
use rpki::repository::manifest::{FileAndHash, ManifestContent};
use rpki::repository::resources::{Asn, Prefix};
use rpki::repository::roa::{RoaBuilder, RoaIpAddress};
use rpki::repository::sigobj::SignedObjectBuilder;
use rpki::repository::x509::{Serial, Time, Validity};
use rpki::uri;
use crate::keys::{PoolSigner, SignKey};
use crate::spec::*;

/// Converts Unix seconds into an `rpki` time.
pub fn time(secs: i64) -> Time {
    Time::new(Utc.timestamp_opt(secs, 0).unwrap())
}

fn validity(not_before: i64, not_after: i64) -> Validity {
    Validity::new(time(not_before), time(not_after))
}

fn rsync(uri: &str) -> uri::Rsync {
    uri::Rsync::from_str(uri).unwrap_or_else(|_| panic!("bad rsync URI {uri}"))
}

/// SHA-256.
pub fn sha256(data: &[u8]) -> Vec<u8> {
    DigestAlgorithm::sha256().digest(data).as_ref().to_vec()
}

/// Parses a manifest number given as hex digits.
pub fn serial_from_hex(hex: &str) -> Serial {
    let hex = if hex.len() % 2 == 1 { format!("0{hex}") } else { hex.to_string() };
    let bytes: Vec<u8> = (0..hex.len() / 2).map(|i| {
        u8::from_str_radix(&hex[2 * i..2 * i + 2], 16).expect("hex digit")
    }).collect();
    Serial::from_slice(&bytes).expect("manifest number out of range")
}

pub fn hex_decode(hex: &str) -> Vec<u8> {
    (0..hex.len() / 2).map(|i| {
        u8::from_str_radix(&hex[2 * i..2 * i + 2], 16).expect("hex digit")
    }).collect()
}

pub fn hex_encode(data: &[u8]) -> String {
    data.iter().map(|b| format!("{b:02x}")).collect()
}

fn garbage(name: &str) -> Vec<u8> {
    format!("\u{1}\u{2}this is not DER: {name}").into_bytes()
}

/// Re-encodes the outermost SEQUENCE of a DER object so that it is valid
/// BER but not DER: with the indefinite length form (`30 80 … 00 00`) or,
/// for `long_len`, with a definite length using one length octet more than
/// necessary. Nothing covered by a signature changes.
pub fn reframe_ber(der: &[u8], long_len: bool) -> Vec<u8> {
    assert_eq!(der[0], 0x30, "expected a SEQUENCE");
    let header = match der[1] {
        n if n < 0x80 => 2,
        n => 2 + usize::from(n & 0x7f),
    };
    let content = &der[header..];
    let mut res = Vec::with_capacity(der.len() + 4);
    if long_len {
        let len = content.len();
        let octets: Vec<u8> = len.to_be_bytes().iter().copied().skip_while(|b| *b == 0).collect();
        res.push(0x30);
        res.push(0x80 | (octets.len() as u8 + 1));
        res.push(0);
        res.extend_from_slice(&octets);
        res.extend_from_slice(content);
    }
    else {
        res.extend_from_slice(&[0x30, 0x80]);
        res.extend_from_slice(content);
        res.extend_from_slice(&[0, 0]);
    }
    res
}

/// Is this the encoding of a SEQUENCE whose outermost length is not DER
/// (indefinite or not minimal)?
pub fn is_ber_framed(data: &[u8]) -> bool {
    if data.len() < 2 || data[0] != 0x30 { return false }
    match data[1] {
        0x80 => true,
        n if n < 0x80 => false,
        n => {
            let count = usize::from(n & 0x7f);
            if data.len() < 2 + count { return false }
            let octets = &data[2..2 + count];
            // Leading zero octet, or long form for a length below 128.
            octets.first() == Some(&0) || (count == 1 && octets[0] < 0x80)
        }
    }
}

fn flip_last(mut data: Vec<u8>) -> Vec<u8> {
    if let Some(last) = data.last_mut() { *last ^= 0x01 }
    data
}

/// Content type of Ghostbusters records, 1.2.840.113549.1.9.16.1.35.
const CT_GBR: [u8; 11] = [42, 134, 72, 134, 247, 13, 1, 9, 16, 1, 35];

/// All files a server offers, by rsync/https URI.
pub type ServerTree = BTreeMap<String, Vec<u8>>;

/// What a built file *is*, in terms of the description.
#[derive(Clone, Debug, Eq, PartialEq)]
pub enum Meaning {
    /// The manifest of `version` of CA `ca` listing `entries` (name, hash).
    Mft { ca: String, version: Box<PointVersion>, entries: Vec<(String, Vec<u8>)> },
    /// A CRL issued by CA `ca`.
    Crl { ca: String, crl: CrlSpec },
    /// An object issued by CA `ca`.
    Obj { ca: String, obj: Box<ObjSpec> },
    /// A trust anchor certificate.
    Ta(TaContent),
    /// Bytes that do not decode as anything.
    Junk,
}

impl Meaning {
    fn of_obj(ca: &CaSpec, obj: &ObjSpec) -> Self {
        if matches!(obj.fault, Fault::Garbage) || matches!(obj.kind, ObjKind::Raw { .. }) {
            Meaning::Junk
        }
        else {
            Meaning::Obj { ca: ca.name.clone(), obj: Box::new(obj.clone()) }
        }
    }
}

/// One served file of a publication point.
#[derive(Clone, Debug)]
pub struct BuiltFile {
    pub uri: String,
    pub name: String,
    pub bytes: Vec<u8>,
    pub meaning: Meaning,
}

/// A materialised publication point version.
#[derive(Clone, Debug)]
pub struct PointBuild {
    pub files: Vec<BuiltFile>,
    /// The manifest's entries (name, SHA-256) in manifest order.
    pub entries: Vec<(String, Vec<u8>)>,
}

/// The object factory.
pub struct Builder {
    signer: PoolSigner,
    /// Built publication point versions by description (building is
    /// deterministic, so this is only a cache).
    memo: std::sync::Mutex<BTreeMap<String, PointBuild>>,
}

impl Default for Builder {
    fn default() -> Self { Self::new() }
}

impl Builder {
    pub fn new() -> Self {
        Builder { signer: PoolSigner::new(), memo: Default::default() }
    }

    fn memo_key(world: &World, ca: &CaSpec, version: &PointVersion) -> String {
        fn header(ca: &CaSpec) -> String {
            format!("{}|{}|{}|{}|{}|{:?}|{}", ca.name, ca.key, ca.repo, ca.mft, ca.crl, ca.notify, ca.cert_uri)
        }
        let mut key = header(ca);
        key.push_str(&serde_json::to_string(version).unwrap());
        fn kids(world: &World, obj: &ObjSpec, key: &mut String) {
            if let ObjKind::Ca { ca, .. } = &obj.kind {
                if let Some(child) = world.ca(ca) { key.push_str(&header(child)) }
            }
            if let Publish::Replace(other) = &obj.publish { kids(world, other, key) }
        }
        for obj in &version.objects { kids(world, obj, &mut key) }
        key
    }

    pub fn signer(&self) -> &PoolSigner { &self.signer }

    pub fn public(&self, key: usize) -> PublicKey {
        self.signer.pool().public(key)
    }

    /// The text of a TAL file.
    pub fn tal_file(&self, tal: &TalSpec) -> String {
        let mut res = String::new();
        for uri in &tal.uris {
            res.push_str(uri);
            res.push('\n');
        }
        res.push('\n');
        res.push_str(&rpki::util::base64::Xml.encode(
            self.public(tal.key).to_info_bytes().as_ref()
        ));
        res.push('\n');
        res
    }

    fn apply_res(cert: &mut TbsCert, res: &Res) {
        if res.inherit {
            cert.set_v4_resources_inherit();
            cert.set_v6_resources_inherit();
            cert.set_as_resources_inherit();
            return
        }
        if !res.v4.is_empty() {
            cert.build_v4_resource_blocks(|b| {
                for p in &res.v4 {
                    b.push(Prefix::from_v4_str(p).expect("v4 prefix"))
                }
            })
        }
        if !res.v6.is_empty() {
            cert.build_v6_resource_blocks(|b| {
                for p in &res.v6 {
                    b.push(Prefix::from_v6_str(p).expect("v6 prefix"))
                }
            })
        }
        if !res.asn.is_empty() {
            cert.build_as_resource_blocks(|b| {
                for (lo, hi) in &res.asn {
                    b.push((Asn::from_u32(*lo), Asn::from_u32(*hi)))
                }
            })
        }
    }

    /// The issuing key for something issued by the CA with key `key`.
    fn issuer_key(key: usize, fault: &Fault) -> SignKey {
        match fault {
            Fault::WrongKey(other) => SignKey::forged(key, *other),
            _ => SignKey::honest(key),
        }
    }

    fn finish(bytes: Vec<u8>, name: &str, fault: &Fault) -> Vec<u8> {
        match fault {
            Fault::SigFlip => flip_last(bytes),
            Fault::Garbage => garbage(name),
            _ => bytes,
        }
    }

    /// A trust anchor certificate (or whatever is served in its place).
    pub fn ta_bytes(&self, world: &World, content: &TaContent) -> Vec<u8> {
        let (ca, key, serial, nb, na, res, fault) = match content {
            TaContent::Raw { hex } => return hex_decode(hex),
            TaContent::Cert { ca, key, serial, not_before, not_after, res, fault } => {
                (ca, *key, *serial, *not_before, *not_after, res, fault)
            }
        };
        let ca = world.ca(ca).unwrap_or_else(|| panic!("unknown CA {ca}"));
        let public = self.public(key);
        let mut cert = TbsCert::new(
            serial.into(), public.to_subject_name(), validity(nb, na), None,
            public, KeyUsage::Ca, Overclaim::Refuse,
        );
        cert.set_basic_ca(Some(true));
        cert.set_ca_repository(Some(rsync(&ca.repo)));
        cert.set_rpki_manifest(Some(rsync(&ca.mft_uri())));
        if let Some(notify) = ca.notify.as_ref() {
            cert.set_rpki_notify(Some(uri::Https::from_str(notify).expect("notify URI")));
        }
        if let Fault::CrlUri(uri) = fault {
            // Not allowed in a trust anchor certificate.
            cert.set_crl_uri(Some(rsync(uri)));
        }
        Self::apply_res(&mut cert, res);
        let cert = cert.into_cert(
            &self.signer, &Self::issuer_key(key, fault)
        ).expect("sign TA certificate");
        Self::finish(cert.to_captured().into_bytes().to_vec(), "ta", fault)
    }

    fn sigobj_builder(&self, ca: &CaSpec, obj: &ObjSpec) -> SignedObjectBuilder {
        let crl_uri = match &obj.fault {
            Fault::CrlUri(uri) => rsync(uri),
            _ => rsync(&ca.crl_uri()),
        };
        let mut builder = SignedObjectBuilder::new(
            obj.serial.into(), validity(obj.not_before, obj.not_after),
            crl_uri, rsync(&ca.cert_uri), rsync(&ca.obj_uri(&obj.name)),
        );
        builder.set_signing_time(time(obj.not_before));
        builder
    }

    /// The bytes of one object as described (ignoring `publish`).
    pub fn object(&self, world: &World, ca: &CaSpec, obj: &ObjSpec) -> Vec<u8> {
        if matches!(obj.fault, Fault::Garbage) {
            return garbage(&obj.name)
        }
        let key = Self::issuer_key(ca.key, &obj.fault);
        // Deterministic EE key choice: depends on the serial only.
        self.signer.set_next_ee(obj.serial as usize);
        let bytes = match &obj.kind {
            ObjKind::Raw { hex } => return hex_decode(hex),
            ObjKind::Roa { asn, prefixes } => {
                let mut roa = RoaBuilder::new(Asn::from_u32(*asn));
                for p in prefixes {
                    if p.prefix.contains(':') {
                        roa.push_v6(RoaIpAddress::new(
                            Prefix::from_v6_str(&p.prefix).expect("v6 prefix"), p.max_len
                        ))
                    }
                    else {
                        roa.push_v4(RoaIpAddress::new(
                            Prefix::from_v4_str(&p.prefix).expect("v4 prefix"), p.max_len
                        ))
                    }
                }
                roa.finalize(self.sigobj_builder(ca, obj), &self.signer, &key)
                    .expect("sign ROA").to_captured().into_bytes().to_vec()
            }
            ObjKind::Aspa { customer, providers } => {
                AspaBuilder::new(
                    Asn::from_u32(*customer),
                    providers.iter().map(|p| Asn::from_u32(*p)).collect::<Vec<_>>()
                ).expect("duplicate ASPA provider")
                .finalize(self.sigobj_builder(ca, obj), &self.signer, &key)
                .expect("sign ASPA").to_captured().into_bytes().to_vec()
            }
            ObjKind::Gbr => {
                let mut builder = self.sigobj_builder(ca, obj);
                builder.set_v4_resources_inherit();
                builder.set_v6_resources_inherit();
                builder.set_as_resources_inherit();
                builder.finalize(
                    Oid(Bytes::from_static(&CT_GBR)),
                    Bytes::from_static(b"BEGIN:VCARD\r\nVERSION:4.0\r\nFN:Test\r\nEND:VCARD\r\n"),
                    &self.signer, &key
                ).expect("sign GBR").encode_ref().to_captured(Mode::Der).into_bytes().to_vec()
            }
            ObjKind::Router { asns, key: router_key } => {
                let public = self.signer.pool().router_public(*router_key);
                let issuer = self.public(ca.key);
                let mut cert = TbsCert::new(
                    obj.serial.into(), issuer.to_subject_name(),
                    validity(obj.not_before, obj.not_after), None,
                    public, KeyUsage::Ee, Overclaim::Refuse,
                );
                cert.set_authority_key_identifier(Some(issuer.key_identifier()));
                cert.set_crl_uri(Some(match &obj.fault {
                    Fault::CrlUri(uri) => rsync(uri),
                    _ => rsync(&ca.crl_uri()),
                }));
                cert.set_ca_issuer(Some(rsync(&ca.cert_uri)));
                cert.set_extended_key_usage(Some(ExtendedKeyUsage::create_router()));
                cert.build_as_resource_blocks(|b| {
                    for asn in asns { b.push(Asn::from_u32(*asn)) }
                });
                cert.into_cert(&self.signer, &key).expect("sign router cert")
                    .to_captured().into_bytes().to_vec()
            }
            ObjKind::Ca { ca: child, res, trim } => {
                let child = world.ca(child).unwrap_or_else(|| panic!("unknown CA {child}"));
                let public = self.public(child.key);
                let issuer = self.public(ca.key);
                let mut cert = TbsCert::new(
                    obj.serial.into(), issuer.to_subject_name(),
                    validity(obj.not_before, obj.not_after), None,
                    public, KeyUsage::Ca,
                    if *trim { Overclaim::Trim } else { Overclaim::Refuse },
                );
                cert.set_basic_ca(Some(true));
                cert.set_authority_key_identifier(Some(issuer.key_identifier()));
                cert.set_crl_uri(Some(match &obj.fault {
                    Fault::CrlUri(uri) => rsync(uri),
                    _ => rsync(&ca.crl_uri()),
                }));
                cert.set_ca_issuer(Some(rsync(&ca.cert_uri)));
                cert.set_ca_repository(Some(rsync(&child.repo)));
                cert.set_rpki_manifest(Some(rsync(&child.mft_uri())));
                if let Some(notify) = child.notify.as_ref() {
                    cert.set_rpki_notify(Some(
                        uri::Https::from_str(notify).expect("notify URI")
                    ));
                }
                Self::apply_res(&mut cert, res);
                cert.into_cert(&self.signer, &key).expect("sign CA cert")
                    .to_captured().into_bytes().to_vec()
            }
        };
        Self::finish(bytes, &obj.name, &obj.fault)
    }

    /// The CRL of a publication point version.
    pub fn crl(&self, ca: &CaSpec, crl: &CrlSpec) -> Vec<u8> {
        let issuer = self.public(ca.key);
        let revoked: Vec<CrlEntry> = crl.revoked.iter().map(|serial| {
            CrlEntry::new((*serial).into(), time(crl.this_update))
        }).collect();
        let tbs = TbsCertList::new(
            RpkiSignatureAlgorithm::default(), issuer.to_subject_name(),
            time(crl.this_update), time(crl.next_update), revoked,
            issuer.key_identifier(), crl.number.into(),
        );
        let bytes = tbs.into_crl(
            &self.signer, &Self::issuer_key(ca.key, &crl.fault)
        ).expect("sign CRL").to_captured().into_bytes().to_vec();
        Self::finish(bytes, &ca.crl, &crl.fault)
    }

    /// The manifest of a version, listing `entries` (name, SHA-256).
    pub fn manifest(
        &self, ca: &CaSpec, version: &PointVersion,
        entries: &[(String, Vec<u8>)],
    ) -> Vec<u8> {
        if matches!(version.mft_fault, Fault::Garbage) {
            return garbage(&ca.mft)
        }
        let content = ManifestContent::new(
            serial_from_hex(&version.number),
            time(version.this_update), time(version.next_update),
            DigestAlgorithm::sha256(),
            entries.iter().map(|(name, hash)| {
                FileAndHash::new(name.as_bytes().to_vec(), hash.clone())
            }),
        );
        let crl_uri = match &version.mft_fault {
            Fault::CrlUri(uri) => rsync(uri),
            _ => rsync(&ca.crl_uri()),
        };
        let mut builder = SignedObjectBuilder::new(
            version.ee_serial.into(),
            validity(version.ee_not_before, version.ee_not_after),
            crl_uri, rsync(&ca.cert_uri), rsync(&ca.mft_uri()),
        );
        builder.set_signing_time(time(version.this_update));
        self.signer.set_next_ee(version.ee_serial as usize);
        let bytes = content.into_manifest(
            builder, &self.signer, &Self::issuer_key(ca.key, &version.mft_fault)
        ).expect("sign manifest").to_captured().into_bytes().to_vec();
        Self::finish(bytes, &ca.mft, &version.mft_fault)
    }

    /// Materialises one version of a CA's publication point: every served
    /// file with its abstract meaning, plus the manifest entries.
    pub fn point_files(
        &self, world: &World, ca: &CaSpec, version: &PointVersion,
    ) -> PointBuild {
        let key = Self::memo_key(world, ca, version);
        if let Some(hit) = self.memo.lock().unwrap().get(&key) {
            return hit.clone()
        }
        let res = self.point_files_uncached(world, ca, version);
        self.memo.lock().unwrap().insert(key, res.clone());
        res
    }

    fn point_files_uncached(
        &self, world: &World, ca: &CaSpec, version: &PointVersion,
    ) -> PointBuild {
        let mut files = Vec::new();
        let mut entries: Vec<(String, Vec<u8>)> = Vec::new();
        let mut place = |
            name: &str, bytes: Vec<u8>, meaning: Meaning, publish: &Publish,
            replacement: Option<(Vec<u8>, Meaning)>
        | {
            let uri = ca.obj_uri(name);
            let listed = !matches!(publish, Publish::Unlisted);
            if listed {
                entries.push((name.to_string(), sha256(&bytes)));
            }
            match publish {
                Publish::Normal | Publish::Unlisted => {
                    files.push(BuiltFile { uri, name: name.into(), bytes, meaning });
                }
                Publish::Missing => { }
                Publish::Corrupt => {
                    let mut bytes = bytes;
                    bytes.push(0);
                    files.push(BuiltFile { uri, name: name.into(), bytes, meaning: Meaning::Junk });
                }
                Publish::Replace(_) => {
                    let (bytes, meaning) = replacement.expect("replacement");
                    files.push(BuiltFile { uri, name: name.into(), bytes, meaning });
                }
                Publish::Ber | Publish::BerLongLen => {
                    let bytes = reframe_ber(&bytes, matches!(publish, Publish::BerLongLen));
                    // The manifest lists what is served.
                    if let Some(last) = entries.last_mut() { last.1 = sha256(&bytes) }
                    files.push(BuiltFile { uri, name: name.into(), bytes, meaning });
                }
            }
        };
        let crl = self.crl(ca, &version.crl);
        let crl_meaning = if matches!(version.crl.fault, Fault::Garbage) { Meaning::Junk }
            else { Meaning::Crl { ca: ca.name.clone(), crl: version.crl.clone() } };
        place(&ca.crl, crl, crl_meaning, &version.crl.publish, None);
        for obj in &version.objects {
            let bytes = self.object(world, ca, obj);
            let replacement = match &obj.publish {
                Publish::Replace(other) => Some((
                    self.object(world, ca, other),
                    Meaning::of_obj(ca, other),
                )),
                _ => None
            };
            place(&obj.name, bytes, Meaning::of_obj(ca, obj), &obj.publish, replacement);
        }
        let mft = self.manifest(ca, version, &entries);
        let mft_meaning = if matches!(version.mft_fault, Fault::Garbage) { Meaning::Junk }
            else {
                Meaning::Mft {
                    ca: ca.name.clone(), version: Box::new(version.clone()),
                    entries: entries.clone(),
                }
            };
        match version.mft_publish {
            Publish::Missing => { }
            Publish::Corrupt => {
                // A stray trailing byte: `Manifest::decode` ignores it, so
                // this is still the same manifest (with other bytes).
                let mut mft = mft;
                mft.push(0);
                files.push(BuiltFile { uri: ca.mft_uri(), name: ca.mft.clone(), bytes: mft, meaning: mft_meaning });
            }
            Publish::Ber | Publish::BerLongLen => {
                let mft = reframe_ber(&mft, matches!(version.mft_publish, Publish::BerLongLen));
                files.push(BuiltFile { uri: ca.mft_uri(), name: ca.mft.clone(), bytes: mft, meaning: mft_meaning });
            }
            _ => files.push(BuiltFile { uri: ca.mft_uri(), name: ca.mft.clone(), bytes: mft, meaning: mft_meaning }),
        }
        PointBuild { files, entries }
    }

    /// Materialises one version of a CA's publication point into `tree`.
    pub fn point(
        &self, world: &World, ca: &CaSpec, version: &PointVersion,
        tree: &mut ServerTree,
    ) {
        for file in self.point_files(world, ca, version).files {
            tree.insert(file.uri, file.bytes);
        }
    }

    /// Everything the server offers for `serve`.
    pub fn server_tree(&self, world: &World, serve: &Serve) -> ServerTree {
        let mut tree = ServerTree::new();
        for ta in &serve.tas {
            tree.insert(ta.uri.clone(), self.ta_bytes(world, &ta.content));
        }
        for (name, version) in &serve.points {
            let ca = world.ca(name).unwrap_or_else(|| panic!("unknown CA {name}"));
            let version = ca.versions.get(*version).unwrap_or_else(|| {
                panic!("CA {name} has no version {version}")
            });
            self.point(world, ca, version, &mut tree);
        }
        tree
    }
}

/// Key identifier (hex) of RSA pool key `key`.
pub fn key_id_hex(key: usize) -> String {
    let ki = crate::keys::KeyPool::global().public(key).key_identifier();
    hex_encode(ki.as_slice())
}

/// Forces `Signer` into scope for rustdoc links.
#[allow(dead_code)]
fn _assert_signer<S: Signer>(_: &S) {}
