//! Ground truth computed from the abstract description alone (never from
//! the built bytes, the Lean model or routinator): resource arithmetic,
//! per-object validity and the canonical payload strings an object would
//! contribute. Property oracles are assembled from these pieces.

use std::net::{Ipv4Addr, Ipv6Addr};
use std::str::FromStr;
use crate::build::{hex_encode, sha256};
use crate::keys::KeyPool;
use crate::spec::*;

//------------ Resource arithmetic -------------------------------------------

/// A set of inclusive integer ranges, kept sorted and merged.
#[derive(Clone, Debug, Default, Eq, PartialEq)]
pub struct Ranges(pub Vec<(u128, u128)>);

impl Ranges {
    pub fn from_vec(mut v: Vec<(u128, u128)>) -> Self {
        v.sort();
        let mut res: Vec<(u128, u128)> = Vec::new();
        for (lo, hi) in v {
            if let Some(last) = res.last_mut() {
                if lo <= last.1.saturating_add(1) {
                    if hi > last.1 { last.1 = hi }
                    continue
                }
            }
            res.push((lo, hi))
        }
        Ranges(res)
    }
    pub fn is_empty(&self) -> bool { self.0.is_empty() }
    pub fn contains(&self, lo: u128, hi: u128) -> bool {
        self.0.iter().any(|(a, b)| *a <= lo && hi <= *b)
    }
    pub fn contains_all(&self, other: &Ranges) -> bool {
        other.0.iter().all(|(lo, hi)| self.contains(*lo, *hi))
    }
    pub fn intersects(&self, lo: u128, hi: u128) -> bool {
        self.0.iter().any(|(a, b)| *a <= hi && lo <= *b)
    }
    pub fn intersection(&self, other: &Ranges) -> Ranges {
        let mut res = Vec::new();
        for (a, b) in &self.0 {
            for (c, d) in &other.0 {
                let lo = *a.max(c);
                let hi = *b.min(d);
                if lo <= hi { res.push((lo, hi)) }
            }
        }
        Ranges::from_vec(res)
    }
}

/// Parses `"10.0.0.0/8"` / `"2001:db8::/32"` into (is_v4, min, max, len).
pub fn parse_prefix(s: &str) -> (bool, u128, u128, u8) {
    let (addr, len) = s.split_once('/').expect("prefix needs a length");
    let len: u8 = len.parse().expect("prefix length");
    if addr.contains(':') {
        let bits = u128::from(Ipv6Addr::from_str(addr).expect("v6 address"));
        let mask = if len == 0 { 0 } else { u128::MAX << (128 - len as u32) };
        (false, bits & mask, (bits & mask) | !mask, len)
    }
    else {
        let bits = u32::from(Ipv4Addr::from_str(addr).expect("v4 address")) as u128;
        let mask = if len == 0 { 0u128 } else { ((u32::MAX as u128) << (32 - len as u32)) & 0xffff_ffff };
        (true, bits & mask, (bits & mask) | (!mask & 0xffff_ffff), len)
    }
}

/// The canonical text of the address part, as routinator prints it.
pub fn prefix_addr_text(s: &str) -> String {
    let (v4, min, _, _) = parse_prefix(s);
    if v4 { Ipv4Addr::from(min as u32).to_string() }
    else { Ipv6Addr::from(min).to_string() }
}

/// The resources a certificate effectively holds.
#[derive(Clone, Debug, Default, Eq, PartialEq)]
pub struct EffRes {
    pub v4: Ranges,
    pub v6: Ranges,
    pub asn: Ranges,
}

impl EffRes {
    /// The explicitly listed resources of `res` (not for `inherit`).
    pub fn listed(res: &Res) -> Self {
        EffRes {
            v4: Ranges::from_vec(res.v4.iter().map(|p| {
                let (_, lo, hi, _) = parse_prefix(p); (lo, hi)
            }).collect()),
            v6: Ranges::from_vec(res.v6.iter().map(|p| {
                let (_, lo, hi, _) = parse_prefix(p); (lo, hi)
            }).collect()),
            asn: Ranges::from_vec(res.asn.iter().map(|(lo, hi)| {
                (*lo as u128, *hi as u128)
            }).collect()),
        }
    }

    /// `Cert::verify_resources`: the effective resources of a certificate
    /// with resources `res` issued under `self`, or `None` if it overclaims
    /// (policy "refuse").
    pub fn issue(&self, res: &Res, trim: bool) -> Option<EffRes> {
        if res.inherit {
            return Some(self.clone())
        }
        let want = EffRes::listed(res);
        if trim {
            return Some(EffRes {
                v4: want.v4.intersection(&self.v4),
                v6: want.v6.intersection(&self.v6),
                asn: want.asn.intersection(&self.asn),
            })
        }
        if self.v4.contains_all(&want.v4) && self.v6.contains_all(&want.v6)
            && self.asn.contains_all(&want.asn)
        {
            Some(want)
        }
        else {
            None
        }
    }
}

//------------ Payload strings -----------------------------------------------

/// The payload an object would contribute if valid, in the format of
/// [`crate::runner::RunOutput::payload`].
pub fn obj_payload(obj: &ObjSpec) -> Vec<String> {
    match &obj.kind {
        ObjKind::Roa { asn, prefixes } => prefixes.iter().map(|p| {
            let (_, _, _, len) = parse_prefix(&p.prefix);
            format!(
                "AS{} {}/{}-{}", asn, prefix_addr_text(&p.prefix), len,
                p.max_len.unwrap_or(len)
            )
        }).collect(),
        ObjKind::Aspa { customer, providers } => {
            let mut providers = providers.clone();
            providers.sort();
            vec![format!(
                "ASPA AS{} => {}", customer,
                providers.iter().map(|p| p.to_string()).collect::<Vec<_>>().join(",")
            )]
        }
        ObjKind::Router { asns, key } => {
            let public = KeyPool::global().router_public(*key);
            let mut asns = asns.clone();
            asns.sort();
            asns.dedup();
            asns.iter().map(|asn| format!(
                "RK AS{} {} {}", asn,
                hex_encode(public.key_identifier().as_slice()),
                &hex_encode(&sha256(public.to_info_bytes().as_ref()))[..16]
            )).collect()
        }
        _ => Vec::new()
    }
}

/// Why an object (other than a child CA certificate) is not accepted by a
/// CA holding `ca_res` whose current CRL is `crl`, at time `now`; `None` if
/// it is accepted. Only faults expressible in the description are considered.
pub fn obj_reject_reason(
    ca: &CaSpec, ca_res: &EffRes, crl: &CrlSpec, obj: &ObjSpec, now: i64,
) -> Option<&'static str> {
    match &obj.fault {
        Fault::None => { }
        Fault::SigFlip | Fault::WrongKey(_) => return Some("bad-signature"),
        Fault::CrlUri(uri) => if *uri != ca.crl_uri() { return Some("crl-uri-mismatch") },
        Fault::Garbage => return Some("undecodable"),
    }
    // BER re-framed certificates never decode (`Cert::decode` is DER only);
    // BER re-framed signed objects are accepted in lax mode (assumed here).
    if matches!(obj.publish, Publish::Ber | Publish::BerLongLen)
        && matches!(obj.kind, ObjKind::Ca { .. } | ObjKind::Router { .. })
    {
        return Some("undecodable")
    }
    if now < obj.not_before { return Some("not-yet-valid") }
    if now > obj.not_after { return Some("expired") }
    if crl.revoked.contains(&obj.serial) { return Some("revoked") }
    match &obj.kind {
        ObjKind::Roa { prefixes, .. } => {
            for p in prefixes {
                let (v4, lo, hi, _) = parse_prefix(&p.prefix);
                let covered = if v4 { ca_res.v4.contains(lo, hi) } else { ca_res.v6.contains(lo, hi) };
                if !covered { return Some("overclaim") }
            }
            None
        }
        ObjKind::Aspa { customer, .. } => {
            if ca_res.asn.contains(*customer as u128, *customer as u128) { None }
            else { Some("overclaim") }
        }
        ObjKind::Router { asns, .. } => {
            if asns.iter().all(|a| ca_res.asn.contains(*a as u128, *a as u128)) { None }
            else { Some("overclaim") }
        }
        ObjKind::Gbr => None,
        ObjKind::Raw { .. } => Some("undecodable"),
        ObjKind::Ca { .. } => None,
    }
}

/// The payload strings a *valid, accepted* version of a publication point
/// contributes itself (not through child CAs), given the CA's effective
/// resources, honouring `enable_aspa` / `enable_bgpsec`. Objects that are
/// unlisted on the manifest contribute nothing.
pub fn version_payload(
    ca: &CaSpec, ca_res: &EffRes, version: &PointVersion, now: i64,
    enable_aspa: bool, enable_bgpsec: bool,
) -> Vec<String> {
    let mut res = Vec::new();
    for obj in &version.objects {
        if matches!(obj.publish, Publish::Unlisted) { continue }
        let obj = match &obj.publish {
            Publish::Replace(_) | Publish::Missing | Publish::Corrupt => {
                // The version as a whole cannot be accepted; callers decide.
                obj
            }
            _ => obj
        };
        match obj.kind {
            ObjKind::Aspa { .. } if !enable_aspa => continue,
            ObjKind::Router { .. } if !enable_bgpsec => continue,
            _ => { }
        }
        if obj_reject_reason(ca, ca_res, &version.crl, obj, now).is_none() {
            res.extend(obj_payload(obj))
        }
    }
    res.sort();
    res.dedup();
    res
}

/// Is every file listed on the version's manifest retrievable with the
/// listed hash?
pub fn version_complete(version: &PointVersion) -> bool {
    version.crl.publish.is_normal()
        && version.objects.iter().all(|o| {
            matches!(o.publish, Publish::Normal | Publish::Unlisted | Publish::Ber | Publish::BerLongLen)
        })
}
