//! A small scripted in-process HTTPS server for the correspondence harness.
//!
//! See /verif/notes/httpsrv.md for the API summary. In short:
//!
//! ```ignore
//! let srv = httpsrv::Server::start();                 // 127.0.0.1:<ephemeral>, TLS, name `localhost`
//! config.rrdp_root_certs = vec![httpsrv::ca_cert_path()];
//! config.allow_dubious_hosts = true;                   // `localhost` is a dubious host
//! srv.set("/n.xml", httpsrv::Response::ok(body).etag("\"v1\"").conditional(true));
//! let uri = srv.url("/n.xml");                         // https://localhost:<port>/n.xml
//! … run the client …
//! for r in srv.take_log() { … r.method, r.path, r.if_none_match, r.if_modified_since … }
//! ```
//!
//! Every path that is not scripted answers 404. Only `GET`/`HEAD` are
//! understood; HTTP/1.1 with keep-alive; no HTTP/2 (ALPN offers http/1.1).

use std::collections::HashMap;
use std::io;
use std::path::{Path, PathBuf};
use std::sync::{Arc, Mutex};
use tokio::io::{AsyncReadExt, AsyncWriteExt};
use tokio::net::TcpListener;
use tokio_rustls::rustls;
use tokio_rustls::rustls::pki_types::{CertificateDer, PrivateKeyDer};
use tokio_rustls::rustls::pki_types::pem::PemObject;
use tokio_rustls::TlsAcceptor;


//------------ Scripted responses --------------------------------------------

/// How the body is framed on the wire.
#[derive(Clone, Debug, Eq, PartialEq)]
pub enum Framing {
    /// `Content-Length: <body length>`.
    ContentLength,

    /// `Transfer-Encoding: chunked`; the body is cut at the given chunk
    /// sizes (the remainder, if any, goes into one final chunk; sizes of 0
    /// are skipped). No `Content-Length` header.
    Chunked(Vec<usize>),

    /// Neither header: the body is delimited by closing the connection.
    Close,

    /// A `Content-Length` header with the given (possibly wrong) value, the
    /// full body is sent and the connection closed afterwards.
    DeclaredLength(u64),
}

/// A scripted response for one path.
#[derive(Clone, Debug)]
pub struct Response {
    pub status: u16,
    pub body: Vec<u8>,
    pub framing: Framing,
    /// Complete `ETag` header value including quotes (and `W/` if wanted).
    pub etag: Option<String>,
    /// `Last-Modified` as Unix seconds (sent as IMF-fixdate).
    pub last_modified: Option<i64>,
    /// Honour `If-None-Match` / `If-Modified-Since` with 304.
    pub conditional: bool,
    /// Additional raw headers.
    pub headers: Vec<(String, String)>,
    /// Send only this many body bytes, then drop the connection (a torn
    /// transfer). Applies to `ContentLength`/`DeclaredLength`/`Close`
    /// framing on raw body bytes and to `Chunked` on the encoded stream.
    pub cut_after: Option<usize>,
}

impl Response {
    pub fn new(status: u16, body: impl Into<Vec<u8>>) -> Self {
        Response {
            status, body: body.into(), framing: Framing::ContentLength,
            etag: None, last_modified: None, conditional: false,
            headers: Vec::new(), cut_after: None,
        }
    }
    pub fn ok(body: impl Into<Vec<u8>>) -> Self { Self::new(200, body) }
    pub fn status(status: u16) -> Self { Self::new(status, Vec::new()) }
    pub fn framing(mut self, framing: Framing) -> Self { self.framing = framing; self }
    pub fn etag(mut self, etag: impl Into<String>) -> Self { self.etag = Some(etag.into()); self }
    pub fn last_modified(mut self, ts: i64) -> Self { self.last_modified = Some(ts); self }
    pub fn conditional(mut self, on: bool) -> Self { self.conditional = on; self }
    pub fn header(mut self, k: impl Into<String>, v: impl Into<String>) -> Self {
        self.headers.push((k.into(), v.into())); self
    }
    pub fn cut_after(mut self, n: usize) -> Self { self.cut_after = Some(n); self }
}

/// One logged request.
#[derive(Clone, Debug, Eq, PartialEq)]
pub struct Request {
    pub method: String,
    /// Path including a query string, as sent.
    pub path: String,
    pub if_none_match: Option<String>,
    pub if_modified_since: Option<String>,
    /// All headers, names lower-cased, in order.
    pub headers: Vec<(String, String)>,
    /// The status code answered.
    pub status: u16,
}


//------------ Server --------------------------------------------------------

#[derive(Default)]
struct State {
    routes: HashMap<String, Response>,
    log: Vec<Request>,
}

/// The running server. Dropping it stops the accept loop.
pub struct Server {
    port: u16,
    state: Arc<Mutex<State>>,
    stop: Option<tokio::sync::oneshot::Sender<()>>,
    thread: Option<std::thread::JoinHandle<()>>,
}

impl Server {
    /// Starts a server on `127.0.0.1:<ephemeral port>` in a background
    /// thread (own tokio runtime). Panics if that is impossible.
    pub fn start() -> Server {
        let assets = ensure_tls_assets().expect("httpsrv: TLS assets");
        let certs: Vec<CertificateDer<'static>> =
            CertificateDer::pem_file_iter(assets.join("server.pem"))
                .expect("httpsrv: read server.pem")
                .collect::<Result<_, _>>().expect("httpsrv: parse server.pem");
        let key = PrivateKeyDer::from_pem_file(assets.join("server.key"))
            .expect("httpsrv: read server.key");
        let mut config = rustls::ServerConfig::builder_with_provider(
            Arc::new(rustls::crypto::ring::default_provider())
        ).with_safe_default_protocol_versions().expect("httpsrv: tls versions")
            .with_no_client_auth()
            .with_single_cert(certs, key).expect("httpsrv: tls config");
        config.alpn_protocols = vec![b"http/1.1".to_vec()];
        let acceptor = TlsAcceptor::from(Arc::new(config));

        let std_listener = std::net::TcpListener::bind("127.0.0.1:0")
            .expect("httpsrv: bind");
        std_listener.set_nonblocking(true).expect("httpsrv: nonblocking");
        let port = std_listener.local_addr().expect("httpsrv: addr").port();
        let state = Arc::new(Mutex::new(State::default()));
        let (stop_tx, stop_rx) = tokio::sync::oneshot::channel::<()>();

        let thread_state = state.clone();
        let thread = std::thread::Builder::new().name("httpsrv".into()).spawn(move || {
            let rt = tokio::runtime::Builder::new_current_thread()
                .enable_all().build().expect("httpsrv: runtime");
            rt.block_on(async move {
                let listener = TcpListener::from_std(std_listener)
                    .expect("httpsrv: tokio listener");
                let mut stop_rx = stop_rx;
                loop {
                    tokio::select! {
                        _ = &mut stop_rx => break,
                        res = listener.accept() => {
                            let (sock, _) = match res {
                                Ok(x) => x,
                                Err(_) => continue,
                            };
                            let _ = sock.set_nodelay(true);
                            let acceptor = acceptor.clone();
                            let state = thread_state.clone();
                            tokio::spawn(async move {
                                if let Ok(tls) = acceptor.accept(sock).await {
                                    let _ = serve(tls, state).await;
                                }
                            });
                        }
                    }
                }
            });
        }).expect("httpsrv: thread");

        Server { port, state, stop: Some(stop_tx), thread: Some(thread) }
    }

    pub fn port(&self) -> u16 { self.port }

    /// `https://localhost:<port>` (no trailing slash).
    pub fn base(&self) -> String { format!("https://localhost:{}", self.port) }

    /// `https://localhost:<port><path>`; `path` starts with `/`.
    pub fn url(&self, path: &str) -> String { format!("{}{}", self.base(), path) }

    /// Scripts the response for `path` (replaces an earlier script).
    pub fn set(&self, path: &str, response: Response) {
        self.state.lock().unwrap().routes.insert(path.into(), response);
    }

    /// Removes the script for `path` (→ 404).
    pub fn remove(&self, path: &str) {
        self.state.lock().unwrap().routes.remove(path);
    }

    /// Removes all scripts.
    pub fn clear(&self) {
        self.state.lock().unwrap().routes.clear();
    }

    /// Returns and clears the request log.
    pub fn take_log(&self) -> Vec<Request> {
        std::mem::take(&mut self.state.lock().unwrap().log)
    }
}

impl Drop for Server {
    fn drop(&mut self) {
        if let Some(stop) = self.stop.take() { let _ = stop.send(()); }
        if let Some(thread) = self.thread.take() { let _ = thread.join(); }
    }
}


//------------ Connection handling -------------------------------------------

async fn serve<S>(mut stream: S, state: Arc<Mutex<State>>) -> io::Result<()>
where S: tokio::io::AsyncRead + tokio::io::AsyncWrite + Unpin {
    let mut buf: Vec<u8> = Vec::new();
    loop {
        // Read one request head.
        let end = loop {
            if let Some(pos) = find(&buf, b"\r\n\r\n") { break pos + 4 }
            if buf.len() > 64 * 1024 { return Ok(()) }
            let mut chunk = [0u8; 4096];
            let n = stream.read(&mut chunk).await?;
            if n == 0 { return Ok(()) }
            buf.extend_from_slice(&chunk[..n]);
        };
        let head = String::from_utf8_lossy(&buf[..end]).into_owned();
        buf.drain(..end);
        let mut lines = head.split("\r\n");
        let request_line = lines.next().unwrap_or("");
        let mut parts = request_line.split(' ');
        let method = parts.next().unwrap_or("").to_string();
        let path = parts.next().unwrap_or("").to_string();
        let mut headers = Vec::new();
        for line in lines {
            if let Some((k, v)) = line.split_once(':') {
                headers.push((k.trim().to_ascii_lowercase(), v.trim().to_string()));
            }
        }
        let get = |name: &str| headers.iter().find(|(k, _)| k == name).map(|(_, v)| v.clone());
        let if_none_match = get("if-none-match");
        let if_modified_since = get("if-modified-since");
        let wants_close = get("connection")
            .map(|v| v.eq_ignore_ascii_case("close")).unwrap_or(false);

        let scripted = state.lock().unwrap().routes.get(&path).cloned();
        let mut resp = match scripted {
            Some(resp) if method == "GET" || method == "HEAD" => resp,
            Some(_) => Response::status(405),
            None => Response::status(404),
        };
        if resp.conditional && resp.status == 200 {
            let not_modified = match (&if_none_match, &resp.etag) {
                (Some(inm), Some(etag)) => inm == etag,
                (Some(_), None) => false,
                (None, _) => match (&if_modified_since, resp.last_modified) {
                    (Some(ims), Some(lm)) => match parse_http_date(ims) {
                        Some(ims) => ims >= lm,
                        None => false,
                    },
                    _ => false,
                }
            };
            if not_modified {
                resp.status = 304;
                resp.body = Vec::new();
                resp.framing = Framing::ContentLength;
                resp.cut_after = None;
            }
        }
        state.lock().unwrap().log.push(Request {
            method: method.clone(), path: path.clone(),
            if_none_match, if_modified_since,
            headers: headers.clone(), status: resp.status,
        });

        let mut out = Vec::new();
        out.extend_from_slice(
            format!("HTTP/1.1 {} {}\r\n", resp.status, reason(resp.status)).as_bytes()
        );
        if let Some(etag) = resp.etag.as_ref() {
            out.extend_from_slice(format!("ETag: {etag}\r\n").as_bytes());
        }
        if let Some(lm) = resp.last_modified {
            out.extend_from_slice(
                format!("Last-Modified: {}\r\n", format_http_date(lm)).as_bytes()
            );
        }
        for (k, v) in &resp.headers {
            out.extend_from_slice(format!("{k}: {v}\r\n").as_bytes());
        }
        let no_body = method == "HEAD" || resp.status == 304 || resp.status == 204;
        let mut close = wants_close;
        let mut payload: Vec<u8> = Vec::new();
        match &resp.framing {
            _ if no_body => {
                if resp.status != 304 && resp.status != 204 {
                    out.extend_from_slice(
                        format!("Content-Length: {}\r\n", resp.body.len()).as_bytes()
                    );
                }
            }
            Framing::ContentLength => {
                out.extend_from_slice(
                    format!("Content-Length: {}\r\n", resp.body.len()).as_bytes()
                );
                payload = resp.body.clone();
            }
            Framing::DeclaredLength(n) => {
                out.extend_from_slice(format!("Content-Length: {n}\r\n").as_bytes());
                payload = resp.body.clone();
                close = true;
            }
            Framing::Close => {
                payload = resp.body.clone();
                close = true;
            }
            Framing::Chunked(sizes) => {
                out.extend_from_slice(b"Transfer-Encoding: chunked\r\n");
                let mut rest: &[u8] = &resp.body;
                for &size in sizes {
                    if rest.is_empty() { break }
                    if size == 0 { continue }
                    let n = size.min(rest.len());
                    payload.extend_from_slice(format!("{n:x}\r\n").as_bytes());
                    payload.extend_from_slice(&rest[..n]);
                    payload.extend_from_slice(b"\r\n");
                    rest = &rest[n..];
                }
                if !rest.is_empty() {
                    payload.extend_from_slice(format!("{:x}\r\n", rest.len()).as_bytes());
                    payload.extend_from_slice(rest);
                    payload.extend_from_slice(b"\r\n");
                }
                payload.extend_from_slice(b"0\r\n\r\n");
            }
        }
        if let Some(n) = resp.cut_after {
            if !no_body {
                payload.truncate(n);
                close = true;
            }
        }
        if close {
            out.extend_from_slice(b"Connection: close\r\n");
        }
        out.extend_from_slice(b"\r\n");
        out.extend_from_slice(&payload);
        stream.write_all(&out).await?;
        stream.flush().await?;
        if close {
            let _ = stream.shutdown().await;
            return Ok(())
        }
    }
}

fn find(hay: &[u8], needle: &[u8]) -> Option<usize> {
    hay.windows(needle.len()).position(|w| w == needle)
}

fn reason(status: u16) -> &'static str {
    match status {
        200 => "OK", 204 => "No Content", 301 => "Moved Permanently",
        302 => "Found", 304 => "Not Modified", 400 => "Bad Request",
        403 => "Forbidden", 404 => "Not Found", 405 => "Method Not Allowed",
        500 => "Internal Server Error", 502 => "Bad Gateway",
        503 => "Service Unavailable", _ => "Status",
    }
}


//------------ HTTP dates ----------------------------------------------------

const DAYS: [&str; 7] = ["Thu", "Fri", "Sat", "Sun", "Mon", "Tue", "Wed"];
const MONTHS: [&str; 12] = [
    "Jan", "Feb", "Mar", "Apr", "May", "Jun",
    "Jul", "Aug", "Sep", "Oct", "Nov", "Dec",
];

/// Formats Unix seconds as an IMF-fixdate (`Sun, 06 Nov 1994 08:49:37 GMT`).
pub fn format_http_date(ts: i64) -> String {
    let days = ts.div_euclid(86400);
    let secs = ts.rem_euclid(86400);
    let (y, m, d) = civil_from_days(days);
    format!(
        "{}, {:02} {} {:04} {:02}:{:02}:{:02} GMT",
        DAYS[days.rem_euclid(7) as usize], d, MONTHS[(m - 1) as usize], y,
        secs / 3600, (secs / 60) % 60, secs % 60
    )
}

/// Parses an IMF-fixdate into Unix seconds.
pub fn parse_http_date(s: &str) -> Option<i64> {
    let s = s.trim();
    let (_, rest) = s.split_once(", ")?;
    let mut it = rest.split(' ');
    let d: i64 = it.next()?.parse().ok()?;
    let mon = it.next()?;
    let m = MONTHS.iter().position(|x| *x == mon)? as i64 + 1;
    let y: i64 = it.next()?.parse().ok()?;
    let mut hms = it.next()?.split(':');
    let h: i64 = hms.next()?.parse().ok()?;
    let mi: i64 = hms.next()?.parse().ok()?;
    let sec: i64 = hms.next()?.parse().ok()?;
    if it.next()? != "GMT" { return None }
    Some(days_from_civil(y, m, d) * 86400 + h * 3600 + mi * 60 + sec)
}

fn days_from_civil(y: i64, m: i64, d: i64) -> i64 {
    let y = if m <= 2 { y - 1 } else { y };
    let era = y.div_euclid(400);
    let yoe = y.rem_euclid(400);
    let mp = (m + 9) % 12;
    let doy = (153 * mp + 2) / 5 + d - 1;
    let doe = yoe * 365 + yoe / 4 - yoe / 100 + doy;
    era * 146097 + doe - 719468
}

fn civil_from_days(z: i64) -> (i64, i64, i64) {
    let z = z + 719468;
    let era = z.div_euclid(146097);
    let doe = z.rem_euclid(146097);
    let yoe = (doe - doe / 1460 + doe / 36524 - doe / 146096) / 365;
    let y = yoe + era * 400;
    let doy = doe - (365 * yoe + yoe / 4 - yoe / 100);
    let mp = (5 * doy + 2) / 153;
    let d = doy - (153 * mp + 2) / 5 + 1;
    let m = if mp < 10 { mp + 3 } else { mp - 9 };
    (if m <= 2 { y + 1 } else { y }, m, d)
}


//------------ TLS assets ----------------------------------------------------

fn assets_dir() -> PathBuf {
    if let Ok(dir) = std::env::var("VERIF_TLS_DIR") {
        return PathBuf::from(dir)
    }
    PathBuf::from(
        std::env::var("VERIF_DIR").unwrap_or_else(|_| "/verif".into())
    ).join("harness").join("assets").join("tls").join("v1")
}

/// Path of the PEM file with the CA certificate that signed the server's
/// `localhost` certificate (valid 2020-01-01 … 2120-01-01). Pass it to the
/// client as a trusted root (`config.rrdp_root_certs`). Generated on first
/// use with the `openssl` command line tool and kept for later runs.
pub fn ca_cert_path() -> PathBuf {
    ensure_tls_assets().expect("httpsrv: TLS assets").join("ca.pem")
}

/// Paths of the server's certificate chain and private key (PEM), e.g. for
/// routinator's own `utils::tls::create_server_config`.
pub fn server_cert_and_key() -> (PathBuf, PathBuf) {
    let dir = ensure_tls_assets().expect("httpsrv: TLS assets");
    (dir.join("server.pem"), dir.join("server.key"))
}

fn ensure_tls_assets() -> io::Result<PathBuf> {
    let dir = assets_dir();
    let complete = |d: &Path| {
        ["ca.pem", "server.pem", "server.key"].iter().all(|f| d.join(f).is_file())
    };
    if complete(&dir) { return Ok(dir) }
    let parent = dir.parent().unwrap_or(Path::new(".")).to_path_buf();
    std::fs::create_dir_all(&parent)?;
    let tmp = parent.join(format!(".gen-{}", std::process::id()));
    let _ = std::fs::remove_dir_all(&tmp);
    std::fs::create_dir_all(&tmp)?;
    let run = |args: &[&str]| -> io::Result<()> {
        let out = std::process::Command::new("openssl")
            .args(args).current_dir(&tmp).output()?;
        if !out.status.success() {
            return Err(io::Error::other(format!(
                "openssl {:?} failed: {}", args, String::from_utf8_lossy(&out.stderr)
            )))
        }
        Ok(())
    };
    let nb = "20200101000000Z";
    let na = "21200101000000Z";
    run(&[
        "req", "-x509", "-newkey", "rsa:2048", "-nodes", "-sha256",
        "-keyout", "ca.key", "-out", "ca.pem", "-subj", "/CN=verif harness test CA",
        "-not_before", nb, "-not_after", na,
        "-addext", "basicConstraints=critical,CA:TRUE",
        "-addext", "keyUsage=critical,keyCertSign,cRLSign",
    ])?;
    run(&[
        "req", "-newkey", "rsa:2048", "-nodes", "-sha256",
        "-keyout", "server.key", "-out", "server.csr", "-subj", "/CN=localhost",
    ])?;
    std::fs::write(
        tmp.join("ext.cnf"),
        "subjectAltName=DNS:localhost,IP:127.0.0.1\n\
         basicConstraints=critical,CA:FALSE\n\
         keyUsage=critical,digitalSignature,keyEncipherment\n\
         extendedKeyUsage=serverAuth\n"
    )?;
    run(&[
        "x509", "-req", "-in", "server.csr", "-CA", "ca.pem", "-CAkey", "ca.key",
        "-set_serial", "2", "-sha256", "-out", "server.pem",
        "-not_before", nb, "-not_after", na, "-extfile", "ext.cnf",
    ])?;
    for f in ["server.csr", "ext.cnf"] { let _ = std::fs::remove_file(tmp.join(f)); }
    match std::fs::rename(&tmp, &dir) {
        Ok(()) => Ok(dir),
        Err(err) => {
            // Someone else was faster.
            let _ = std::fs::remove_dir_all(&tmp);
            if complete(&dir) { Ok(dir) } else { Err(err) }
        }
    }
}


#[cfg(test)]
mod test {
    use super::*;

    #[test]
    fn dates() {
        assert_eq!(format_http_date(784111777), "Sun, 06 Nov 1994 08:49:37 GMT");
        assert_eq!(parse_http_date("Sun, 06 Nov 1994 08:49:37 GMT"), Some(784111777));
        for ts in [0i64, 1, 86399, 86400, 951782400, 1_700_000_000, 4_102_444_800] {
            assert_eq!(parse_http_date(&format_http_date(ts)), Some(ts));
        }
    }
}
