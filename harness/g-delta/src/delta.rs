//! C11 / C12: `PayloadDelta::construct` and `merge` against the Lean model.

use std::collections::BTreeSet;
use rpki::rtr::{Action, PayloadRef, Serial};
use routinator::payload::{PayloadDelta, PayloadSnapshot};
use serde_json::{json, Value};
use rvcore::Ctx;
use rvcore::payload_gen::{gen_set, mutate_set, AbsSet, Universe};

fn act(a: Action) -> &'static str {
    match a { Action::Announce => "+", Action::Withdraw => "-" }
}

/// Canonical rendering of a real delta, in the model's vocabulary.
pub fn show_delta(uni: &Universe, d: &PayloadDelta) -> String {
    let mut o = Vec::new();
    let mut r = Vec::new();
    let mut a = Vec::new();
    for (p, action) in d.actions() {
        match p {
            PayloadRef::Origin(x) => o.push(format!("{}{}", uni.origin_rank_of(&x), act(action))),
            PayloadRef::RouterKey(x) => r.push(format!("{}{}", uni.key_rank_of(x), act(action))),
            PayloadRef::Aspa(x) => a.push(format!(
                "{}:{}{}", x.customer.into_u32(),
                x.providers.iter().map(|p| p.into_u32().to_string()).collect::<Vec<_>>().join(","),
                act(action)
            )),
        }
    }
    format!(
        "s={} a={} w={} O={}|R={}|A={}",
        u32::from(d.serial()), d.announce_len(), d.withdraw_len(),
        o.join(" "), r.join(" "), a.join(" ")
    )
}

/// A data set as an ordered set of canonical item strings (for oracles).
pub fn item_set(uni: &Universe, s: &PayloadSnapshot) -> BTreeSet<String> {
    let mut res = BTreeSet::new();
    for (o, _) in s.origins() { res.insert(format!("O{}", uni.origin_rank_of(&o))); }
    for (k, _) in s.router_keys() { res.insert(format!("R{}", uni.key_rank_of(k))); }
    for (a, _) in s.aspas() {
        res.insert(format!("A{}:{}", a.customer.into_u32(),
            a.providers.iter().map(|p| p.into_u32().to_string()).collect::<Vec<_>>().join(",")));
    }
    res
}

/// Applies a real delta to an item set the way an RTR client would; returns
/// an error text if an action is impossible (announce of a present item,
/// withdraw of an absent one).
pub fn apply_delta(
    uni: &Universe, set: &BTreeSet<String>, d: &PayloadDelta
) -> Result<BTreeSet<String>, String> {
    let mut res = set.clone();
    for (p, action) in d.actions() {
        match p {
            PayloadRef::Origin(x) => {
                let key = format!("O{}", uni.origin_rank_of(&x));
                match action {
                    Action::Announce => if !res.insert(key.clone()) {
                        return Err(format!("announce of present item {key}"))
                    }
                    Action::Withdraw => if !res.remove(&key) {
                        return Err(format!("withdraw of absent item {key}"))
                    }
                }
            }
            PayloadRef::RouterKey(x) => {
                let key = format!("R{}", uni.key_rank_of(x));
                match action {
                    Action::Announce => if !res.insert(key.clone()) {
                        return Err(format!("announce of present item {key}"))
                    }
                    Action::Withdraw => if !res.remove(&key) {
                        return Err(format!("withdraw of absent item {key}"))
                    }
                }
            }
            PayloadRef::Aspa(x) => {
                let prefix = format!("A{}:", x.customer.into_u32());
                let existing: Vec<String> = res.iter().filter(|k| k.starts_with(&prefix)).cloned().collect();
                let key = format!("{}{}", prefix,
                    x.providers.iter().map(|p| p.into_u32().to_string()).collect::<Vec<_>>().join(","));
                match action {
                    Action::Announce => {
                        if existing.contains(&key) {
                            return Err(format!("announce of unchanged ASPA {key}"))
                        }
                        for k in existing { res.remove(&k); }
                        res.insert(key);
                    }
                    Action::Withdraw => {
                        if existing.is_empty() {
                            return Err(format!("withdraw of absent ASPA customer {prefix}"))
                        }
                        for k in existing { res.remove(&k); }
                    }
                }
            }
        }
    }
    Ok(res)
}

fn gen_pair(ctx: &mut Ctx, uni: &Universe, i: usize) -> (AbsSet, AbsSet) {
    let mut rng = ctx.rng.fork();
    let dens = [0, 1, 2, 4, 6, 8][i % 6];
    let old = gen_set(&mut rng, uni, dens, 10);
    let new = match rng.below(8) {
        0 => old.clone(),
        1 => AbsSet::default(),
        2 => gen_set(&mut rng, uni, [1, 4, 7][i % 3], 10),
        _ => mutate_set(&mut rng, uni, &old, 10),
    };
    (old, new)
}

fn boundary_serials() -> [u32; 6] {
    [0, 1, 41, 0x7fff_ffff, 0x8000_0000, 0xffff_ffff]
}

pub fn run_c11(ctx: &mut Ctx) {
    ctx.rule = "pairs of data sets (old,new) over a fixed universe of 28 origins / 12 router keys / \
        10 ASPA customers; new is a small mutation, equal, empty or independent; non-trivial = \
        non-empty delta; distinct by (|old|,|new|,#announce,#withdraw,#aspa-update) signature".into();
    let uni = Universe::new();
    let inputs: Vec<Value> = match ctx.replay_inputs() {
        Some(inputs) => inputs,
        None => {
            let mut res = ctx.corpus("C11");
            let n = ctx.budget(3000, 100_000);
            for i in 0..n {
                let (old, new) = gen_pair(ctx, &uni, i);
                let serial = boundary_serials()[i % 6];
                res.push(json!({"serial": serial, "old": old.to_json(), "new": new.to_json()}));
            }
            res
        }
    };
    for input in inputs {
        let old = AbsSet::from_json(&input["old"]);
        let new = AbsSet::from_json(&input["new"]);
        let serial = input["serial"].as_u64().unwrap_or(0) as u32;
        let s_old = uni.snapshot(&old);
        let s_new = uni.snapshot(&new);
        let delta = PayloadDelta::construct(&s_old, &s_new, Serial::from(serial));
        let fo = uni.model_fields(&old);
        let fnn = uni.model_fields(&new);
        let op = format!("c11 {}|{}|{}|{}|{}|{}|{}", serial, fo[0], fnn[0], fo[1], fnn[1], fo[2], fnn[2]);
        let imp = match delta.as_ref() {
            None => "none".to_string(),
            Some(d) => show_delta(&uni, d),
        };
        ctx.case(&input, &op, &imp);

        // Oracle: the property itself, on the implementation's output.
        let set_old = item_set(&uni, &s_old);
        let set_new = item_set(&uni, &s_new);
        match delta.as_ref() {
            None => {
                ctx.count("delta:none");
                if set_old != set_new {
                    ctx.oracle_fail("empty-delta-for-different-sets",
                        "construct returned None but the data sets differ", &input, json!(imp));
                }
            }
            Some(d) => {
                if set_old == set_new {
                    ctx.oracle_fail("nonempty-delta-for-equal-sets",
                        "construct returned a delta for equal data sets", &input, json!(imp));
                }
                match apply_delta(&uni, &set_old, d) {
                    Ok(res) => if res != set_new {
                        ctx.oracle_fail("apply-mismatch",
                            "applying the delta to the old set does not yield the new set",
                            &input, json!(imp));
                    }
                    Err(reason) => ctx.oracle_fail("impossible-action", &reason, &input, json!(imp)),
                }
                let ann = d.actions().filter(|x| x.1 == Action::Announce).count();
                let wd = d.actions().filter(|x| x.1 == Action::Withdraw).count();
                if ann != d.announce_len() || wd != d.withdraw_len() {
                    ctx.oracle_fail("count-mismatch", "announce_len/withdraw_len differ from listed actions",
                        &input, json!(imp));
                }
                if u32::from(d.serial()) != serial.wrapping_add(1) {
                    ctx.oracle_fail("serial", "delta serial is not old serial + 1", &input, json!(imp));
                }
                let upd = new.aspas.iter().filter(|(c, p)| {
                    old.aspas.iter().any(|(c2, p2)| c2 == c && p2 != p)
                }).count();
                ctx.nontrivial(format!("{}/{}/{}/{}/{}", old.len(), new.len(), ann, wd, upd));
                ctx.count(&format!("delta:size<{}", ((ann + wd) / 5 + 1) * 5));
                if upd > 0 { ctx.count("delta:has-aspa-provider-change") }
            }
        }
    }
}

fn gen_sequence(ctx: &mut Ctx, uni: &Universe, i: usize) -> Vec<AbsSet> {
    let mut rng = ctx.rng.fork();
    let len = 2 + (i % 7);
    let mut res = vec![gen_set(&mut rng, uni, [0, 2, 4, 6][i % 4], 6)];
    let mut past: Vec<AbsSet> = Vec::new();
    while res.len() < len {
        let cur = res.last().unwrap().clone();
        // go back to an earlier version now and then: add-then-remove,
        // remove-then-re-add, provider flip and flip back
        let next = if !past.is_empty() && rng.chance(1, 4) {
            rng.pick(&past).clone()
        } else {
            mutate_set(&mut rng, uni, &cur, 6)
        };
        past.push(cur);
        res.push(next);
    }
    res
}

pub fn run_c12(ctx: &mut Ctx) {
    ctx.rule = "sequences of 2..8 data sets, each a small mutation of its predecessor or a return to \
        an earlier version (add-then-remove, remove-then-re-add, ASPA provider flip and flip back); \
        non-trivial = at least two non-empty consecutive deltas merged; distinct by \
        (len,#merged,|result|,returned-to-earlier) signature".into();
    let uni = Universe::new();
    let inputs: Vec<Value> = match ctx.replay_inputs() {
        Some(inputs) => inputs,
        None => {
            let mut res = ctx.corpus("C12");
            let n = ctx.budget(1500, 60_000);
            for i in 0..n {
                let seq = gen_sequence(ctx, &uni, i);
                let serial = boundary_serials()[i % 6];
                res.push(json!({"serial": serial, "sets": seq.iter().map(|s| s.to_json()).collect::<Vec<_>>()}));
            }
            res
        }
    };
    for input in inputs {
        let sets: Vec<AbsSet> = input["sets"].as_array().map(|a| {
            a.iter().map(AbsSet::from_json).collect()
        }).unwrap_or_default();
        if sets.is_empty() { continue }
        let serial = input["serial"].as_u64().unwrap_or(0) as u32;
        let snaps: Vec<PayloadSnapshot> = sets.iter().map(|s| uni.snapshot(s)).collect();
        let mut cur_serial = Serial::from(serial);
        let mut merged: Option<PayloadDelta> = None;
        let mut n_merged = 0;
        for i in 1..snaps.len() {
            if let Some(d) = PayloadDelta::construct(&snaps[i - 1], &snaps[i], cur_serial) {
                cur_serial = d.serial();
                n_merged += 1;
                merged = Some(match merged { None => d, Some(m) => m.merge(&d) });
            }
        }
        let op = format!("c12 {}#{}", serial, sets.iter().map(|s| {
            uni.model_fields(s).join("|")
        }).collect::<Vec<_>>().join(";"));
        let imp = match merged.as_ref() { None => "none".into(), Some(d) => show_delta(&uni, d) };
        ctx.case(&input, &op, &imp);

        // Oracle: merged actions = direct actions (same order); applying
        // the merged delta to the first set yields the last.
        let direct = PayloadDelta::construct(&snaps[0], snaps.last().unwrap(), Serial::from(serial));
        let strip = |s: &str| s.split_once(" O=").map(|x| x.1.to_string()).unwrap_or_default();
        let merged_actions = merged.as_ref().map(|d| strip(&show_delta(&uni, d))).unwrap_or("|R=|A=".into());
        let direct_actions = direct.as_ref().map(|d| strip(&show_delta(&uni, d))).unwrap_or("|R=|A=".into());
        if merged_actions != direct_actions {
            ctx.oracle_fail("merged-differs-from-direct",
                "merging consecutive deltas does not give the direct delta's actions",
                &input, json!({"merged": merged_actions, "direct": direct_actions}));
        }
        if let Some(d) = merged.as_ref() {
            let ann = d.actions().filter(|x| x.1 == Action::Announce).count();
            let wd = d.actions().filter(|x| x.1 == Action::Withdraw).count();
            if ann != d.announce_len() || wd != d.withdraw_len() {
                ctx.oracle_fail("count-mismatch", "merged delta counts differ from listed actions",
                    &input, json!(imp));
            }
            match apply_delta(&uni, &item_set(&uni, &snaps[0]), d) {
                Ok(res) => if res != item_set(&uni, snaps.last().unwrap()) {
                    ctx.oracle_fail("apply-mismatch",
                        "merged delta applied to the first set does not yield the last", &input, json!(imp));
                }
                Err(reason) => ctx.oracle_fail("impossible-action", &reason, &input, json!(imp)),
            }
            if n_merged >= 2 {
                let back = sets[..sets.len() - 1].contains(sets.last().unwrap());
                ctx.nontrivial(format!("{}/{}/{}/{}", sets.len(), n_merged, ann + wd, back));
            }
        }
        ctx.count(&format!("merged:{n_merged}"));
    }
}
