//! Group "delta": C11, C12.
mod delta;

fn run(name: &str, ctx: &mut rvcore::Ctx) -> bool {
    match name {
        "c11" => delta::run_c11(ctx),
        "c12" => delta::run_c12(ctx),
        _ => return false
    }
    true
}

fn main() { rvcore::main_with(run, rvcore::no_special) }
