//! C06: stale and premature manifests/CRLs follow the configured policy.
//!
//! A five-CA tree (root → a, b; a → a1; b → b1) where any subset of CAs has
//! a manifest or CRL past its nextUpdate, for each stale policy, on the fetch
//! path (empty store) and on the stored-data path (versions fetched while
//! fresh, validated again after their nextUpdate, with and without a
//! collector); premature manifests (thisUpdate = now + 1) with and without a
//! stored older version; the boundaries nextUpdate = now and thisUpdate = now.

use std::collections::BTreeSet;
use rpkitest::gen::*;
use rpkitest::scenario::{Order, Player, RunSpec, Scenario};
use rpkitest::*;
use rvcore::Ctx;
use serde_json::{json, Value};
use crate::common::*;

const CAS: [&str; 5] = ["root", "a", "b", "a1", "b1"];
const TU: i64 = T0 - 2 * HOUR;

fn parent(ca: &str) -> Option<&'static str> {
    match ca { "a" | "b" => Some("root"), "a1" => Some("a"), "b1" => Some("b"), _ => None }
}

fn index(ca: &str) -> usize { CAS.iter().position(|c| *c == ca).unwrap() }

fn res(ca: &str) -> Res {
    match ca {
        "root" => Res::all(),
        "a" | "a1" => Res::v4(&["10.1.0.0/16"]).with_asn(65000, 65499),
        _ => Res::v4(&["10.2.0.0/16"]).with_asn(65500, 65999),
    }
}

fn prefix(ca: &str, version: usize) -> String {
    match ca {
        "root" => format!("192.0.{version}.0/24"),
        "a" => format!("10.1.{version}.0/24"),
        "a1" => format!("10.1.{}.0/24", 100 + version),
        "b" => format!("10.2.{version}.0/24"),
        _ => format!("10.2.{}.0/24", 100 + version),
    }
}

fn asn(ca: &str, version: usize) -> u32 {
    let base = match ca { "root" => 64500, "a" => 65000, "a1" => 65100, "b" => 65500, _ => 65600 };
    base + version as u32
}

/// Version kinds, in this order for every CA.
const FRESH: usize = 0;
const STALE_MFT: usize = 1;
const STALE_CRL: usize = 2;
const EDGE: usize = 3;      // nextUpdate = T0 exactly (not stale at T0)
const PREMATURE: usize = 4; // thisUpdate = T0 + 1
const JUST_NOW: usize = 5;  // thisUpdate = T0

fn world() -> World {
    let mut world = World::default();
    world.tals.push(tal("ta", 0, &[TA_URI]));
    for (k, name) in CAS.iter().enumerate() {
        let cert_uri = match parent(name) {
            Some(p) => format!("rsync://rpki.test/repo/{p}/{name}.cer"),
            None => TA_URI.to_string(),
        };
        let mut spec = ca(name, k, &format!("rpki.test/repo/{name}/"), &cert_uri);
        for kind in 0..6 {
            let (number, this_update, mft_next, crl_next) = match kind {
                FRESH => (1, TU, T0 + 30 * DAY, T0 + 30 * DAY),
                STALE_MFT => (1, TU, T0 - 1, T0 + 30 * DAY),
                STALE_CRL => (1, TU, T0 + 30 * DAY, T0 - 1),
                EDGE => (1, TU, T0, T0),
                PREMATURE => (2, T0 + 1, T0 + 30 * DAY, T0 + 30 * DAY),
                _ => (2, T0, T0 + 30 * DAY, T0 + 30 * DAY),
            };
            let mut v = version(number, this_update, mft_next);
            v.ee_serial = 1_000_000 + kind as u64;
            v.ee_not_before = TU - DAY;
            v.crl.this_update = TU;
            v.crl.next_update = crl_next;
            v.crl.number = kind as u64 + 1;
            // Versions 0-3 differ only in nextUpdate: same payload. The
            // premature / just-now versions carry their own ROA.
            let payload_version = if kind >= PREMATURE { kind } else { 0 };
            v.objects.push(roa(
                &format!("p{payload_version}.roa"), 10 + payload_version as u64,
                asn(name, payload_version), &prefix(name, payload_version), None
            ));
            for child in CAS.iter().filter(|c| parent(c) == Some(*name)) {
                v.objects.push(child_cert(
                    &format!("{child}.cer"), 500 + index(child) as u64, child, res(child)
                ));
            }
            spec.versions.push(v);
        }
        world.cas.push(spec);
    }
    world
}

fn serve(world: &World, kinds: &[usize; 5]) -> Serve {
    let _ = world;
    Serve {
        tas: vec![ta_cert()],
        points: CAS.iter().enumerate().map(|(k, name)| (name.to_string(), kinds[k])).collect(),
        rsync: vec![],
    }
}

fn stale_kinds(subset: u32, alternate: bool) -> [usize; 5] {
    let mut kinds = [FRESH; 5];
    for k in 0..5 {
        if subset & (1 << k) != 0 {
            kinds[k] = if (k % 2 == 0) ^ alternate { STALE_MFT } else { STALE_CRL };
        }
    }
    kinds
}

fn payload_of(ca: &str, kind: usize) -> String {
    let v = if kind >= PREMATURE { kind } else { 0 };
    let pfx = prefix(ca, v);
    let (addr, len) = pfx.split_once('/').unwrap();
    format!("AS{} {}/{}-{}", asn(ca, v), addr, len, len)
}

/// Does `ca` or one of its ancestors use a stale version?
fn stale_on_chain(ca: &str, kinds: &[usize; 5]) -> bool {
    let here = matches!(kinds[index(ca)], STALE_MFT | STALE_CRL);
    here || parent(ca).map(|p| stale_on_chain(p, kinds)).unwrap_or(false)
}

fn policy_name(p: Policy) -> &'static str { p.as_str() }

fn parse_policy(v: &Value) -> Option<Policy> {
    match v.as_str()? { "reject" => Some(Policy::Reject), "warn" => Some(Policy::Warn), "accept" => Some(Policy::Accept), _ => None }
}

/// Builds a `Config` the way the binary does — a config file on disk,
/// `Config::config_args(..).get_matches_from([.., "--config", FILE, ..])`,
/// `Config::from_arg_matches` — with `stale` / `unsafe-vrps` given in the
/// file and/or on the command line, and returns the policies the engine
/// would be run with: (stale, unsafe_vrps).
fn policies_through_config(
    file: (Option<Policy>, Option<Policy>), cli: (Option<Policy>, Option<Policy>),
) -> Result<(Policy, Policy), String> {
    use routinator::config::{Config, FilterPolicy};
    let dir = std::path::PathBuf::from(
        std::env::var("VERIF_DIR").unwrap_or_else(|_| "/verif".into())
    ).join(".scratch").join(format!("c06-conf-{}", std::process::id()));
    std::fs::create_dir_all(&dir).map_err(|e| e.to_string())?;
    let path = dir.join("routinator.conf");
    let mut text = format!("repository-dir = \"{}\"\n", dir.join("cache").display());
    if let Some(p) = file.0 { text.push_str(&format!("stale = \"{}\"\n", policy_name(p))) }
    if let Some(p) = file.1 { text.push_str(&format!("unsafe-vrps = \"{}\"\n", policy_name(p))) }
    std::fs::write(&path, text).map_err(|e| e.to_string())?;
    let mut args: Vec<String> = vec!["routinator".into(), "--config".into(), path.display().to_string()];
    if let Some(p) = cli.0 { args.push("--stale".into()); args.push(policy_name(p).into()) }
    if let Some(p) = cli.1 { args.push("--unsafe-vrps".into()); args.push(policy_name(p).into()) }
    let matches = Config::config_args(clap::Command::new("routinator"))
        .try_get_matches_from(&args).map_err(|e| e.to_string());
    let res = matches.and_then(|m| {
        Config::from_arg_matches(&m, &dir).map_err(|_| "from_arg_matches failed".to_string())
    });
    let _ = std::fs::remove_dir_all(&dir);
    let config = res?;
    let conv = |p: FilterPolicy| match p {
        FilterPolicy::Reject => Policy::Reject,
        FilterPolicy::Warn => Policy::Warn,
        FilterPolicy::Accept => Policy::Accept,
    };
    Ok((conv(config.stale), conv(config.unsafe_vrps)))
}

fn oracle(ctx: &mut Ctx, input: &Value, scn: &Scenario, played: &Played) {
    let expect = &input["expect"];
    for (r, run) in scn.runs.iter().enumerate() {
        let ob = &played.obs[r];
        if !ob.out.ok() {
            ctx.oracle_fail(
                "run-failed", &format!("run {r} ended with {}", ob.out.status.as_str()),
                input, obs_json(&played.obs)
            );
            continue
        }
        if r + 1 != scn.runs.len() { continue }
        let served: BTreeSet<String> = ob.out.payload().into_iter().collect();
        // Judge against the policy the USER configured (case description),
        // not against whatever ended up in the `Config`.
        let policy = match input.get("glue") {
            Some(glue) => parse_policy(&glue["cli_stale"]).or(parse_policy(&glue["file_stale"]))
                .unwrap_or(Policy::Reject),
            None => scn.opts.stale,
        };
        match expect["kind"].as_str() {
            Some("stale") => {
                let kinds: [usize; 5] = serde_json::from_value(expect["kinds"].clone()).unwrap();
                for ca in CAS {
                    let item = payload_of(ca, kinds[index(ca)]);
                    let stale = stale_on_chain(ca, &kinds);
                    if policy == Policy::Reject && stale && served.contains(&item) {
                        ctx.oracle_fail(
                            "stale-served-under-reject",
                            &format!(
                                "policy reject at {}: {ca} (or an ancestor) uses a manifest/CRL past \
                                 its nextUpdate but its payload {item} is served", run.now
                            ),
                            input, obs_json(&played.obs)
                        );
                    }
                    if policy != Policy::Reject && !served.contains(&item) {
                        ctx.oracle_fail(
                            "stale-dropped-under-warn-accept",
                            &format!(
                                "policy {} at {}: {ca} must be processed normally but its payload \
                                 {item} is missing", policy.as_str(), run.now
                            ),
                            input, obs_json(&played.obs)
                        );
                    }
                    ctx.count(if stale { "ca:stale-chain" } else { "ca:fresh-chain" });
                }
            }
            Some("premature") => {
                let ca = expect["ca"].as_str().unwrap();
                let item = payload_of(ca, PREMATURE);
                if served.contains(&item) {
                    ctx.oracle_fail(
                        "premature-accepted",
                        &format!(
                            "policy {}: the manifest of {ca} has thisUpdate = now + 1 but its \
                             payload {item} is served", policy.as_str()
                        ),
                        input, obs_json(&played.obs)
                    );
                }
                let spec = scn.world.ca(ca).unwrap();
                let suffix = spec.mft_uri().trim_start_matches("rsync://").to_string();
                if let Some(m) = ob.store.point(&suffix).and_then(|p| p.manifest.as_ref()) {
                    if m.this_update > run.now {
                        ctx.oracle_fail(
                            "premature-stored",
                            &format!("a manifest of {ca} with thisUpdate in the future was stored"),
                            input, obs_json(&played.obs)
                        );
                    }
                }
                ctx.count("premature");
            }
            _ => { ctx.count("boundary"); }
        }
    }
}

fn run_input(ctx: &mut Ctx, player: &mut Player, input: &Value) {
    let scn: Scenario = match serde_json::from_value(input["scenario"].clone()) {
        Ok(scn) => scn,
        Err(err) => {
            ctx.oracle_fail("bad-input", &format!("{err}"), input, json!(null));
            return
        }
    };
    let mut scn = scn;
    if let Some(glue) = input.get("glue") {
        let file = (parse_policy(&glue["file_stale"]), parse_policy(&glue["file_unsafe"]));
        let cli = (parse_policy(&glue["cli_stale"]), parse_policy(&glue["cli_unsafe"]));
        match policies_through_config(file, cli) {
            Ok((stale, unsafe_vrps)) => {
                scn.opts.stale = stale;
                // The user's unsafe-vrps setting must arrive as configured.
                let wanted = cli.1.or(file.1).unwrap_or(Policy::Accept);
                if unsafe_vrps != wanted {
                    ctx.oracle_fail(
                        "unsafe-vrps-policy-lost",
                        &format!(
                            "unsafe-vrps configured as {} (file {:?}, command line {:?}) but the \
                             engine would run with {}", wanted.as_str(), file.1, cli.1, unsafe_vrps.as_str()
                        ),
                        input, json!(null)
                    );
                }
                ctx.count(&format!("glue:stale={}", stale.as_str()));
            }
            Err(err) => {
                ctx.oracle_fail("config-rejected", &err, input, json!(null));
                return
            }
        }
    }
    let played = play_case(player, &scn, 0);
    count_run_stats(ctx, &played);
    oracle(ctx, input, &scn, &played);
    ctx.case(input, &played.op_line, &played.impl_line);
}

fn spec_run(now: i64, serve: Serve, update: Option<bool>) -> RunSpec {
    RunSpec { now, serve, order: Order::Seed(now as u64), update, tamper: vec![] }
}

fn generate(ctx: &mut Ctx) -> Vec<Value> {
    let world = world();
    let mut cases = Vec::new();
    let policies = [Policy::Reject, Policy::Warn, Policy::Accept];
    let thorough = !ctx.quick();
    for policy in policies {
        let opts = EngineOpts { stale: policy, ..Default::default() };
        // Fetch path: every subset of stale CAs, empty store, one run at T0.
        for subset in 0..32u32 {
            let kinds = stale_kinds(subset, subset % 3 == 1);
            ctx.nontrivial(format!("fetch {} {:05b}", policy.as_str(), subset));
            let scn = Scenario {
                world: world.clone(), opts: opts.clone(),
                runs: vec![spec_run(T0, serve(&world, &kinds), None)],
            };
            cases.push(json!({
                "scenario": to_json(&scn), "expect": {"kind": "stale", "kinds": kinds},
            }));
        }
        // Stored path: fetched while fresh (T0 - 1 h), validated again at T0 from the store:
        // unchanged server (same-manifest shortcut) or no collector at all.
        for subset in 0..32u32 {
            let size = subset.count_ones();
            if !thorough && !(size <= 1 || size == 5 || subset % 7 == 3) { continue }
            let kinds = stale_kinds(subset, subset % 2 == 1);
            let offline = subset % 2 == 0;
            ctx.nontrivial(format!("stored {} {:05b} offline={offline}", policy.as_str(), subset));
            let scn = Scenario {
                world: world.clone(), opts: opts.clone(),
                runs: vec![
                    spec_run(T0 - HOUR, serve(&world, &kinds), None),
                    spec_run(T0, serve(&world, &kinds), if offline { Some(false) } else { None }),
                ],
            };
            cases.push(json!({
                "scenario": to_json(&scn), "expect": {"kind": "stale", "kinds": kinds},
            }));
        }
        // Premature manifests: nothing stored / an older version stored; and thisUpdate = now.
        for ca in ["root", "a", "b1"] {
            let mut kinds = [FRESH; 5];
            kinds[index(ca)] = PREMATURE;
            ctx.nontrivial(format!("premature {} {ca}", policy.as_str()));
            let scn = Scenario {
                world: world.clone(), opts: opts.clone(),
                runs: vec![spec_run(T0, serve(&world, &kinds), None)],
            };
            cases.push(json!({
                "scenario": to_json(&scn), "expect": {"kind": "premature", "ca": ca},
            }));
            let scn = Scenario {
                world: world.clone(), opts: opts.clone(),
                runs: vec![
                    spec_run(T0 - HOUR, serve(&world, &[FRESH; 5]), None),
                    spec_run(T0, serve(&world, &kinds), None),
                ],
            };
            cases.push(json!({
                "scenario": to_json(&scn), "expect": {"kind": "premature", "ca": ca},
            }));
        }
        // Boundaries: nextUpdate = now is not stale, thisUpdate = now is not premature.
        let mut kinds = [EDGE; 5];
        ctx.nontrivial(format!("edge {}", policy.as_str()));
        let scn = Scenario {
            world: world.clone(), opts: opts.clone(),
            runs: vec![
                spec_run(T0, serve(&world, &kinds), None),
                spec_run(T0 + 1, serve(&world, &kinds), None),
            ],
        };
        cases.push(json!({ "scenario": to_json(&scn), "expect": {"kind": "boundary"} }));
        kinds = [FRESH; 5];
        kinds[1] = JUST_NOW;
        let scn = Scenario {
            world: world.clone(), opts: opts.clone(),
            runs: vec![
                spec_run(T0 - HOUR, serve(&world, &[FRESH; 5]), None),
                spec_run(T0, serve(&world, &kinds), None),
            ],
        };
        cases.push(json!({ "scenario": to_json(&scn), "expect": {"kind": "boundary"} }));
    }
    // Configuration glue: the policy reaches the engine through a config file and/or the
    // command line (`Config::config_args` + `from_arg_matches`), one stale CA ("a", stale
    // manifest; its child a1 hangs below it), fetch path and stored path.
    let name = |p: Option<Policy>| p.map(|p| json!(p.as_str())).unwrap_or(Value::Null);
    let all = [None, Some(Policy::Reject), Some(Policy::Warn), Some(Policy::Accept)];
    for file in all {
        for cli in all {
            // (a) file only, (b) command line only, (d) neither: all; (c) both: differing pairs.
            if file.is_some() && cli.is_some() && file == cli { continue }
            let kinds = stale_kinds(0b00010, false);
            for stored in [false, true] {
                ctx.nontrivial(format!("glue file={file:?} cli={cli:?} stored={stored}"));
                let runs = if stored {
                    vec![
                        spec_run(T0 - HOUR, serve(&world, &kinds), None),
                        spec_run(T0, serve(&world, &kinds), None),
                    ]
                } else {
                    vec![spec_run(T0, serve(&world, &kinds), None)]
                };
                let scn = Scenario { world: world.clone(), opts: EngineOpts::default(), runs };
                cases.push(json!({
                    "scenario": to_json(&scn), "expect": {"kind": "stale", "kinds": kinds},
                    "glue": {
                        "file_stale": name(file), "cli_stale": name(cli),
                        "file_unsafe": if stored { json!("warn") } else { Value::Null },
                        "cli_unsafe": if file.is_none() && !stored { json!("reject") } else { Value::Null },
                    },
                }));
            }
        }
    }
    cases
}

pub fn run_c06(ctx: &mut Ctx) {
    ctx.rule = "five-CA tree (root -> a, b; a -> a1; b -> b1), one rsync module; every subset of CAs \
        with a manifest (nextUpdate = now - 1) or CRL past nextUpdate x policy reject/warn/accept on \
        the fetch path (all 32 subsets) and on the stored path (fetched while fresh, revalidated at \
        now via the same-manifest shortcut or without collector; quick: subsets of size <= 1, the \
        full set and a sample, thorough: all); premature manifests (thisUpdate = now + 1) with and \
        without a stored version; boundaries nextUpdate = now / thisUpdate = now. Non-trivial = \
        distinct (path, policy, subset). Configuration glue: stale (and unsafe-vrps) given in a \
        config file on disk and/or on the command line, turned into a Config by \
        Config::config_args + from_arg_matches (file only, command line only, both with the \
        command line winning, neither) on the one-stale-CA tree, fetch and stored path; judged \
        against the policy the user configured".into();
    let mut player = Player::new();
    let inputs = match ctx.replay_inputs() {
        Some(inputs) => inputs,
        None => {
            let mut inputs = ctx.corpus("C06");
            inputs.extend(generate(ctx));
            inputs
        }
    };
    for input in inputs {
        run_input(ctx, &mut player, &input);
    }
}
