//! C07: validation terminates on deep or cyclic CA hierarchies.
//!
//! Chains of CAs around the `max-ca-depth` boundary (deepest CA at depth
//! max − 1, max, max + 1) for several depth limits and validation thread
//! counts, and cyclic hierarchies: a CA publishing a certificate for its own
//! key or for any ancestor's key, pointing either back at that ancestor's
//! publication point (a true cycle) or at a "trap" publication point whose
//! payload would show up if the certificate were followed. Every run is
//! guarded by a wall-clock budget.

use std::collections::BTreeSet;
use std::sync::mpsc;
use std::time::Duration;
use rpkitest::gen::*;
use rpkitest::model::Encoder;
use rpkitest::scenario::{Order, RunSpec, Scenario};
use rpkitest::*;
use rvcore::Ctx;
use serde_json::{json, Value};
use crate::common::*;

/// Wall-clock budget for one scenario (a healthy run takes well under 5 s).
const BUDGET: Duration = Duration::from_secs(90);

fn module(i: usize, spread: bool) -> &'static str {
    if spread && i % 2 == 1 { "rpki.test/alt" } else { "rpki.test/repo" }
}

fn chain_res() -> Res {
    Res::v4(&["10.0.0.0/8"]).with_asn(65000, 65999)
}

/// A chain c0 (trust anchor) → c1 → … → c<len>, each with one ROA. `spread`
/// puts odd levels into a second rsync module (so that child tasks are
/// deferred to the queue). `loops`: (publisher level k, ancestor level j,
/// trap?) adds to c<k> a CA certificate for c<j>'s key.
fn world(len: usize, spread: bool, loops: &[(usize, usize, bool)]) -> World {
    let mut world = World::default();
    world.tals.push(tal("ta", 0, &[TA_URI]));
    for i in 0..=len {
        let cert_uri = if i == 0 { TA_URI.to_string() }
            else { format!("rsync://{}/c{}/c{}.cer", module(i - 1, spread), i - 1, i) };
        let mut spec = ca(&format!("c{i}"), i, &format!("{}/c{i}/", module(i, spread)), &cert_uri);
        let mut v = version(1, T0 - HOUR, T0 + 30 * DAY);
        v.objects.push(roa("a.roa", 10, 65000 + i as u32, &format!("10.{i}.0.0/24"), None));
        if i < len {
            v.objects.push(child_cert(
                &format!("c{}.cer", i + 1), 500, &format!("c{}", i + 1), chain_res()
            ));
        }
        for (n, (k, j, trap)) in loops.iter().enumerate() {
            if *k != i { continue }
            let name = format!("loop{n}");
            v.objects.push(child_cert(&format!("{name}.cer"), 600 + n as u64, &name, chain_res()));
            // The looping CA: ancestor j's key; either j's own publication
            // point or a trap point with its own payload.
            let mut looped = if *trap {
                let mut spec = ca(
                    &name, *j, &format!("{}/{name}/", module(i, spread)),
                    &format!("rsync://{}/c{i}/{name}.cer", module(i, spread))
                );
                let mut tv = version(1, T0 - HOUR, T0 + 30 * DAY);
                tv.objects.push(roa("t.roa", 20, 65500 + n as u32, &format!("10.200.{n}.0/24"), None));
                spec.versions.push(tv);
                spec
            }
            else {
                let mut spec = ca(
                    &name, *j, &format!("{}/c{j}/", module(*j, spread)),
                    &format!("rsync://{}/c{i}/{name}.cer", module(i, spread))
                );
                spec.mft = format!("c{j}.mft");
                spec.crl = format!("c{j}.crl");
                spec
            };
            looped.name = name;
            world.cas.push(looped);
        }
        spec.versions.push(v);
        world.cas.push(spec);
    }
    // Chain CAs first (the encoder takes the first CaSpec per manifest URI).
    world.cas.sort_by_key(|ca| ca.name.starts_with("loop"));
    world
}

fn scenario(world: &World, depth: usize, threads: usize) -> Scenario {
    let points = world.cas.iter().filter(|ca| !ca.versions.is_empty())
        .map(|ca| (ca.name.clone(), 0)).collect();
    Scenario {
        world: world.clone(),
        opts: EngineOpts { max_ca_depth: depth, threads, ..Default::default() },
        runs: vec![RunSpec {
            now: T0,
            serve: Serve { tas: vec![ta_file(TA_URI, "c0", 0, Res::all())], points, rsync: vec![] },
            order: Order::Seed(depth as u64 * 31 + threads as u64), update: None, tamper: vec![],
        }],
    }
}

/// Runs the scenario on a worker thread under the time budget.
fn play_guarded(scn: &Scenario) -> Option<Played> {
    let (tx, rx) = mpsc::channel();
    let scn = scn.clone();
    std::thread::spawn(move || {
        let builder = Builder::new();
        let obs = rpkitest::scenario::play(&builder, &scn);
        let mut enc = Encoder::new(&builder, &scn);
        let request = enc.request(&obs);
        let impl_line = enc.impl_line(&obs);
        let _ = tx.send(Played { obs, op_line: format!("engine {request}"), impl_line });
    });
    rx.recv_timeout(BUDGET).ok()
}

fn run_input(ctx: &mut Ctx, input: &Value) -> bool {
    let scn: Scenario = match serde_json::from_value(input["scenario"].clone()) {
        Ok(scn) => scn,
        Err(err) => {
            ctx.oracle_fail("bad-input", &format!("{err}"), input, json!(null));
            return true
        }
    };
    let started = std::time::Instant::now();
    let Some(played) = play_guarded(&scn) else {
        ctx.oracle_fail(
            "no-termination",
            &format!("the validation run did not finish within {} s", BUDGET.as_secs()),
            input, json!(null)
        );
        ctx.case_oracle_only(input, "timeout");
        // The worker thread cannot be stopped: give up on further cases.
        return false
    };
    ctx.count_n("elapsed-ms", started.elapsed().as_millis() as u64);
    count_run_stats(ctx, &played);
    let depth = scn.opts.max_ca_depth;
    let ob = &played.obs[0];
    if !ob.out.ok() {
        ctx.oracle_fail(
            "run-failed", &format!("run ended with {}", ob.out.status.as_str()),
            input, obs_json(&played.obs)
        );
    }
    else {
        let served: BTreeSet<String> = ob.out.payload().into_iter().collect();
        for ca in &scn.world.cas {
            let universe = payload_universe(&scn.world, &ca.name);
            if universe.is_empty() { continue }
            let has = universe.iter().all(|p| served.contains(p));
            let any = universe.iter().any(|p| served.contains(p));
            if let Some(level) = ca.name.strip_prefix('c').and_then(|s| s.parse::<usize>().ok()) {
                if level > depth && any {
                    ctx.oracle_fail(
                        "beyond-depth-served",
                        &format!("{} is at depth {level} > max-ca-depth {depth} but contributes payload", ca.name),
                        input, obs_json(&played.obs)
                    );
                }
                if level <= depth && !has {
                    ctx.oracle_fail(
                        "within-depth-dropped",
                        &format!("{} is at depth {level} <= max-ca-depth {depth} but its payload is missing", ca.name),
                        input, obs_json(&played.obs)
                    );
                }
                ctx.count(if level > depth { "ca:pruned-depth" } else { "ca:kept" });
            }
            else if any {
                ctx.oracle_fail(
                    "loop-followed",
                    &format!(
                        "{} is reached through a certificate for a key already on its chain, \
                         yet its payload is served", ca.name
                    ),
                    input, obs_json(&played.obs)
                );
            }
            else {
                ctx.count("ca:pruned-loop");
            }
        }
    }
    ctx.case(input, &played.op_line, &played.impl_line);
    true
}

fn generate(ctx: &mut Ctx) -> Vec<Value> {
    let mut cases = Vec::new();
    let thorough = !ctx.quick();
    // Chains around the depth boundary.
    for depth in [0usize, 1, 2, 5] {
        for len in [depth.saturating_sub(1), depth, depth + 1] {
            if depth == 0 && len == 0 && cases.iter().any(|c: &Value| c["tag"] == "d0-l0") { continue }
            for threads in [1usize, 2, 8] {
                if !thorough && depth == 5 && threads == 2 { continue }
                let spread = threads > 1;
                let world = world(len, spread, &[]);
                ctx.nontrivial(format!("chain depth={depth} len={len} threads={threads}"));
                cases.push(json!({
                    "scenario": to_json(&scenario(&world, depth, threads)),
                    "tag": format!("d{depth}-l{len}"),
                }));
            }
        }
    }
    // The default limit with a chain well inside it.
    let deep = world(7, true, &[]);
    ctx.nontrivial("chain depth=32 len=7".into());
    cases.push(json!({ "scenario": to_json(&scenario(&deep, 32, 4)), "tag": "default" }));
    // Loops: publisher level k issues a certificate for the key of level j <= k.
    for k in 0..=3usize {
        for j in 0..=k {
            for trap in [true, false] {
                if !thorough && !trap && (k + j) % 2 == 1 { continue }
                let threads = if (k + j) % 2 == 0 { 1 } else { 8 };
                let world = world(3, threads > 1, &[(k, j, trap)]);
                ctx.nontrivial(format!("loop k={k} j={j} trap={trap} threads={threads}"));
                cases.push(json!({
                    "scenario": to_json(&scenario(&world, 32, threads)),
                    "tag": format!("loop-{k}-{j}-{trap}"),
                }));
            }
        }
    }
    // Several loops at once, low depth limit.
    let multi = world(3, false, &[(1, 0, true), (2, 1, true), (3, 0, false), (3, 3, true)]);
    ctx.nontrivial("multi-loop".into());
    cases.push(json!({ "scenario": to_json(&scenario(&multi, 3, 2)), "tag": "multi" }));
    cases
}

pub fn run_c07(ctx: &mut Ctx) {
    ctx.rule = "chains c0 -> ... -> cN with N in {max-1, max, max+1} for max-ca-depth in {0,1,2,5} x \
        1/2/8 validation threads (odd levels in a second rsync module when threads > 1, so tasks \
        are deferred to the queue), a 7-deep chain under the default 32; cycles: level k publishes \
        a certificate for the key of level j <= k (self, parent, grand-parent, trust anchor) that \
        points back at level j's publication point or at a trap point with its own payload; each \
        run under a 90 s wall-clock budget. Non-trivial = distinct (depth, length, threads) / \
        (k, j, trap)".into();
    let inputs = match ctx.replay_inputs() {
        Some(inputs) => inputs,
        None => {
            let mut inputs = ctx.corpus("C07");
            inputs.extend(generate(ctx));
            inputs
        }
    };
    for input in inputs {
        if !run_input(ctx, &input) { break }
    }
}
