//! C05: fetched manifests never roll back stored data.
//!
//! Histories of validly signed, complete publication point versions whose
//! manifest numbers and thisUpdate times increase, stay equal, decrease or
//! mix (±1 boundaries, 20-octet manifest numbers), served to consecutive
//! runs including replays; plus stored copies made internally inconsistent
//! by overwriting the cached number / thisUpdate in the store file.

use std::cmp::Ordering;
use std::collections::BTreeSet;
use rpkitest::gen::*;
use rpkitest::scenario::{Order, Player, RunSpec, Scenario, Tamper};
use rpkitest::*;
use rvcore::Ctx;
use serde_json::{json, Value};
use crate::common::*;

const TU: i64 = T0 - HOUR;

/// A world whose child CA has the given (manifest number hex, thisUpdate)
/// versions, each with its own ROA.
fn world_with(versions: &[(&str, i64)]) -> World {
    let mut world = base_world();
    let mut v = version(1, TU, T0 + 30 * DAY);
    v.objects.push(kid_cert());
    v.objects.push(roa("x.roa", 900, 64900, "192.0.2.0/24", None));
    world.ca_mut("root").unwrap().versions.push(v);
    for (idx, (number, this_update)) in versions.iter().enumerate() {
        let mut v = version(0, *this_update, T0 + 30 * DAY);
        v.number = number.to_string();
        v.ee_serial = 2_000_000 + idx as u64;
        v.crl.number = idx as u64 + 1;
        v.objects.push(roa(
            &format!("v{idx}.roa"), 100 + idx as u64, 65000 + idx as u32,
            &format!("10.1.{idx}.0/24"), None
        ));
        world.ca_mut("kid").unwrap().versions.push(v);
    }
    world
}

fn run(now: i64, version: usize, seed: u64, tamper: Vec<Tamper>) -> RunSpec {
    RunSpec {
        now,
        serve: Serve {
            tas: vec![ta_cert()],
            points: vec![("root".into(), 0), ("kid".into(), version)],
            rsync: vec![],
        },
        order: Order::Seed(seed), update: None, tamper,
    }
}

/// Compares two decimal number strings.
fn cmp_dec(a: &str, b: &str) -> Ordering {
    let a = a.trim_start_matches('0');
    let b = b.trim_start_matches('0');
    a.len().cmp(&b.len()).then_with(|| a.cmp(b))
}

fn hex_to_dec(hex: &str) -> String {
    let mut digits: Vec<u8> = vec![0];
    for ch in hex.chars() {
        let mut carry = ch.to_digit(16).expect("hex digit");
        for d in digits.iter_mut() {
            let v = (*d as u32) * 16 + carry;
            *d = (v % 10) as u8;
            carry = v / 10;
        }
        while carry > 0 {
            digits.push((carry % 10) as u8);
            carry /= 10;
        }
    }
    digits.iter().rev().map(|d| (b'0' + d) as char).collect()
}

fn oracle(ctx: &mut Ctx, player: &Player, input: &Value, scn: &Scenario, played: &Played) {
    let index = VersionIndex::new(&player.builder, &scn.world);
    let kid = scn.world.ca("kid").expect("kid");
    let suffix = kid.mft_uri().trim_start_matches("rsync://").to_string();
    let universe = payload_universe(&scn.world, "kid");
    for (r, run) in scn.runs.iter().enumerate() {
        let ob = &played.obs[r];
        if !ob.out.ok() {
            ctx.oracle_fail(
                "run-failed", &format!("run {r} ended with {}", ob.out.status.as_str()),
                input, obs_json(&played.obs)
            );
            continue
        }
        if r == 0 { continue }
        let before = played.obs[r - 1].store.point(&suffix).and_then(|p| {
            p.manifest.as_ref().map(|m| (m, p.file_sha256.clone()))
        });
        let after = ob.store.point(&suffix).and_then(|p| {
            p.manifest.as_ref().map(|m| (m, p.file_sha256.clone()))
        });
        let Some((before, before_file)) = before else { continue };
        let tampered = run.tamper.iter().any(|t| t.ca == "kid");
        if tampered {
            ctx.count("run:stored-copy-inconsistent");
            continue
        }
        let Some(fetched) = run.serve.version_of("kid") else { continue };
        let fetched = &kid.versions[fetched];
        let fetched_number = hex_to_dec(&fetched.number);
        let newer = cmp_dec(&fetched_number, &before.number) == Ordering::Greater
            && fetched.this_update > before.this_update;
        let what = json!({
            "run": r, "stored_before": [before.number, before.this_update],
            "fetched": [fetched_number, fetched.this_update],
            "stored_after": after.as_ref().map(|(m, _)| json!([m.number, m.this_update])),
            "impl": obs_json(&played.obs),
        });
        let Some((after, after_file)) = after else {
            ctx.oracle_fail(
                "stored-copy-lost",
                &format!("run {r}: the consistent stored copy of kid disappeared"),
                input, what
            );
            continue
        };
        if after.manifest != before.manifest && !newer {
            ctx.oracle_fail(
                "rollback-accepted",
                &format!(
                    "run {r}: stored manifest (number {}, thisUpdate {}) was replaced by a fetched \
                     one (number {}, thisUpdate {}) that is not strictly newer in both",
                    before.number, before.this_update, fetched_number, fetched.this_update
                ),
                input, what
            );
            continue
        }
        if cmp_dec(&after.number, &before.number) == Ordering::Less
            || after.this_update < before.this_update
        {
            ctx.oracle_fail(
                "stored-went-backwards",
                &format!(
                    "run {r}: stored (number, thisUpdate) went from ({}, {}) to ({}, {})",
                    before.number, before.this_update, after.number, after.this_update
                ),
                input, what
            );
            continue
        }
        if !newer {
            // A replayed / reordered older manifest: store and payload unchanged.
            ctx.count("run:not-newer");
            if after_file != before_file {
                ctx.oracle_fail(
                    "replay-changed-store",
                    &format!("run {r}: a not-newer manifest changed the stored point file"),
                    input, what
                );
                continue
            }
            if let Some(Ok(v)) = index.stored_version(&played.obs[r - 1], kid) {
                let expected = std_version_payload(&scn.world, "kid", v, run.now, &scn.opts);
                let served: BTreeSet<String> = ob.out.payload().into_iter()
                    .filter(|p| universe.contains(p)).collect();
                if served != expected {
                    ctx.oracle_fail(
                        "replay-changed-payload",
                        &format!(
                            "run {r}: a not-newer manifest changed kid's payload to {served:?} \
                             (stored version's payload: {expected:?})"
                        ),
                        input, what
                    );
                }
            }
        }
        else {
            ctx.count("run:newer");
        }
    }
}

fn run_input(ctx: &mut Ctx, player: &mut Player, input: &Value) {
    let scn: Scenario = match serde_json::from_value(input["scenario"].clone()) {
        Ok(scn) => scn,
        Err(err) => {
            ctx.oracle_fail("bad-input", &format!("{err}"), input, json!(null));
            return
        }
    };
    let memo = input["memo"].as_u64().unwrap_or(0) as usize;
    let played = play_case(player, &scn, memo);
    count_run_stats(ctx, &played);
    oracle(ctx, player, input, &scn, &played);
    ctx.case(input, &played.op_line, &played.impl_line);
}

fn case(world: &World, runs: Vec<RunSpec>, memo: usize) -> Value {
    let scn = Scenario { world: world.clone(), opts: EngineOpts::default(), runs };
    json!({ "scenario": to_json(&scn), "memo": memo })
}

/// Adds `delta` to every time stamp of a serialised scenario.
fn shift_times(value: &mut Value, delta: i64) {
    const KEYS: [&str; 8] = [
        "now", "this_update", "next_update", "not_before", "not_after",
        "ee_not_before", "ee_not_after", "revocation_time",
    ];
    match value {
        Value::Object(map) => {
            for (key, item) in map.iter_mut() {
                if KEYS.contains(&key.as_str()) {
                    if let Some(t) = item.as_i64() { *item = json!(t + delta) }
                }
                else {
                    shift_times(item, delta)
                }
            }
        }
        Value::Array(list) => list.iter_mut().for_each(|item| shift_times(item, delta)),
        _ => { }
    }
}

/// 2050-01-01T00:00:00Z: from here on X.509 times are GeneralizedTime.
const Y2050: i64 = 2_524_608_000;

/// The versions whose stored copy a careless consistency test could take
/// for broken: BER framed manifest (two forms), manifest with a stray
/// trailing byte, BER framed manifest *and* ROA, 20-octet manifest number.
/// Index 0 is the plain older version, the last index a plain newest one.
fn special_world() -> World {
    let mut world = world_with(&[
        ("1", TU), ("2", TU + 10), ("2", TU + 10), ("2", TU + 10), ("2", TU + 10),
        (MAX20_1, TU + 10), (MAX20, TU + 20),
    ]);
    let kid = world.ca_mut("kid").unwrap();
    kid.versions[1].mft_publish = Publish::Ber;
    kid.versions[2].mft_publish = Publish::BerLongLen;
    kid.versions[3].mft_publish = Publish::Corrupt;
    kid.versions[4].mft_publish = Publish::Ber;
    kid.versions[4].objects[0].publish = Publish::Ber;
    world
}

const MAX20: &str = "7fffffffffffffffffffffffffffffffffffffff";
const MAX20_1: &str = "7ffffffffffffffffffffffffffffffffffffffe";
const BIG: &str = "0100000000000000000000";

fn generate(ctx: &mut Ctx) -> Vec<Value> {
    let mut cases = Vec::new();
    // A. Every history of length 3 over the ±1 grid (number, thisUpdate) ∈ {1,2} × {t, t+1}.
    let grid = world_with(&[("1", TU), ("1", TU + 1), ("2", TU), ("2", TU + 1)]);
    for a in 0..4 {
        for b in 0..4 {
            for c in 0..4 {
                ctx.nontrivial(format!("grid {a}{b}{c}"));
                cases.push(case(&grid, vec![
                    run(T0, a, 1, vec![]), run(T0 + 60, b, 2, vec![]), run(T0 + 120, c, 3, vec![]),
                ], 2));
            }
        }
    }
    // B. Wide numbers (beyond u64/u128, 20 octets), zero, equal numbers with different times.
    let wide = world_with(&[
        ("0", TU), ("1", TU + 10), (BIG, TU + 20), (MAX20_1, TU + 30), (MAX20, TU + 40),
        (MAX20, TU + 5), ("2", TU + 40), ("ffffffffffffffff", TU + 25),
    ]);
    let n = ctx.budget(24, 400);
    for i in 0..n {
        let mut rng = ctx.rng.fork();
        let len = rng.range(3, 5) as usize;
        let mut runs = Vec::new();
        let mut sig = String::new();
        for k in 0..len {
            let v = rng.below(8) as usize;
            sig.push_str(&v.to_string());
            runs.push(run(T0 + 60 * k as i64, v, rng.next(), vec![]));
        }
        ctx.nontrivial(format!("wide {i} {sig}"));
        cases.push(case(&wide, runs, 1));
    }
    // C. Internally inconsistent stored copies: cached values overwritten in the store file.
    let tamper = |number: &str, this_update: i64| vec![Tamper {
        ca: "kid".into(), number: number.into(), this_update
    }];
    for (stored, cached, fetched) in [
        (3usize, ("5", TU + 1), 0usize),     // cached number too high: stored copy discarded, older accepted
        (3, ("2", TU + 7), 0),               // cached thisUpdate differs
        (3, ("0", TU - 5), 0),               // cached values lower: first test already accepts
        (3, ("2", TU + 1), 0),               // rewritten with the true values: still consistent, rejected
        (0, ("9", TU + 9), 3),               // newer fetched, inconsistent stored
        (2, ("2", TU + 1), 1),               // cached thisUpdate later than the manifest's
    ] {
        ctx.nontrivial(format!("tamper {stored} {cached:?} {fetched}"));
        cases.push(case(&grid, vec![
            run(T0, stored, 7, vec![]),
            run(T0 + 60, fetched, 8, tamper(cached.0, cached.1)),
            run(T0 + 120, stored, 9, vec![]),
        ], 1));
    }
    // D. Stored copies a refactored consistency test could misjudge, each followed by a
    //    replay of the older version: lax mode, and strict mode (where BER is refused at once).
    let special = special_world();
    for strict in [false, true] {
        for s in 1..=5usize {
            if strict && !matches!(s, 1 | 2 | 4) { continue }
            ctx.nontrivial(format!("special {s} strict={strict}"));
            let scn = Scenario {
                world: special.clone(),
                opts: EngineOpts { strict, ..Default::default() },
                runs: vec![
                    run(T0, 0, 11, vec![]), run(T0 + 60, s, 12, vec![]),
                    run(T0 + 120, 0, 13, vec![]), run(T0 + 180, s, 14, vec![]),
                    run(T0 + 240, 6, 15, vec![]), run(T0 + 300, s, 16, vec![]),
                ],
            };
            cases.push(json!({ "scenario": to_json(&scn), "memo": 1 }));
        }
    }
    // E. The same rules across 2050-01-01 (UTCTime / GeneralizedTime switch in certificates
    //    and CRLs): thisUpdate one second before, at, and one second after the boundary.
    let boundary = world_with(&[("1", TU + 99), ("2", TU + 100), ("3", TU + 99), ("2", TU + 101)]);
    let delta = Y2050 - (TU + 100);
    for (k, seq) in [[0usize, 1, 0], [1, 2, 1], [3, 2, 0], [0, 3, 1]].iter().enumerate() {
        ctx.nontrivial(format!("y2050 {seq:?}"));
        let scn = Scenario {
            world: boundary.clone(), opts: EngineOpts::default(),
            runs: seq.iter().enumerate().map(|(i, v)| {
                run(T0 + 60 * i as i64, *v, 20 + k as u64, vec![])
            }).collect(),
        };
        let mut value = to_json(&scn);
        shift_times(&mut value, delta);
        cases.push(json!({ "scenario": value, "memo": 1 }));
    }
    cases
}

pub fn run_c05(ctx: &mut Ctx) {
    ctx.rule = "child CA with validly signed complete versions; all 64 three-run histories over the \
        grid number in {1,2} x thisUpdate in {t,t+1}; random 3-5 run histories over 8 versions with \
        manifest numbers 0, 1, 2, 2^64-1, 2^80, 2^159-2, 2^159-1 (equal numbers with different \
        thisUpdate included); stored copies made inconsistent by rewriting the cached number / \
        thisUpdate in the store file; stored copies a careless consistency test could misjudge \
        (BER framed manifest in two forms, trailing byte, BER manifest + BER ROA, 20-octet number) \
        each followed by a replay of the older version, lax and strict; histories across \
        2050-01-01. Non-trivial = distinct version sequence".into();
    let mut player = Player::new();
    let inputs = match ctx.replay_inputs() {
        Some(inputs) => inputs,
        None => {
            let mut inputs = ctx.corpus("C05");
            inputs.extend(generate(ctx));
            inputs
        }
    };
    for input in inputs {
        run_input(ctx, &mut player, &input);
    }
}
