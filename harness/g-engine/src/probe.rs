//! Throw-away probe for the C03 mixture.
use rpkitest::gen::*;
use rpkitest::scenario::*;
use rpkitest::*;
use rvcore::Ctx;
use serde_json::json;

fn perms(n: usize) -> Vec<Vec<usize>> {
    if n == 0 { return vec![vec![]] }
    let mut res = Vec::new();
    for p in perms(n - 1) {
        for i in 0..n {
            let mut q = p.clone();
            q.insert(i, n - 1);
            res.push(q);
        }
    }
    res
}

pub fn run_probe(ctx: &mut Ctx) {
    let builder = Builder::new();
    let mut world = World::default();
    world.tals.push(tal("ta", 0, &["rsync://h.test/m/ta.cer"]));
    let mut root = ca("root", 0, "h.test/m/root/", "rsync://h.test/m/ta.cer");
    let mut v1 = version(1, T0 - HOUR, T0 + DAY);
    v1.objects.push(roa("a.roa", 10, 64496, "10.0.0.0/24", None));
    let mut v2 = version(2, T0 - HOUR + 60, T0 + DAY);
    v2.objects.push(roa("b.roa", 11, 64497, "10.0.1.0/24", None));
    let mut c = roa("c.roa", 12, 64498, "10.0.2.0/24", None);
    c.publish = Publish::Missing;
    v2.objects.push(c);
    root.versions.push(v1);
    root.versions.push(v2);
    world.cas.push(root);
    let ta = ta_file("rsync://h.test/m/ta.cer", "root", 0, Res::all());
    for perm in perms(3) {
        let scn = Scenario {
            world: world.clone(), opts: EngineOpts::default(),
            runs: vec![
                RunSpec { now: T0, serve: Serve { tas: vec![ta.clone()], points: vec![("root".into(), 0)], rsync: vec![] }, order: Order::Sorted, update: None, tamper: vec![] },
                RunSpec { now: T0 + 120, serve: Serve { tas: vec![ta.clone()], points: vec![("root".into(), 1)], rsync: vec![] }, order: Order::Table(vec![perm.clone()]), update: None, tamper: vec![] },
            ],
        };
        let obs = play(&builder, &scn);
        println!("{:?}: run1 {:?} run2 {:?} {:?} stored {:?}", perm, obs[0].out.payload(), obs[1].out.payload(), obs[1].out.metrics.publication,
            obs[1].store.points.iter().map(|p| p.manifest.as_ref().map(|m| m.number.clone())).collect::<Vec<_>>());
        ctx.case_oracle_only(&json!({"perm": perm}), &obs[1].out.payload().join(";"));
    }
}
