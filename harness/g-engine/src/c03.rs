//! C03: a publication point contributes one consistent object set.
//!
//! Histories of publication point versions where a newer version is
//! incompletely retrievable (a listed file missing, or served with bytes
//! that do not match the listed hash), played against the real engine with
//! *every* processing order of the manifest entries imposed through the
//! guarded hook `routinator::verif::permute_sorted`.

use std::collections::BTreeSet;
use rpkitest::gen::*;
use rpkitest::scenario::{Order, Player, RunSpec, Scenario};
use rpkitest::truth;
use rpkitest::*;
use rvcore::Ctx;
use serde_json::{json, Value};
use crate::common::*;

/// The variants of version 2 of the focus CA.
#[derive(Clone, Debug)]
struct Variant {
    index: usize,
    /// `None`: complete; `Some((object index, kind))`.
    fault: Option<(usize, &'static str)>,
}

struct Setup {
    world: World,
    focus: String,
    variants: Vec<Variant>,
    v1: usize,
    v3: usize,
    /// Number of manifest entries of the version-2 variants.
    entries: usize,
}

fn asn_base(focus: &str) -> u32 { if focus == "root" { 64500 } else { 65000 } }

fn prefix(focus: &str, version: u32, idx: u32) -> String {
    if focus == "root" { format!("192.{}.{}.0/24", version, idx) }
    else { format!("10.1.{}.0/24", version * 16 + idx) }
}

/// The `idx`-th payload object of version `version` of the focus CA.
fn payload_obj(focus: &str, version: u32, idx: u32, rich: bool) -> ObjSpec {
    let asn = asn_base(focus) + version * 20 + idx;
    let serial = (version * 100 + idx + 10) as u64;
    match (rich, idx % 4) {
        (true, 1) => aspa(&format!("o{version}{idx}.asa"), serial, asn, &[asn + 1, asn + 2]),
        (true, 2) => router(&format!("o{version}{idx}.cer"), serial, &[asn], (idx % 3) as usize),
        (true, 3) => gbr(&format!("o{version}{idx}.gbr"), serial),
        _ => roa(&format!("o{version}{idx}.roa"), serial, asn, &prefix(focus, version, idx), None),
    }
}

fn setup(focus: &str, n_objs: usize, rich: bool, kinds: &[&'static str]) -> Setup {
    let mut world = base_world();
    let other = if focus == "root" { "kid" } else { "root" };
    // The other CA: one unchanging version.
    let mut v = version(1, T0 - HOUR, T0 + 30 * DAY);
    if other == "root" { v.objects.push(kid_cert()) }
    v.objects.push(roa("x.roa", 900, asn_base(other) + 900, &prefix(other, 9, 0), None));
    world.ca_mut(other).unwrap().versions.push(v);

    let mut versions = Vec::new();
    // Version 1 (complete).
    let mut v1 = version(1, T0 - HOUR, T0 + 30 * DAY);
    if focus == "root" { v1.objects.push(kid_cert()) }
    v1.objects.push(payload_obj(focus, 1, 0, rich));
    if n_objs > 2 { v1.objects.push(payload_obj(focus, 1, 1, rich)) }
    versions.push(v1);
    // Version 2 and its broken variants.
    let mut v2 = version(2, T0 - HOUR + 600, T0 + 30 * DAY);
    if focus == "root" { v2.objects.push(kid_cert()) }
    while v2.objects.len() < n_objs {
        let idx = v2.objects.len() as u32;
        v2.objects.push(payload_obj(focus, 2, idx, rich));
    }
    let mut variants = vec![Variant { index: versions.len(), fault: None }];
    versions.push(v2.clone());
    for j in 0..n_objs {
        for kind in kinds {
            let mut v = v2.clone();
            v.objects[j].publish = match *kind {
                "missing" => Publish::Missing,
                "corrupt" => Publish::Corrupt,
                _ => {
                    // A different, perfectly valid object under the name.
                    let mut other = payload_obj(focus, 4, j as u32, false);
                    other.name = v.objects[j].name.clone();
                    Publish::Replace(Box::new(other))
                }
            };
            variants.push(Variant { index: versions.len(), fault: Some((j, kind)) });
            versions.push(v);
        }
    }
    // Version 3 (complete, different payload).
    let mut v3 = version(3, T0 - HOUR + 1200, T0 + 30 * DAY);
    if focus == "root" { v3.objects.push(kid_cert()) }
    v3.objects.push(payload_obj(focus, 3, 0, rich));
    v3.objects.push(payload_obj(focus, 3, 1, rich));
    let v3_index = versions.len();
    versions.push(v3);
    world.ca_mut(focus).unwrap().versions = versions;
    Setup { world, focus: focus.into(), variants, v1: 0, v3: v3_index, entries: n_objs + 1 }
}

fn serve(setup: &Setup, focus_version: Option<usize>) -> Serve {
    let other = if setup.focus == "root" { "kid" } else { "root" };
    let mut points = vec![(other.to_string(), 0)];
    if let Some(v) = focus_version { points.push((setup.focus.clone(), v)) }
    Serve { tas: vec![ta_cert()], points, rsync: vec![] }
}

fn run(setup: &Setup, now: i64, version: Option<usize>, order: Order) -> RunSpec {
    RunSpec { now, serve: serve(setup, version), order, update: None, tamper: vec![] }
}

/// The CAs some version of `focus` has a certificate for.
fn child_cas(world: &World, focus: &str) -> BTreeSet<String> {
    let mut res = BTreeSet::new();
    for version in &world.ca(focus).expect("focus CA").versions {
        for obj in &version.objects {
            let mut all = vec![obj];
            if let Publish::Replace(other) = &obj.publish { all.push(other) }
            for obj in all {
                if let ObjKind::Ca { ca, .. } = &obj.kind { res.insert(ca.clone()); }
            }
        }
    }
    res
}

/// Ground truth: what the subtree of `focus` contributes when `version` is
/// the version used: the version's own payload plus the payload of every
/// child CA it has a valid certificate for (children publish one valid
/// version each and have no children of their own).
fn subtree_payload(
    world: &World, focus: &str, version: usize, now: i64, opts: &EngineOpts,
) -> BTreeSet<String> {
    let spec = world.ca(focus).expect("focus CA");
    let v = &spec.versions[version];
    let mut res = std_version_payload(world, focus, version, now, opts);
    for obj in &v.objects {
        if !matches!(obj.publish, Publish::Normal) { continue }
        if let ObjKind::Ca { ca, .. } = &obj.kind {
            if truth::obj_reject_reason(spec, &std_eff(focus), &v.crl, obj, now).is_none() {
                res.extend(payload_universe(world, ca));
            }
        }
    }
    res
}

/// The oracle: the property itself on the implementation's output.
fn oracle(
    ctx: &mut Ctx, player: &Player, input: &Value, scn: &Scenario, focus: &str, played: &Played,
) {
    let index = VersionIndex::new(&player.builder, &scn.world);
    let spec = scn.world.ca(focus).expect("focus CA");
    // The CA's whole subtree: its own payload and that of every CA one of
    // its versions has a certificate for (those have one version each).
    let mut universe = payload_universe(&scn.world, focus);
    for child in child_cas(&scn.world, focus) {
        universe.extend(payload_universe(&scn.world, &child));
    }
    for (r, run) in scn.runs.iter().enumerate() {
        let ob = &played.obs[r];
        if !ob.out.ok() {
            ctx.oracle_fail(
                "run-failed", &format!("run {r} ended with {}", ob.out.status.as_str()),
                input, obs_json(&played.obs)
            );
            continue
        }
        let served: BTreeSet<String> = ob.out.payload().into_iter()
            .filter(|p| universe.contains(p)).collect();
        let stored_before = if r == 0 { None } else { index.stored_version(&played.obs[r - 1], spec) };
        let stored_payload = match stored_before {
            None => BTreeSet::new(),
            Some(Ok(v)) => subtree_payload(&scn.world, focus, v, run.now, &scn.opts),
            Some(Err(())) => continue,
        };
        let fetched = run.serve.version_of(focus);
        let fetched_payload = fetched.map(|v| {
            subtree_payload(&scn.world, focus, v, run.now, &scn.opts)
        });
        let complete = fetched.map(|v| truth::version_complete(&spec.versions[v])).unwrap_or(false);
        let what = json!({
            "run": r, "served": served, "stored_version_before": format!("{stored_before:?}"),
            "stored_payload": stored_payload, "fetched_version": fetched,
            "fetched_payload": fetched_payload, "fetched_complete": complete,
            "impl": obs_json(&played.obs),
        });
        if fetched.is_some() && !complete && served != stored_payload {
            ctx.oracle_fail(
                "abandoned-update-leaks",
                &format!(
                    "run {r}: the fetched version of {focus} is incomplete (update abandoned) \
                     but the CA contributes {served:?}, not the stored version's {stored_payload:?}"
                ),
                input, what
            );
        }
        else if served != stored_payload && Some(&served) != fetched_payload.as_ref() {
            ctx.oracle_fail(
                "mixed-object-set",
                &format!(
                    "run {r}: {focus} contributes {served:?}, which is neither the fetched \
                     version's payload {fetched_payload:?} nor the stored version's {stored_payload:?}"
                ),
                input, what
            );
        }
        else if Some(&served) == fetched_payload.as_ref() && complete {
            ctx.count("used:fetched");
        }
        else {
            ctx.count("used:stored");
        }
    }
}

fn run_input(ctx: &mut Ctx, player: &mut Player, input: &Value) {
    let scn: Scenario = match serde_json::from_value(input["scenario"].clone()) {
        Ok(scn) => scn,
        Err(err) => {
            ctx.oracle_fail("bad-input", &format!("{err}"), input, json!(null));
            return
        }
    };
    let focus = input["focus"].as_str().unwrap_or("kid").to_string();
    let memo = input["memo"].as_u64().unwrap_or(0) as usize;
    let played = play_case(player, &scn, memo);
    count_run_stats(ctx, &played);
    oracle(ctx, player, input, &scn, &focus, &played);
    ctx.case(input, &played.op_line, &played.impl_line);
}

fn case_json(setup: &Setup, opts: &EngineOpts, runs: Vec<RunSpec>, memo: usize) -> Value {
    let scn = Scenario { world: setup.world.clone(), opts: opts.clone(), runs };
    json!({ "scenario": to_json(&scn), "focus": setup.focus, "memo": memo })
}

fn generate(ctx: &mut Ctx) -> Vec<Value> {
    let mut cases = Vec::new();
    let opts = EngineOpts::default();
    let rich_opts = EngineOpts { enable_aspa: true, enable_bgpsec: true, ..Default::default() };
    let thorough = !ctx.quick();

    // A. Exhaustive: child CA, 2–4 entry manifests, every fault position,
    //    every processing order.
    let max_objs = if thorough { 4 } else { 3 };
    for n_objs in 1..=max_objs {
        let kinds: &[&'static str] = if n_objs <= 2 || thorough { &["missing", "corrupt"] } else { &["missing"] };
        let setup = setup("kid", n_objs, false, kinds);
        for variant in setup.variants.iter().filter(|v| v.fault.is_some()) {
            let (j, kind) = variant.fault.unwrap();
            let all = perms(setup.entries);
            for (k, perm) in all.iter().enumerate() {
                // In quick mode alternate the fault kind over the orders of
                // the 4-entry manifests instead of doubling them.
                if n_objs == 3 && !thorough && kind == "missing" && (k + j) % 2 == 1 { continue }
                ctx.nontrivial(format!("kid n={} j={} {} order={:?}", setup.entries, j, kind, perm));
                cases.push(case_json(&setup, &opts, vec![
                    run(&setup, T0, Some(setup.v1), Order::Sorted),
                    run(&setup, T0 + 900, Some(variant.index), Order::Table(vec![perm.clone()])),
                ], 1));
            }
        }
        if n_objs == 3 && !thorough {
            // The skipped half with the other fault kind.
            let setup = setup_corrupt_half();
            for variant in setup.variants.iter().filter(|v| v.fault.is_some()) {
                let (j, _) = variant.fault.unwrap();
                for (k, perm) in perms(setup.entries).iter().enumerate() {
                    if (k + j) % 2 == 0 { continue }
                    ctx.nontrivial(format!("kid n={} j={} corrupt order={:?}", setup.entries, j, perm));
                    cases.push(case_json(&setup, &opts, vec![
                        run(&setup, T0, Some(setup.v1), Order::Sorted),
                        run(&setup, T0 + 900, Some(variant.index), Order::Table(vec![perm.clone()])),
                    ], 1));
                }
            }
        }
    }

    // B. The trust anchor's own point, including the child certificate as
    //    the missing file; hash mismatch through a valid replacement object.
    let setup_root = setup("root", 2, false, &["missing", "replace"]);
    for variant in setup_root.variants.clone() {
        for perm in perms(setup_root.entries) {
            if variant.fault.is_none() && perm[0] != 0 { continue }
            ctx.nontrivial(format!("root {:?} order={:?}", variant.fault, perm));
            cases.push(case_json(&setup_root, &opts, vec![
                run(&setup_root, T0, Some(setup_root.v1), Order::Sorted),
                run(&setup_root, T0 + 900, Some(variant.index), Order::Table(vec![perm.clone()])),
            ], 1));
        }
    }

    // C. Nothing stored yet: the very first version is broken.
    let setup_first = setup("kid", 2, false, &["missing"]);
    for variant in setup_first.variants.iter().filter(|v| v.fault.is_some()) {
        for perm in perms(setup_first.entries) {
            ctx.nontrivial(format!("first-broken {:?} order={:?}", variant.fault, perm));
            cases.push(case_json(&setup_first, &opts, vec![
                run(&setup_first, T0, Some(variant.index), Order::Table(vec![perm.clone()])),
            ], 0));
        }
    }

    // C'. The stored version has a BER framed (non-DER) manifest, accepted in lax mode: the
    //     fallback must still find and use it.
    let mut setup_ber = setup("kid", 2, false, &["missing"]);
    setup_ber.world.ca_mut("kid").unwrap().versions[0].mft_publish = Publish::Ber;
    for variant in setup_ber.variants.iter().filter(|v| v.fault.is_some()) {
        for perm in perms(setup_ber.entries) {
            ctx.nontrivial(format!("stored-ber {:?} order={:?}", variant.fault, perm));
            cases.push(case_json(&setup_ber, &opts, vec![
                run(&setup_ber, T0, Some(setup_ber.v1), Order::Sorted),
                run(&setup_ber, T0 + 900, Some(variant.index), Order::Table(vec![perm.clone()])),
            ], 1));
        }
    }

    // C''. Versions that differ in their child CA certificates (three-level tree root -> kid ->
    //      grandchildren with their own payload): version 2 adds a child, removes the child,
    //      or replaces the child's certificate by one pointing at another publication point;
    //      every broken-entry position x every processing order. The oracle looks at the
    //      whole subtree.
    for (label, objects) in [
        ("add", vec!["roa", "g1", "g2"]),
        ("remove", vec!["roa", "roa2"]),
        ("replace", vec!["roa", "g1b"]),
    ] {
        let setup = setup_children(&objects);
        for variant in setup.variants.clone() {
            let all = perms(setup.entries);
            for (k, perm) in all.iter().enumerate() {
                if variant.fault.is_none() && k % 5 != 0 { continue }
                ctx.nontrivial(format!("children {label} {:?} order={:?}", variant.fault, perm));
                cases.push(json!({
                    "scenario": to_json(&Scenario {
                        world: setup.world.clone(), opts: opts.clone(),
                        runs: vec![
                            run_children(&setup, T0, setup.v1, Order::Sorted),
                            run_children(&setup, T0 + 900, variant.index, Order::Table(vec![perm.clone()])),
                        ],
                    }),
                    "focus": "kid", "memo": 1,
                }));
            }
        }
    }

    // D. ASPA, router certificates, GBR; longer histories with seeded orders:
    //    v1, broken v2, (complete v2 | v3 | broken again | v1 replayed).
    let setup_rich = setup("kid", 4, true, &["missing", "corrupt"]);
    let n = ctx.budget(10, 60);
    for i in 0..n {
        let mut rng = ctx.rng.fork();
        let broken: Vec<&Variant> = setup_rich.variants.iter().filter(|v| v.fault.is_some()).collect();
        let first = *rng.pick(&broken);
        let third = match rng.below(4) {
            0 => Some(setup_rich.variants[0].index),
            1 => Some(setup_rich.v3),
            2 => Some(rng.pick(&broken).index),
            _ => Some(setup_rich.v1),
        };
        let seed = rng.next();
        ctx.nontrivial(format!("history {i} {:?} {:?}", first.fault, third));
        cases.push(case_json(&setup_rich, &rich_opts, vec![
            run(&setup_rich, T0, Some(setup_rich.v1), Order::Sorted),
            run(&setup_rich, T0 + 900, Some(first.index), Order::Seed(seed)),
            run(&setup_rich, T0 + 1800, third, Order::Seed(seed ^ 1)),
        ], 1));
    }
    cases
}

/// Grandchildren of the standard universe: (name, key, resources, ASN).
const GRAND: [(&str, usize, &str, u32); 3] = [
    ("g1", 2, "10.1.200.0/24", 65800),
    ("g2", 3, "10.1.201.0/24", 65810),
    // Same key as g1, another publication point: "the child's certificate replaced".
    ("g1b", 2, "10.1.202.0/24", 65820),
];

fn grand_cert(name: &str) -> ObjSpec {
    let (ca_name, _, pfx, asn) = GRAND.iter().find(|g| g.0 == name).copied().unwrap();
    // g1 and g1b are published under the same file name.
    let file = if name == "g1b" { "g1.cer" } else { &format!("{name}.cer") };
    let serial = 700 + (asn - 65800) as u64;
    child_cert(file, serial, ca_name, Res::v4(&[pfx]).with_asn(asn, asn + 9))
}

/// root -> kid -> grandchildren. kid's version 0 = {ROA, g1.cer}; version 2 and its
/// broken variants contain `objects` ("roa", "roa2", or a grandchild name).
fn setup_children(objects: &[&str]) -> Setup {
    let mut world = base_world();
    let mut v = version(1, T0 - HOUR, T0 + 30 * DAY);
    v.objects.push(kid_cert());
    v.objects.push(roa("x.roa", 900, asn_base("root") + 900, &prefix("root", 9, 0), None));
    world.ca_mut("root").unwrap().versions.push(v);
    for (name, key, pfx, asn) in GRAND {
        let mut spec = ca(name, key, &format!("rpki.test/repo/{name}/"), "rsync://rpki.test/repo/kid/g.cer");
        let mut v = version(1, T0 - HOUR, T0 + 30 * DAY);
        v.objects.push(roa("g.roa", 30, asn, pfx, None));
        spec.versions.push(v);
        world.cas.push(spec);
    }
    let mut versions = Vec::new();
    let mut v1 = version(1, T0 - HOUR, T0 + 30 * DAY);
    v1.objects.push(payload_obj("kid", 1, 0, false));
    v1.objects.push(grand_cert("g1"));
    versions.push(v1);
    let mut v2 = version(2, T0 - HOUR + 600, T0 + 30 * DAY);
    for (idx, what) in objects.iter().enumerate() {
        v2.objects.push(match *what {
            "roa" => payload_obj("kid", 2, idx as u32, false),
            "roa2" => payload_obj("kid", 2, idx as u32, false),
            name => grand_cert(name),
        });
    }
    let mut variants = vec![Variant { index: versions.len(), fault: None }];
    versions.push(v2.clone());
    for j in 0..v2.objects.len() {
        let mut v = v2.clone();
        v.objects[j].publish = if j % 2 == 0 { Publish::Missing } else { Publish::Corrupt };
        variants.push(Variant { index: versions.len(), fault: Some((j, if j % 2 == 0 { "missing" } else { "corrupt" })) });
        versions.push(v);
    }
    let entries = v2.objects.len() + 1;
    world.ca_mut("kid").unwrap().versions = versions;
    Setup { world, focus: "kid".into(), variants, v1: 0, v3: 0, entries }
}

fn run_children(_setup: &Setup, now: i64, version: usize, order: Order) -> RunSpec {
    let mut points = vec![("root".to_string(), 0), ("kid".to_string(), version)];
    for (name, ..) in GRAND { points.push((name.to_string(), 0)) }
    RunSpec {
        now, serve: Serve { tas: vec![ta_cert()], points, rsync: vec![] },
        order, update: None, tamper: vec![],
    }
}

fn setup_corrupt_half() -> Setup { setup("kid", 3, false, &["corrupt"]) }

pub fn run_c03(ctx: &mut Ctx) {
    ctx.rule = "two-CA universe (trust anchor + child, one rsync module); version 1 stored, then a \
        newer version whose j-th listed file is missing / has a wrong hash (appended byte or a \
        different valid object), for EVERY processing order of its 2-4 manifest entries (hook \
        permute_sorted); plus first-run-broken and 3-run histories with ASPA/router/GBR objects. \
        Non-trivial = distinct (CA, #entries, fault position, fault kind, order)".into();
    let mut player = Player::new();
    let inputs = match ctx.replay_inputs() {
        Some(inputs) => inputs,
        None => {
            let mut inputs = ctx.corpus("C03");
            inputs.extend(generate(ctx));
            inputs
        }
    };
    for input in inputs {
        run_input(ctx, &mut player, &input);
    }
}
