//! C10: trust anchors are bound to their TAL key.
//!
//! TALs with 1–3 rsync URIs; at every URI the server offers a certificate
//! with the TAL's key, one with another key, garbage, an expired / not yet
//! valid / badly signed certificate, or nothing; with and without copies
//! stored by an earlier run (good, wrong-key, or expired by now).

use std::collections::BTreeSet;
use rpkitest::build::sha256;
use rpkitest::gen::*;
use rpkitest::model::ta_store_path;
use rpkitest::scenario::{Order, Player, RunSpec, Scenario};
use rpkitest::*;
use rvcore::Ctx;
use serde_json::{json, Value};
use crate::common::*;

const KINDS: [&str; 7] = ["match", "mismatch", "garbage", "expired", "absent", "premature", "badsig"];
const TAL_KEY: usize = 0;
const EVIL_KEY: usize = 5;
/// The key of the TAL that replaces the original one in key-switch histories.
const NEW_KEY: usize = 6;

fn uri(i: usize) -> String { format!("rsync://rpki.test/repo/ta{i}.cer") }

/// The CA a certificate of `kind` at URI `i` points to, and its key.
fn target(kind: &str, i: usize) -> (String, usize) {
    match kind {
        "mismatch" => (format!("evil{i}"), EVIL_KEY),
        "expired" | "shortlived" => (format!("old{i}"), TAL_KEY),
        "premature" => (format!("new{i}"), TAL_KEY),
        "badsig" => (format!("sig{i}"), TAL_KEY),
        "newkey" => (format!("alt{i}"), NEW_KEY),
        "newkey-expired" => (format!("oldalt{i}"), NEW_KEY),
        _ => (format!("root{i}"), TAL_KEY),
    }
}

fn asn(kind: &str, i: usize) -> u32 {
    let base = match kind {
        "mismatch" => 64600, "expired" | "shortlived" => 64700, "premature" => 64800,
        "badsig" => 64900, "newkey" => 65100, "newkey-expired" => 65200, _ => 64500,
    };
    base + i as u32
}

/// A world with every CA any certificate kind can point to, all published.
fn world(n_uris: usize) -> World {
    let mut world = World::default();
    let uris: Vec<String> = (1..=n_uris).map(uri).collect();
    world.tals.push(tal("ta", TAL_KEY, &uris.iter().map(String::as_str).collect::<Vec<_>>()));
    for i in 1..=n_uris {
        for kind in ["match", "mismatch", "expired", "premature", "badsig", "newkey", "newkey-expired"] {
            let (name, key) = target(kind, i);
            let mut spec = ca(&name, key, &format!("rpki.test/repo/{name}/"), &uri(i));
            let mut v = version(1, T0 - 3 * DAY, T0 + 30 * DAY);
            v.ee_not_before = T0 - 4 * DAY;
            let mut obj = roa("a.roa", 10, asn(kind, i), &format!("10.{}.{}.0/24", asn(kind, i) % 256, i), None);
            obj.not_before = T0 - 4 * DAY;
            v.objects.push(obj);
            spec.versions.push(v);
            world.cas.push(spec);
        }
    }
    world
}

/// What is served at URI `i` for `kind` (`None`: nothing).
fn ta_content(kind: &str, i: usize) -> Option<TaFile> {
    let (ca, key) = target(kind, i);
    let (not_before, not_after, fault) = match kind {
        "absent" => return None,
        "garbage" => return Some(TaFile {
            uri: uri(i),
            content: TaContent::Raw { hex: rpkitest::build::hex_encode(format!("no certificate here {i}").as_bytes()) },
        }),
        "expired" | "newkey-expired" => (T0 - 20 * DAY, T0 - DAY, Fault::None),
        // Valid during the first run (T0 - 2 days), expired by the second (T0).
        "shortlived" => (T0 - 20 * DAY, T0 - HOUR, Fault::None),
        "premature" => (T0 + DAY, T0 + YEAR, Fault::None),
        "badsig" => (T0 - 20 * DAY, T0 + YEAR, Fault::SigFlip),
        _ => (T0 - 20 * DAY, T0 + YEAR, Fault::None),
    };
    Some(TaFile {
        uri: uri(i),
        content: TaContent::Cert {
            ca, key, serial: 1, not_before, not_after, res: Res::all(), fault,
        }
    })
}

fn run(now: i64, world: &World, kinds: &[&str]) -> RunSpec {
    let tas = kinds.iter().enumerate().filter_map(|(k, kind)| ta_content(kind, k + 1)).collect();
    RunSpec {
        now,
        serve: Serve {
            tas,
            points: world.cas.iter().map(|ca| (ca.name.clone(), 0)).collect(),
            rsync: vec![],
        },
        order: Order::Sorted, update: None, tamper: vec![],
    }
}

/// Ground truth about the certificate (or not) behind some bytes.
#[derive(Clone, Debug)]
struct Cand {
    decodes: bool,
    usable: bool,
    ca: Option<String>,
}

fn classify(content: Option<&TaContent>, now: i64, tal_key: usize) -> Cand {
    match content {
        Some(TaContent::Cert { ca, key, not_before, not_after, fault, res, .. }) => {
            let decodes = !matches!(fault, Fault::Garbage);
            Cand {
                decodes,
                usable: decodes && *key == tal_key && matches!(fault, Fault::None)
                    && *not_before <= now && now <= *not_after && !res.inherit,
                ca: Some(ca.clone()),
            }
        }
        _ => Cand { decodes: false, usable: false, ca: None },
    }
}

fn oracle(ctx: &mut Ctx, player: &Player, input: &Value, scn: &Scenario, played: &Played) {
    // Bytes → description for every trust anchor file of the scenario.
    let mut by_hash = std::collections::BTreeMap::new();
    for run in &scn.runs {
        for ta in &run.serve.tas {
            by_hash.insert(sha256(&player.builder.ta_bytes(&scn.world, &ta.content)), ta.content.clone());
        }
    }
    // Ground truth of what the store should hold per URI: the last decodable
    // download that was reached, until it expires (cleanup may drop expired
    // or undecodable copies, nothing else).
    let mut expected_store: std::collections::BTreeMap<String, TaContent> = Default::default();
    for (r, run) in scn.runs.iter().enumerate() {
        let ob = &played.obs[r];
        if !ob.out.ok() {
            ctx.oracle_fail(
                "run-failed", &format!("run {r} ended with {}", ob.out.status.as_str()),
                input, obs_json(&played.obs)
            );
            continue
        }
        let served: BTreeSet<String> = ob.out.payload().into_iter().collect();
        // The TALs installed during this run: ground truth for "the TAL key".
        let tals = scn.world.tals_in(r);
        let mut allowed: BTreeSet<String> = BTreeSet::new();
        let mut any_usable = false;
        let mut stored_ok = true;
        let mut all_candidates = Vec::new();
        for tal in &tals {
            let mut candidates = Vec::new();
            for u in &tal.uris {
                let download_bytes = ob.local.get(u);
                let download = classify(download_bytes.and_then(|b| by_hash.get(&sha256(b))), run.now, tal.key);
                let before_bytes = if r == 0 { None } else { played.obs[r - 1].store.tas.get(&ta_store_path(u)) };
                // The copy the store holds — or, if it is gone although it
                // should still be there, the copy it ought to hold.
                let stored_content = before_bytes.and_then(|b| by_hash.get(&sha256(b)))
                    .or_else(|| expected_store.get(u));
                let stored = classify(stored_content, run.now, tal.key);
                let after_bytes = ob.store.tas.get(&ta_store_path(u));
                // An undecodable download never replaces the stored copy.
                if let Some(dl) = download_bytes {
                    if !download.decodes {
                        if after_bytes == Some(dl) {
                            stored_ok = false;
                            ctx.oracle_fail(
                                "undecodable-ta-stored",
                                &format!("run {r}: the undecodable download at {u} was written to the store"),
                                input, obs_json(&played.obs)
                            );
                        }
                        else if after_bytes.is_some() && after_bytes != before_bytes {
                            stored_ok = false;
                            ctx.oracle_fail(
                                "stored-ta-changed",
                                &format!("run {r}: the stored copy for {u} changed although the download does not decode"),
                                input, obs_json(&played.obs)
                            );
                        }
                    }
                }
                let cand = if download.decodes { download.clone() } else { stored.clone() };
                // Reached (no earlier URI of this TAL usable) and decodable: stored.
                if download.decodes && !candidates.iter().any(|c: &(String, Cand, Cand)| c.2.usable) {
                    if let Some(content) = download_bytes.and_then(|b| by_hash.get(&sha256(b))) {
                        expected_store.insert(u.clone(), content.clone());
                    }
                }
                candidates.push((u.clone(), download, cand));
            }
            allowed.extend(candidates.iter().filter(|c| c.2.usable).filter_map(|c| c.2.ca.clone()));
            // The stored copy is used when the download fails (and it is a
            // valid trust anchor for THIS TAL's key, and earlier URIs fail).
            match candidates.iter().position(|c| c.2.usable) {
                None => ctx.count("tal:no-usable-ta"),
                Some(pos) => {
                    any_usable = true;
                    let (u, download, cand) = &candidates[pos];
                    if !download.decodes {
                        ctx.count("tal:stored-copy-used");
                        let expected = payload_universe(&scn.world, cand.ca.as_ref().unwrap());
                        if stored_ok && !expected.iter().all(|p| served.contains(p)) {
                            ctx.oracle_fail(
                                "stored-ta-not-used",
                                &format!(
                                    "run {r}: the download at {u} fails, the stored copy is a valid \
                                     trust anchor for the key of TAL {} and all earlier URIs fail, \
                                     but its payload {expected:?} is not served ({served:?})", tal.name
                                ),
                                input, obs_json(&played.obs)
                            );
                        }
                    }
                    else {
                        ctx.count("tal:download-used");
                    }
                }
            }
            all_candidates.push((tal.name.clone(), tal.key, candidates));
        }
        if !stored_ok { continue }
        // Payload may only come from CAs named by a certificate that carries
        // the key of a TAL installed NOW and validates — whatever the store holds.
        for ca in &scn.world.cas {
            let universe = payload_universe(&scn.world, &ca.name);
            if served.iter().any(|p| universe.contains(p)) && !allowed.contains(&ca.name) {
                ctx.oracle_fail(
                    "unusable-ta-used",
                    &format!(
                        "run {r}: payload of CA {} is served, but no certificate with the key of a \
                         currently installed TAL that validates as trust anchor points to it \
                         (TAL name, TAL key, candidates per URI: {:?})",
                        ca.name,
                        all_candidates.iter().map(|(n, k, c)| {
                            (n, k, c.iter().map(|c| (&c.0, &c.2)).collect::<Vec<_>>())
                        }).collect::<Vec<_>>()
                    ),
                    input, obs_json(&played.obs)
                );
            }
        }
        // End-of-run cleanup legitimately drops expired copies.
        expected_store.retain(|_, content| match content {
            TaContent::Cert { not_after, .. } => *not_after > run.now,
            _ => false,
        });
        if !any_usable && !served.is_empty() {
            ctx.oracle_fail(
                "payload-without-ta",
                &format!("run {r}: every URI of every TAL fails but payload {served:?} is served"),
                input, obs_json(&played.obs)
            );
        }
    }
}

fn run_input(ctx: &mut Ctx, player: &mut Player, input: &Value) {
    let scn: Scenario = match serde_json::from_value(input["scenario"].clone()) {
        Ok(scn) => scn,
        Err(err) => {
            ctx.oracle_fail("bad-input", &format!("{err}"), input, json!(null));
            return
        }
    };
    let memo = input["memo"].as_u64().unwrap_or(0) as usize;
    let played = play_case(player, &scn, memo);
    count_run_stats(ctx, &played);
    oracle(ctx, player, input, &scn, &played);
    ctx.case(input, &played.op_line, &played.impl_line);
}

fn case(ctx: &mut Ctx, first: &[&str], second: &[&str]) -> Value {
    let world = world(second.len());
    ctx.nontrivial(format!("{first:?} -> {second:?}"));
    let scn = Scenario {
        world: world.clone(), opts: EngineOpts::default(),
        runs: vec![run(T0 - 2 * DAY, &world, first), run(T0, &world, second)],
    };
    json!({ "scenario": to_json(&scn), "memo": 1 })
}

fn generate(ctx: &mut Ctx) -> Vec<Value> {
    let mut cases = Vec::new();
    // One URI: every stored state × every download.
    for first in ["absent", "match", "mismatch", "shortlived"] {
        for second in KINDS {
            cases.push(case(ctx, &[first], &[second]));
        }
    }
    // Two URIs: all pairs of the five main kinds × four stored patterns.
    let main = ["match", "mismatch", "garbage", "expired", "absent"];
    for first in [["absent", "absent"], ["match", "match"], ["match", "absent"], ["absent", "match"]] {
        for a in main {
            for b in main {
                cases.push(case(ctx, &first, &[a, b]));
            }
        }
    }
    // Three URIs.
    let mut triples = Vec::new();
    for a in main { for b in main { for c in main { triples.push([a, b, c]) } } }
    let firsts = [["absent", "absent", "absent"], ["match", "match", "match"], ["mismatch", "shortlived", "match"]];
    if ctx.quick() {
        for _ in 0..ctx.budget(36, 0) {
            let triple = *ctx.rng.pick(&triples);
            let first = *ctx.rng.pick(&firsts);
            cases.push(case(ctx, &first, &triple));
        }
    }
    else {
        for first in firsts {
            for triple in &triples {
                cases.push(case(ctx, &first, triple));
            }
        }
    }
    // The TAL file is replaced by one with another key and the same URI between runs:
    // run 0 under the old TAL (key 0), run 1 under the new one (key 6), run 2 under the old
    // one again with nothing to download. download x stored copy, all combinations.
    for stored in ["match", "shortlived", "absent"] {
        for download in ["newkey", "match", "garbage", "absent", "newkey-expired"] {
            ctx.nontrivial(format!("key-switch stored={stored} download={download}"));
            let mut w = world(1);
            w.tals = vec![
                TalSpec { runs: Some(vec![0, 2]), ..tal("ta", TAL_KEY, &[&uri(1)]) },
                TalSpec { runs: Some(vec![1]), ..tal("ta", NEW_KEY, &[&uri(1)]) },
            ];
            let scn = Scenario {
                world: w.clone(), opts: EngineOpts::default(),
                runs: vec![
                    run(T0 - 2 * DAY, &w, &[stored]), run(T0, &w, &[download]),
                    run(T0 + HOUR, &w, &["absent"]),
                ],
            };
            cases.push(json!({ "scenario": to_json(&scn), "memo": 1 }));
        }
    }
    // Two TALs with different keys sharing one URI.
    for second in ["match", "newkey", "garbage", "absent"] {
        ctx.nontrivial(format!("shared-uri second={second}"));
        let mut w = world(1);
        w.tals = vec![tal("ta", TAL_KEY, &[&uri(1)]), tal("tb", NEW_KEY, &[&uri(1)])];
        let scn = Scenario {
            world: w.clone(), opts: EngineOpts::default(),
            runs: vec![
                run(T0 - 2 * DAY, &w, &["match"]), run(T0, &w, &[second]),
                run(T0 + HOUR, &w, &["absent"]),
            ],
        };
        cases.push(json!({ "scenario": to_json(&scn), "memo": 1 }));
    }
    // Two TALs (keys 0 and 6, one URI each), cleanup enabled: both stored in run 0; from run 1
    // on one TAL's download is absent / garbage while the other keeps succeeding. The stored
    // copy must keep serving the failing TAL in runs 1 AND 2.
    for failing in [0usize, 1] {
        for kind in ["absent", "garbage"] {
            ctx.nontrivial(format!("two-tals failing={failing} {kind}"));
            let mut w = world(2);
            w.tals = vec![tal("ta", TAL_KEY, &[&uri(1)]), tal("tb", NEW_KEY, &[&uri(2)])];
            let good = ["match", "newkey"];
            let mut later = good;
            later[failing] = kind;
            let scn = Scenario {
                world: w.clone(), opts: EngineOpts::default(),
                runs: vec![
                    run(T0 - 2 * DAY, &w, &good), run(T0, &w, &later),
                    run(T0 + HOUR, &w, &later), run(T0 + 2 * HOUR, &w, &good),
                ],
            };
            cases.push(json!({ "scenario": to_json(&scn), "memo": 1 }));
        }
    }
    cases
}

pub fn run_c10(ctx: &mut Ctx) {
    ctx.rule = "TAL with 1-3 rsync URIs; per URI the download is a valid TA certificate with the \
        TAL key / a valid one with another key / garbage / expired / not yet valid / badly signed / \
        absent; the store holds nothing, a good copy, a wrong-key copy or a copy expired by now \
        (first run two days earlier). Exhaustive for 1 and 2 URIs over the main kinds, sampled \
        (thorough: exhaustive) for 3. Every certificate kind points to its own CA with its own \
        payload. Key-switch histories: the TAL file is replaced by one with another key and \
        the same URI between runs (stored copy old-key valid / expired / none x download \
        new-key / old-key / garbage / absent / new-key expired, then back to the old TAL); two \
        TALs with different keys sharing one URI. The oracle takes the TAL key from the TALs \
        installed in the run. Non-trivial = distinct (stored pattern, download pattern)".into();
    let mut player = Player::new();
    let inputs = match ctx.replay_inputs() {
        Some(inputs) => inputs,
        None => {
            let mut inputs = ctx.corpus("C10");
            inputs.extend(generate(ctx));
            inputs
        }
    };
    for input in inputs {
        run_input(ctx, &mut player, &input);
    }
}
