//! Group "engine": C03, C05, C10, C06, C07 (+ `smoke`/`warmup`, self-tests of rpkitest).
mod smoke;
mod common;
mod c03;
mod c05;
mod c06;
mod c07;
mod c10;

fn run(name: &str, ctx: &mut rvcore::Ctx) -> bool {
    match name {
        "smoke" => smoke::run_smoke(ctx),
        "warmup" => smoke::run_warmup(ctx),
        "c03" => c03::run_c03(ctx),
        "c05" => c05::run_c05(ctx),
        "c06" => c06::run_c06(ctx),
        "c07" => c07::run_c07(ctx),
        "c10" => c10::run_c10(ctx),
        _ => return false
    }
    true
}

fn main() { rvcore::main_with(run, rpkitest::fake_rsync_special) }
