//! Group "engine".
fn run(_name: &str, _ctx: &mut rvcore::Ctx) -> bool { false }
fn main() { rvcore::main_with(run, rpkitest::fake_rsync_special) }
