//! Shared pieces of the engine-group components: the standard two-CA
//! universe, scenario execution + model request, ground-truth helpers.

use std::collections::{BTreeMap, BTreeSet};
use rpkitest::build::{sha256, Meaning};
use rpkitest::gen::*;
use rpkitest::model::Encoder;
use rpkitest::scenario::{Player, RunObs, Scenario};
use rpkitest::truth::{self, EffRes};
use rpkitest::*;
use rvcore::Ctx;
use serde_json::{json, Value};

pub const TA_URI: &str = "rsync://rpki.test/repo/ta.cer";

/// Resources of the child CA "kid".
pub fn kid_res() -> Res {
    Res::v4(&["10.1.0.0/16"]).with_v6("2001:db8:1::/48").with_asn(65000, 65999)
}

/// A world with TAL "ta" (key 0), CA "root" (key 0) and its child "kid"
/// (key 1), all in the rsync module `rpki.test/repo`; no versions yet.
pub fn base_world() -> World {
    let mut world = World::default();
    world.tals.push(tal("ta", 0, &[TA_URI]));
    world.cas.push(ca("root", 0, "rpki.test/repo/root/", TA_URI));
    world.cas.push(ca("kid", 1, "rpki.test/repo/kid/", "rsync://rpki.test/repo/root/kid.cer"));
    world
}

pub fn ta_cert() -> TaFile { ta_file(TA_URI, "root", 0, Res::all()) }

/// The certificate for "kid" as published by "root".
pub fn kid_cert() -> ObjSpec { child_cert("kid.cer", 500, "kid", kid_res()) }

/// All permutations of `0..n`.
pub fn perms(n: usize) -> Vec<Vec<usize>> {
    if n == 0 { return vec![vec![]] }
    let mut res = Vec::new();
    for p in perms(n - 1) {
        for i in 0..n {
            let mut q = p.clone();
            q.insert(i, n - 1);
            res.push(q);
        }
    }
    res.sort();
    res
}

/// Everything derived from playing one scenario.
pub struct Played {
    pub obs: Vec<RunObs>,
    pub op_line: String,
    pub impl_line: String,
}

/// Plays the scenario against the real engine and renders the request for
/// the Lean model and the implementation's canonical output line.
pub fn play_case(player: &mut Player, scn: &Scenario, memo: usize) -> Played {
    let obs = player.play(scn, memo);
    let mut enc = Encoder::new(&player.builder, scn);
    let request = enc.request(&obs);
    let impl_line = enc.impl_line(&obs);
    Played { obs, op_line: format!("engine {request}"), impl_line }
}

/// Records histogram entries common to all engine components.
pub fn count_run_stats(ctx: &mut Ctx, played: &Played) {
    for ob in &played.obs {
        ctx.count(&format!("run-status:{}", ob.out.status.as_str()));
        for (key, value) in &ob.out.metrics.publication {
            ctx.count_n(&format!("metric:{key}"), *value as u64);
        }
    }
}

/// Index from SHA-256 of built bytes to (CA name, version index) for
/// manifests, so the version held by the store can be recognised.
pub struct VersionIndex {
    mfts: BTreeMap<Vec<u8>, (String, usize)>,
}

impl VersionIndex {
    pub fn new(builder: &Builder, world: &World) -> Self {
        let mut mfts = BTreeMap::new();
        for ca in &world.cas {
            for (idx, version) in ca.versions.iter().enumerate() {
                for file in builder.point_files(world, ca, version).files {
                    if matches!(file.meaning, Meaning::Mft { .. }) {
                        mfts.entry(sha256(&file.bytes)).or_insert((ca.name.clone(), idx));
                    }
                }
            }
        }
        VersionIndex { mfts }
    }

    /// The version of `ca` the store holds in `ob` (None: nothing stored;
    /// Some(Err(())): something unrecognised).
    pub fn stored_version(&self, ob: &RunObs, ca: &CaSpec) -> Option<Result<usize, ()>> {
        let suffix = ca.mft_uri().trim_start_matches("rsync://").to_string();
        let point = ob.store.point(&suffix)?;
        let manifest = point.manifest.as_ref()?;
        Some(match self.mfts.get(&sha256(&manifest.manifest)) {
            Some((name, idx)) if *name == ca.name => Ok(*idx),
            _ => Err(()),
        })
    }
}

/// Effective resources of the standard universe's CAs.
pub fn std_eff(ca: &str) -> EffRes {
    match ca {
        "root" => EffRes::listed(&Res::all()),
        _ => EffRes::listed(&kid_res()),
    }
}

/// Ground-truth payload of one version of a CA of the standard universe.
pub fn std_version_payload(
    world: &World, ca: &str, version: usize, now: i64, opts: &EngineOpts,
) -> BTreeSet<String> {
    let spec = world.ca(ca).expect("CA");
    truth::version_payload(
        spec, &std_eff(ca), &spec.versions[version], now,
        opts.enable_aspa, opts.enable_bgpsec
    ).into_iter().collect()
}

/// Every payload string any version of `ca` could contribute.
pub fn payload_universe(world: &World, ca: &str) -> BTreeSet<String> {
    let spec = world.ca(ca).expect("CA");
    let mut res = BTreeSet::new();
    for version in &spec.versions {
        for obj in &version.objects {
            res.extend(truth::obj_payload(obj));
            if let Publish::Replace(other) = &obj.publish {
                res.extend(truth::obj_payload(other));
            }
        }
    }
    res
}

pub fn to_json<T: serde::Serialize>(value: &T) -> Value {
    serde_json::to_value(value).expect("serialise")
}

pub fn obs_json(obs: &[RunObs]) -> Value {
    json!(obs.iter().map(|ob| json!({
        "out": ob.out.to_json(),
        "store": ob.store.to_json(),
    })).collect::<Vec<_>>())
}
