//! End-to-end self-test of the rpkitest infrastructure.
use rpkitest::gen::*;
use rpkitest::*;
use rvcore::Ctx;
use serde_json::json;

pub fn run_smoke(ctx: &mut Ctx) {
    let t = std::time::Instant::now();
    let builder = Builder::new();
    let mut world = World::default();
    world.tals.push(tal("ta", 0, &["rsync://h1.test/ta/ta.cer"]));
    let mut root = ca("root", 0, "h1.test/repo/root/", "rsync://h1.test/ta/ta.cer");
    let mut v = version(1, T0 - HOUR, T0 + DAY);
    v.objects.push(roa("a.roa", 10, 64496, "10.0.0.0/24", None));
    v.objects.push(roa("b.roa", 11, 64497, "2001:db8::/32", Some(48)));
    v.objects.push(aspa("c.asa", 12, 64500, &[64501, 64502]));
    v.objects.push(router("r.cer", 13, &[64510], 0));
    v.objects.push(gbr("g.gbr", 14));
    v.objects.push(child_cert("kid.cer", 15, "kid", Res::v4(&["10.1.0.0/16"]).with_asn(64600, 64610)));
    root.versions.push(v);
    let mut kid = ca("kid", 1, "h2.test/repo/kid/", "rsync://h1.test/repo/root/kid.cer");
    let mut v = version(1, T0 - HOUR, T0 + DAY);
    v.objects.push(roa("k.roa", 20, 64601, "10.1.2.0/24", None));
    v.objects.push(roa("bad.roa", 21, 64602, "10.2.0.0/24", None));
    kid.versions.push(v);
    world.cas.push(root);
    world.cas.push(kid);
    let serve = Serve {
        tas: vec![ta_file("rsync://h1.test/ta/ta.cer", "root", 0, Res::all())],
        points: vec![("root".into(), 0), ("kid".into(), 0)],
        rsync: vec![],
    };
    rvcore::clock::set(T0, 0);
    let bench = Bench::new("smoke");
    bench.install_tals(&builder, &world);
    let tree = bench.serve(&builder, &world, &serve);
    let built = t.elapsed().as_millis();
    let opts = EngineOpts { enable_aspa: true, enable_bgpsec: true, ..Default::default() };
    let out = bench.run(&opts);
    let store = bench.store();
    let input = json!({"world": world, "serve": serve});
    println!("built {} files in {} ms, run {} ms", tree.len(), built, out.elapsed_ms);
    println!("{}", serde_json::to_string_pretty(&out.to_json()).unwrap());
    println!("{}", serde_json::to_string_pretty(&store.to_json()).unwrap());
    println!("{:?}", bench.cache_listing());
    let out2 = bench.run(&EngineOpts { update: false, enable_aspa: true, enable_bgpsec: true, ..Default::default() });
    println!("offline: {:?} {:?}", out2.status, out2.payload());
    ctx.case_oracle_only(&input, &out.payload().join(";"));
}

/// Generates the whole key pool (slow only the first time).
pub fn run_warmup(ctx: &mut Ctx) {
    let t = std::time::Instant::now();
    rpkitest::keys::KeyPool::global().warm_up();
    println!("key pool ready in {} ms", t.elapsed().as_millis());
    ctx.case_oracle_only(&json!({"warmup": true}), "ok");
}
