//! In-process access to routinator's HTTP request dispatcher.

use std::path::PathBuf;
use std::sync::Arc;
use routinator::config::{Config, FilterPolicy};
use routinator::http::verif_api::{Handler, Reply};
use routinator::metrics::{Metrics, RtrServerMetrics};
use routinator::payload::{SharedHistory, ValidationReport};
use routinator::slurm::LocalExceptions;
use rpki::rtr::server::NotifySender;

struct AllLogger;

impl log::Log for AllLogger {
    fn enabled(&self, _: &log::Metadata) -> bool { true }
    fn log(&self, _: &log::Record) { }
    fn flush(&self) { }
}

static LOGGER: AllLogger = AllLogger;

/// Log books only record while the global logger says the level is enabled.
pub fn init_logger() {
    let _ = log::set_logger(&LOGGER);
    log::set_max_level(log::LevelFilter::Trace);
}

pub struct Web {
    pub rt: tokio::runtime::Runtime,
    pub config: Config,
    pub history: SharedHistory,
    pub rtr: Arc<RtrServerMetrics>,
    pub handler: Handler,
}

impl Web {
    /// `unsafe_vrps`: 0 reject, 1 warn, 2 accept.
    pub fn new(detailed_rtr: bool, unsafe_vrps: u64) -> Self {
        init_logger();
        let mut config = Config::default_with_paths(
            PathBuf::from("/nonexistent/routinator.conf"),
            PathBuf::from("/nonexistent/cache"),
        );
        config.unsafe_vrps = match unsafe_vrps {
            0 => FilterPolicy::Reject,
            1 => FilterPolicy::Warn,
            _ => FilterPolicy::Accept,
        };
        config.enable_aspa = true;
        config.enable_bgpsec = true;
        let history = SharedHistory::from_config(&config);
        let rtr = Arc::new(RtrServerMetrics::new(detailed_rtr));
        let handler = Handler::new(
            &config, history.clone(), rtr.clone(), NotifySender::new()
        );
        let rt = tokio::runtime::Builder::new_current_thread()
            .enable_all().build().expect("tokio runtime");
        Web { rt, config, history, rtr, handler }
    }

    /// Installs metrics (and exceptions as the served data) the way a
    /// validation run does.
    pub fn update(&self, exceptions: &LocalExceptions, metrics: Metrics, done: bool) -> bool {
        self.history.mark_update_start();
        let res = self.history.update(
            ValidationReport::new(&self.config), exceptions, metrics
        );
        if done {
            self.history.mark_update_done();
        }
        res
    }

    pub fn get(&self, uri: &str) -> Reply {
        self.rt.block_on(self.handler.request("GET", uri, &[]))
    }

    pub fn request(&self, method: &str, uri: &str, headers: &[(&str, &str)]) -> Reply {
        self.rt.block_on(self.handler.request(method, uri, headers))
    }
}

pub fn body(reply: &Reply) -> Vec<u8> {
    reply.frames.iter().flat_map(|f| f.iter().copied()).collect()
}
