//! C21: the 13 output formats list exactly the selected payload; the JSON
//! and SLURM formats are valid JSON for any data.
//!
//! The real `Output::from_query` + `Output::write` / `Output::stream` (and
//! `GET /<format>?query` through the dispatcher for data sets expressible as
//! local exceptions) on generated data sets with hostile trust anchor names,
//! exception comments and paths. The listed items are recovered from the real
//! output per format (JSON parse / line grammars) and compared with a naive
//! filter over the data set (oracle) and with the model's state machine; the
//! JSON documents are compared with the model's rendering; SLURM output is
//! fed to `rpki::slurm::SlurmFile`.

use std::net::IpAddr;
use std::str::FromStr;
use std::sync::Arc;
use bytes::Bytes;
use chrono::{DateTime, TimeZone, Utc};
use routinator::metrics::Metrics;
use routinator::output::{Output, OutputFormat};
use routinator::payload::{PayloadInfo, PayloadSnapshot, PublishInfo};
use routinator::slurm::{ExceptionInfo, LocalExceptions};
use rpki::crypto::KeyIdentifier;
use rpki::repository::tal::TalInfo;
use rpki::repository::x509::{Time, Validity};
use rpki::resources::addr::{MaxLenPrefix, Prefix};
use rpki::resources::Asn;
use rpki::rtr::payload::{Aspa, Payload, RouteOrigin, RouterKey};
use rpki::rtr::pdu::RouterKeyInfo;
use rpki::slurm::SlurmFile;
use rpki::uri;
use rvcore::payload_gen::aspa;
use rvcore::{Ctx, Rng};
use serde_json::{json, Value};
use crate::jtree::{enc, summary};
use crate::{mgen, web};

const FORMATS: &[&str] = &[
    "csv", "csvcompat", "csvext", "json", "jsonext", "slurm", "slurm2", "openbgpd", "bird1",
    "bird2", "rpsl", "summary", "none",
];

fn is_json_format(fmt: &str) -> bool { matches!(fmt, "json" | "jsonext" | "slurm" | "slurm2") }

//------------ data ------------------------------------------------------------

fn key_id(idx: u32) -> [u8; 20] {
    let mut res = [0u8; 20];
    for (i, b) in res.iter_mut().enumerate() { *b = (idx as usize * 37 + i * 11) as u8 }
    res[16..].copy_from_slice(&idx.to_be_bytes());
    res
}

fn key_bytes(idx: u32, len: u64) -> Vec<u8> { (0..len).map(|i| (idx as u64 * 13 + i * 5 + 250) as u8).collect() }

fn time(secs: i64) -> DateTime<Utc> { Utc.timestamp_opt(secs, 0).single().unwrap_or_else(|| Utc.timestamp_opt(0, 0).unwrap()) }

fn iso(t: DateTime<Utc>) -> String { t.format("%Y-%m-%dT%H:%M:%SZ").to_string() }

fn payload_info(infos: &Value) -> PayloadInfo {
    let one = |v: &Value| -> Result<Arc<PublishInfo>, Arc<ExceptionInfo>> {
        if v.get("tal").is_some() {
            let t = |key: &str| Time::new(time(v[key].as_i64().unwrap_or(0)));
            Ok(Arc::new(PublishInfo {
                tal: Arc::new(TalInfo::from_name(v["tal"].as_str().unwrap_or("").to_string())),
                uri: v["uri"].as_str().and_then(|u| uri::Rsync::from_str(u).ok()),
                roa_validity: Validity::new(t("nb"), t("na")),
                chain_validity: Validity::new(t("cnb"), t("cna")),
                point_stale: t("stale"),
            }))
        }
        else {
            Err(Arc::new(ExceptionInfo {
                path: v["path"].as_str().map(|p| Arc::from(std::path::Path::new(p))),
                comment: v["comment"].as_str().map(|c| c.to_string()),
            }))
        }
    };
    let list: Vec<Value> = infos.as_array().cloned().unwrap_or_default();
    let mut res: PayloadInfo = match list.first().map(one) {
        Some(Ok(p)) => p.into(),
        Some(Err(e)) => e.into(),
        None => Arc::new(ExceptionInfo::default()).into(),
    };
    for v in list.iter().skip(1).rev() {
        match one(v) { Ok(p) => res.add_published(p), Err(e) => res.add_local(e) }
    }
    res
}

fn build_snapshot(input: &Value) -> PayloadSnapshot {
    let origins = input["origins"].as_array().cloned().unwrap_or_default().into_iter().map(|o| {
        let addr = IpAddr::from_str(o["addr"].as_str().unwrap_or("")).expect("address");
        let prefix = Prefix::new(addr, o["len"].as_u64().unwrap_or(0) as u8).expect("prefix");
        let origin = RouteOrigin::new(
            MaxLenPrefix::new(prefix, o["max"].as_u64().map(|m| m as u8)).expect("max length"),
            Asn::from_u32(o["asn"].as_u64().unwrap_or(0) as u32),
        );
        (origin, payload_info(&o["info"]))
    }).collect::<Vec<_>>();
    let keys = input["keys"].as_array().cloned().unwrap_or_default().into_iter().map(|k| {
        let idx = k["idx"].as_u64().unwrap_or(0) as u32;
        let key = RouterKey::new(
            KeyIdentifier::try_from(&key_id(idx)[..]).expect("key id"),
            Asn::from_u32(k["asn"].as_u64().unwrap_or(0) as u32),
            RouterKeyInfo::new(Bytes::from(key_bytes(idx, k["ilen"].as_u64().unwrap_or(4)))).expect("key info"),
        );
        (key, payload_info(&k["info"]))
    }).collect::<Vec<_>>();
    let aspas = input["aspas"].as_array().cloned().unwrap_or_default().into_iter().map(|a| {
        let prov: Vec<u32> = a["providers"].as_array().into_iter().flatten().map(|p| p.as_u64().unwrap_or(0) as u32).collect();
        (aspa(a["customer"].as_u64().unwrap_or(0) as u32, &prov), payload_info(&a["info"]))
    }).collect::<Vec<_>>();
    PayloadSnapshot::new(origins.into_iter(), keys.into_iter(), aspas.into_iter(), None)
}

//------------ the naive selection --------------------------------------------

#[derive(Clone, Debug)]
enum Sel { Asn(u32), Prefix(bool, u128, u8) }

struct Query { sel: Vec<Sel>, more: bool, origins: bool, keys: bool, aspas: bool }

fn addr_bits(addr: IpAddr) -> (bool, u128) {
    match addr { IpAddr::V4(a) => (true, u32::from(a) as u128), IpAddr::V6(a) => (false, u128::from(a)) }
}

/// The documented query syntax, parsed independently of routinator.
fn parse_query(query: Option<&str>) -> Query {
    let mut res = Query { sel: Vec::new(), more: false, origins: true, keys: true, aspas: true };
    for pair in query.unwrap_or("").split('&').filter(|p| !p.is_empty()) {
        let (key, value) = pair.split_once('=').unwrap_or((pair, ""));
        let value = value.replace("%2F", "/").replace("%3A", ":");
        match key {
            "select-asn" | "filter-asn" => {
                let digits = value.trim_start_matches(['A', 'a']).trim_start_matches(['S', 's']);
                res.sel.push(Sel::Asn(digits.parse().unwrap_or(0)));
            }
            "select-prefix" | "filter-prefix" => {
                let (addr, len) = value.split_once('/').unwrap_or((&value, "0"));
                let (v4, bits) = addr_bits(IpAddr::from_str(addr).expect("query address"));
                res.sel.push(Sel::Prefix(v4, bits, len.parse().unwrap_or(0)));
            }
            "include" => if value.split(',').any(|v| v == "more-specifics") { res.more = true },
            "exclude" => for v in value.split(',') {
                match v { "routeOrigins" => res.origins = false, "routerKeys" => res.keys = false, "aspas" => res.aspas = false, _ => { } }
            },
            _ => { }
        }
    }
    res
}

/// Does prefix a (bits, len) cover prefix b?
fn covers(v4: bool, a: (u128, u8), b: (u128, u8)) -> bool {
    let width = if v4 { 32u32 } else { 128 };
    if a.1 > b.1 { return false }
    let shift = width - a.1 as u32;
    if shift >= 128 { return true }
    (a.0 >> shift) == (b.0 >> shift)
}

fn admits_origin(q: &Query, o: &RouteOrigin) -> bool {
    if q.sel.is_empty() { return true }
    let (v4, bits) = addr_bits(o.prefix.addr());
    let len = o.prefix.prefix_len();
    q.sel.iter().any(|s| match s {
        Sel::Asn(a) => o.asn.into_u32() == *a,
        Sel::Prefix(sv4, sbits, slen) => *sv4 == v4 && (
            covers(v4, (bits, len), (*sbits, *slen)) || (q.more && covers(v4, (*sbits, *slen), (bits, len)))
        ),
    })
}

fn admits_asn(q: &Query, asn: Asn) -> bool {
    q.sel.is_empty() || q.sel.iter().any(|s| matches!(s, Sel::Asn(a) if *a == asn.into_u32()))
}

//------------ recovering the listed items from the real output ---------------

#[derive(Clone, Debug, PartialEq)]
enum Rec {
    /// asn, "addr/len", max length if the format prints it
    Origin(u32, String, Option<u8>),
    /// asn, key identifier bytes, key info bytes
    Key(u32, Vec<u8>, Vec<u8>),
    Aspa(u32, Vec<u32>),
}

fn asn_num(s: &str) -> Option<u32> { s.trim_start_matches("AS").parse().ok() }

fn b64(s: &str) -> Option<Vec<u8>> {
    // standard or URL-safe alphabet, padding optional
    let mut bits = 0u32; let mut n = 0; let mut out = Vec::new();
    for ch in s.bytes() {
        let v = match ch {
            b'A'..=b'Z' => ch - b'A', b'a'..=b'z' => ch - b'a' + 26, b'0'..=b'9' => ch - b'0' + 52,
            b'+' | b'-' => 62, b'/' | b'_' => 63, b'=' => continue, _ => return None,
        };
        bits = (bits << 6) | v as u32; n += 6;
        if n >= 8 { n -= 8; out.push((bits >> n) as u8); bits &= (1 << n) - 1 }
    }
    Some(out)
}

fn hex(s: &str) -> Option<Vec<u8>> {
    if s.len() % 2 != 0 { return None }
    (0..s.len() / 2).map(|i| u8::from_str_radix(&s[2 * i..2 * i + 2], 16).ok()).collect()
}

fn records_json(fmt: &str, doc: &Value) -> Result<Vec<Rec>, String> {
    let mut res = Vec::new();
    let arr = |v: &Value| v.as_array().cloned().unwrap_or_default();
    let st = |v: &Value| v.as_str().map(|s| s.to_string()).ok_or("string expected");
    if fmt == "json" || fmt == "jsonext" {
        for o in arr(&doc["roas"]) {
            res.push(Rec::Origin(asn_num(&st(&o["asn"])?).ok_or("asn")?, st(&o["prefix"])?,
                Some(o["maxLength"].as_u64().ok_or("maxLength")? as u8)));
        }
        for k in arr(&doc["routerKeys"]) {
            res.push(Rec::Key(asn_num(&st(&k["asn"])?).ok_or("asn")?, hex(&st(&k["SKI"])?).ok_or("SKI")?,
                b64(&st(&k["routerPublicKey"])?).ok_or("key")?));
        }
        for a in arr(&doc["aspas"]) {
            let prov: Option<Vec<u32>> = arr(&a["providers"]).iter().map(|p| p.as_str().and_then(asn_num)).collect();
            res.push(Rec::Aspa(asn_num(&st(&a["customer"])?).ok_or("customer")?, prov.ok_or("providers")?));
        }
    }
    else {
        let asr = &doc["locallyAddedAssertions"];
        for o in arr(&asr["prefixAssertions"]) {
            res.push(Rec::Origin(o["asn"].as_u64().ok_or("asn")? as u32, st(&o["prefix"])?,
                o["maxPrefixLength"].as_u64().map(|m| m as u8)));
        }
        for k in arr(&asr["bgpsecAssertions"]) {
            res.push(Rec::Key(k["asn"].as_u64().ok_or("asn")? as u32, b64(&st(&k["SKI"])?).ok_or("SKI")?,
                b64(&st(&k["routerPublicKey"])?).ok_or("key")?));
        }
        for a in arr(&asr["aspaAssertions"]) {
            let prov: Option<Vec<u32>> = arr(&a["providerAsns"]).iter().map(|p| p.as_u64().map(|x| x as u32)).collect();
            res.push(Rec::Aspa(a["customerAsn"].as_u64().ok_or("customerAsn")? as u32, prov.ok_or("providerAsns")?));
        }
    }
    Ok(res)
}

fn records_text(fmt: &str, text: &str) -> Result<Vec<Rec>, String> {
    let mut res = Vec::new();
    let bad = |line: &str| format!("unexpected line {line:?}");
    match fmt {
        "csv" | "csvcompat" | "csvext" => {
            for line in text.lines().skip(1) {
                let line = line.to_string();
                let fields: Vec<String> = if fmt == "csvcompat" {
                    line.split("\",\"").map(|f| f.trim_matches('"').to_string()).collect()
                }
                else if fmt == "csvext" {
                    // the URI may contain commas: take the fields from the right
                    let mut f: Vec<String> = line.rsplitn(6, ',').map(|s| s.to_string()).collect();
                    f.reverse();
                    f.into_iter().skip(1).collect()
                }
                else { line.splitn(4, ',').map(|s| s.to_string()).collect() };
                if fields.len() < 3 { return Err(bad(&line)) }
                res.push(Rec::Origin(asn_num(&fields[0]).ok_or_else(|| bad(&line))?, fields[1].clone(),
                    Some(fields[2].parse().map_err(|_| bad(&line))?)));
            }
        }
        "openbgpd" => {
            for line in text.lines() {
                if line == "roa-set {" || line == "}" { continue }
                let w: Vec<&str> = line.split_whitespace().collect();
                match w.as_slice() {
                    [p, "maxlen", m, "source-as", a] => res.push(Rec::Origin(a.parse().map_err(|_| bad(line))?, p.to_string(), Some(m.parse().map_err(|_| bad(line))?))),
                    [p, "source-as", a] => {
                        let len = p.rsplit('/').next().and_then(|l| l.parse().ok()).ok_or_else(|| bad(line))?;
                        res.push(Rec::Origin(a.parse().map_err(|_| bad(line))?, p.to_string(), Some(len)))
                    }
                    _ => return Err(bad(line)),
                }
            }
        }
        "bird1" | "bird2" => {
            let word = if fmt == "bird1" { "roa" } else { "route" };
            for line in text.lines() {
                let w: Vec<&str> = line.trim_end_matches(';').split_whitespace().collect();
                match w.as_slice() {
                    [kw, p, "max", m, "as", a] if *kw == word => res.push(Rec::Origin(
                        a.parse().map_err(|_| bad(line))?, p.to_string(), Some(m.parse().map_err(|_| bad(line))?))),
                    _ => return Err(bad(line)),
                }
            }
        }
        "rpsl" => {
            let mut prefix: Option<String> = None;
            for line in text.lines() {
                if let Some(p) = line.strip_prefix("route: ").or_else(|| line.strip_prefix("route6: ")) {
                    prefix = Some(p.to_string());
                }
                else if let Some(a) = line.strip_prefix("origin: ") {
                    let p = prefix.take().ok_or_else(|| bad(line))?;
                    res.push(Rec::Origin(asn_num(a).ok_or_else(|| bad(line))?, p, None));
                }
            }
        }
        _ => { }
    }
    Ok(res)
}

//------------ one case ---------------------------------------------------------

struct DataView {
    origins: Vec<(RouteOrigin, PayloadInfo)>,
    keys: Vec<(RouterKey, PayloadInfo)>,
    aspas: Vec<(Aspa, PayloadInfo)>,
}

fn view(snap: &PayloadSnapshot) -> DataView {
    DataView {
        origins: snap.origins().map(|(o, i)| (o, i.clone())).collect(),
        keys: snap.router_keys().map(|(k, i)| (k.clone(), i.clone())).collect(),
        aspas: snap.aspas().map(|(a, i)| (a.clone(), i.clone())).collect(),
    }
}

fn opt_enc(s: Option<&str>) -> String { s.map(enc).unwrap_or_else(|| "-".into()) }

fn info_tokens(info: &PayloadInfo) -> String {
    let mut out = Vec::new();
    for item in info {
        if let Some(p) = item.publish_info() {
            out.push(format!("P~{}~{}~{}~{}~{}~{}~{}",
                opt_enc(p.uri.as_ref().map(|u| u.as_str())), enc(p.tal.name()),
                iso(p.roa_validity.not_before().into()), iso(p.roa_validity.not_after().into()),
                iso(p.chain_validity.not_before().into()), iso(p.chain_validity.not_after().into()),
                iso(p.point_stale.into())));
        }
        if let Some(e) = item.exception_info() {
            let path = e.path.as_ref().map(|p| p.display().to_string());
            out.push(format!("E~{}~{}", opt_enc(path.as_deref()), opt_enc(e.comment.as_deref())));
        }
    }
    if out.is_empty() { "-".into() } else { out.join(",") }
}

fn model_data(d: &DataView) -> String {
    let os: Vec<String> = d.origins.iter().map(|(o, info)| {
        let (v4, bits) = addr_bits(o.prefix.addr());
        format!("{} {} {} {} {} {} {} {} {} {} {} {}",
            o.asn.into_u32(), if v4 { 4 } else { 6 }, bits, o.prefix.prefix_len(),
            o.asn, o.asn.into_u32(), o.prefix.addr(), o.prefix.prefix_len(), o.prefix.resolved_max_len(),
            o.prefix.max_len().map(|m| m.to_string()).unwrap_or_else(|| "-".into()),
            opt_enc(info.tal_name()), info_tokens(info))
    }).collect();
    let ks: Vec<String> = d.keys.iter().map(|(k, info)| {
        format!("{} {} {} {} {} {} {} {} {}",
            k.asn.into_u32(), k.asn, k.asn.into_u32(), k.key_identifier, k.key_info,
            rpki::util::base64::Slurm.encode(k.key_identifier.as_slice()),
            rpki::util::base64::Slurm.encode(k.key_info.as_slice()),
            opt_enc(info.tal_name()), info_tokens(info))
    }).collect();
    let xs: Vec<String> = d.aspas.iter().map(|(a, info)| {
        let pt: Vec<String> = a.providers.iter().map(|p| p.to_string()).collect();
        let pn: Vec<String> = a.providers.iter().map(|p| p.into_u32().to_string()).collect();
        let list = |l: &[String]| if l.is_empty() { "-".to_string() } else { l.join(",") };
        format!("{} {} {} {} {} {} {}",
            a.customer.into_u32(), a.customer, a.customer.into_u32(), list(&pt), list(&pn),
            opt_enc(info.tal_name()), info_tokens(info))
    }).collect();
    format!("{} | {} | {}", os.join(" ; "), ks.join(" ; "), xs.join(" ; "))
}

fn show_idx(o: &[usize], k: &[usize], a: &[usize]) -> String {
    let j = |l: &[usize]| l.iter().map(|x| x.to_string()).collect::<Vec<_>>().join(",");
    format!("listed=o:{};k:{};a:{}", j(o), j(k), j(a))
}

/// Greedy, order-preserving match of the records against the data set.
fn match_records(d: &DataView, recs: &[Rec]) -> Result<(Vec<usize>, Vec<usize>, Vec<usize>), String> {
    let (mut o, mut k, mut a) = (Vec::new(), Vec::new(), Vec::new());
    for rec in recs {
        match rec {
            Rec::Origin(asn, prefix, max) => {
                let found = d.origins.iter().enumerate().find(|(i, (x, _))| {
                    !o.contains(i) && x.asn.into_u32() == *asn
                        && format!("{}/{}", x.prefix.addr(), x.prefix.prefix_len()) == *prefix
                        && max.map(|m| m == x.prefix.resolved_max_len()).unwrap_or(true)
                });
                o.push(found.ok_or_else(|| format!("listed origin {rec:?} is not in the data set (or listed twice)"))?.0);
            }
            Rec::Key(asn, ski, key) => {
                let found = d.keys.iter().enumerate().find(|(i, (x, _))| {
                    !k.contains(i) && x.asn.into_u32() == *asn && x.key_identifier.as_slice() == &ski[..]
                        && x.key_info.as_slice() == &key[..]
                });
                k.push(found.ok_or_else(|| format!("listed router key of AS{asn} is not in the data set (or listed twice)"))?.0);
            }
            Rec::Aspa(cust, prov) => {
                let found = d.aspas.iter().enumerate().find(|(i, (x, _))| {
                    !a.contains(i) && x.customer.into_u32() == *cust
                        && x.providers.iter().map(|p| p.into_u32()).collect::<Vec<_>>() == *prov
                });
                a.push(found.ok_or_else(|| format!("listed ASPA of AS{cust} is not in the data set (or listed twice)"))?.0);
            }
        }
    }
    Ok((o, k, a))
}

fn lists(fmt: &str) -> (bool, bool, bool) {
    match fmt {
        "summary" | "none" => (false, false, false),
        "json" | "jsonext" | "slurm2" => (true, true, true),
        "slurm" => (true, true, false),
        _ => (true, false, false),
    }
}

#[allow(clippy::too_many_arguments)]
fn check_case(ctx: &mut Ctx, input: &Value, fmt: &str, query: Option<&str>, d: &DataView,
              text: &str, gen_time: DateTime<Utc>, what: &str) {
    let q = parse_query(query);
    let (lo, lk, la) = lists(fmt);
    let exp_o: Vec<usize> = if lo && q.origins { (0..d.origins.len()).filter(|i| admits_origin(&q, &d.origins[*i].0)).collect() } else { Vec::new() };
    let exp_k: Vec<usize> = if lk && q.keys { (0..d.keys.len()).filter(|i| admits_asn(&q, d.keys[*i].0.asn)).collect() } else { Vec::new() };
    let exp_a: Vec<usize> = if la && q.aspas { (0..d.aspas.len()).filter(|i| admits_asn(&q, d.aspas[*i].0.customer)).collect() } else { Vec::new() };

    // model request
    let sel = if q.sel.is_empty() { "-".to_string() } else {
        q.sel.iter().map(|s| match s {
            Sel::Asn(a) => format!("a{a}"),
            Sel::Prefix(v4, bits, len) => format!("p{}:{}:{}", if *v4 { 4 } else { 6 }, bits, len),
        }).collect::<Vec<_>>().join(",")
    };
    let op = format!("c21 {fmt} {}{}{} {} {sel} {} {} | {}", q.origins as u8, q.keys as u8, q.aspas as u8,
        q.more as u8, gen_time.timestamp(), iso(gen_time), model_data(d));

    let mut json_ok = None;
    let recs = if is_json_format(fmt) {
        match serde_json::from_str::<Value>(text) {
            Ok(doc) => { json_ok = Some(true); records_json(fmt, &doc) }
            Err(err) => {
                json_ok = Some(false);
                ctx.oracle_fail(&format!("output-json-invalid-{fmt}"),
                    &format!("{what}: the {fmt} output is not valid JSON: {err}"), input,
                    json!(text.chars().take(3000).collect::<String>()));
                Err("invalid JSON".to_string())
            }
        }
    } else { records_text(fmt, text) };
    let listed = recs.and_then(|r| match_records(d, &r));
    match listed.as_ref() {
        Ok((o, k, a)) => {
            let mut imp = show_idx(o, k, a);
            if let Some(ok) = json_ok { imp = format!("{imp} {} ok=1 json={}", summary(text), ok as u8) }
            ctx.case(input, &op, &imp);
            if (o, k, a) != (&exp_o, &exp_k, &exp_a) {
                ctx.oracle_fail(&format!("listing-differs-{fmt}"),
                    &format!("{what}: the {fmt} output does not list exactly the admitted items (each once, in order)"),
                    input, json!({"listed": show_idx(o, k, a), "expected": show_idx(&exp_o, &exp_k, &exp_a), "query": query}));
            }
        }
        Err(reason) => {
            if json_ok != Some(false) {
                ctx.oracle_fail(&format!("listing-unreadable-{fmt}"), &format!("{what}: {reason}"), input,
                    json!(text.chars().take(3000).collect::<String>()));
            }
            ctx.case_oracle_only(input, &summary(text));
        }
    }
    // SLURM output has to be a SLURM file with exactly the listed items as assertions
    if (fmt == "slurm" || fmt == "slurm2") && json_ok == Some(true) {
        match SlurmFile::from_str(text) {
            Err(err) => ctx.oracle_fail(&format!("slurm-unparseable-{fmt}"),
                &format!("{what}: rpki::slurm::SlurmFile rejects the output: {err}"), input, json!(text.chars().take(3000).collect::<String>())),
            Ok(file) => {
                let mut expected: Vec<Payload> = Vec::new();
                let mut comments: Vec<Option<String>> = Vec::new();
                for i in &exp_o { expected.push(Payload::Origin(d.origins[*i].0)); comments.push(Some(d.origins[*i].1.tal_name().unwrap_or("N/A").to_string())) }
                for i in &exp_k { expected.push(Payload::RouterKey(d.keys[*i].0.clone())); comments.push(Some(d.keys[*i].1.tal_name().unwrap_or("N/A").to_string())) }
                for i in &exp_a { expected.push(Payload::Aspa(d.aspas[*i].0.clone())); comments.push(Some(d.aspas[*i].1.tal_name().unwrap_or("N/A").to_string())) }
                let got: Vec<Payload> = file.assertions.iter_payload().collect();
                let mut got_comments: Vec<Option<String>> = file.assertions.prefix.iter().map(|x| x.comment.clone()).collect();
                got_comments.extend(file.assertions.bgpsec.iter().map(|x| x.comment.clone()));
                got_comments.extend(file.assertions.aspa.iter().flatten().map(|x| x.comment.clone()));
                if got != expected || got_comments != comments
                    || !file.filters.prefix.is_empty() || !file.filters.bgpsec.is_empty()
                {
                    ctx.oracle_fail(&format!("slurm-assertions-differ-{fmt}"),
                        &format!("{what}: the assertions of the SLURM file are not exactly the listed items"), input,
                        json!({"assertions": got.len(), "expected": expected.len()}));
                }
            }
        }
    }
    let hostile = input.to_string().matches('\\').count();
    if !q.sel.is_empty() || hostile > 0 || !(q.origins && q.keys && q.aspas) {
        ctx.nontrivial(format!("{fmt}/{}/{}{}{}/{}/{}", q.sel.len().min(3), q.origins as u8, q.keys as u8, q.aspas as u8,
            q.more as u8, hostile.min(3)));
    }
    ctx.count(&format!("fmt:{fmt}"));
}

//------------ generation -------------------------------------------------------

fn name_no_newline(rng: &mut Rng) -> String {
    mgen::label(rng, &["ripe", "arin", "apnic"]).replace(['\n', '\r'], " ")
}

fn gen_infos(rng: &mut Rng, line_safe: bool, exceptions_only: bool) -> Value {
    let n = match rng.below(6) { 0 => 0, 1 | 2 | 3 => 1, 4 => 2, _ => 3 };
    let mut name = |rng: &mut Rng| if line_safe { name_no_newline(rng) } else { mgen::label(rng, &["ripe", "arin", "apnic"]) };
    Value::Array((0..n).map(|_| {
        if !exceptions_only && rng.chance(2, 3) {
            let nb = 1_600_000_000 + rng.below(1000) as i64;
            json!({"tal": name(rng),
                   "uri": if rng.chance(3, 4) { json!(format!("rsync://rpki.example.org/repo/ca{}/obj,{}.roa", rng.below(9), rng.below(9))) } else { Value::Null },
                   "nb": nb, "na": nb + 86400 * (1 + rng.below(400) as i64), "cnb": nb + 5, "cna": nb + 86400, "stale": nb + 3600})
        }
        else {
            json!({"path": if rng.chance(1, 2) { json!(format!("/etc/routinator/{}.json", mgen::hostile(rng).replace('\0', "0"))) } else { Value::Null },
                   "comment": if rng.chance(2, 3) { json!(name(rng)) } else { Value::Null }})
        }
    }).collect())
}

fn gen_data(rng: &mut Rng, line_safe: bool, exceptions_only: bool, with_aspas: bool) -> Value {
    let no = rng.below(7);
    let mut origins = Vec::new();
    let mut seen = std::collections::BTreeSet::new();
    for _ in 0..no {
        let (addr, len) = match rng.below(8) {
            0 => ("10.0.0.0".to_string(), 8u8),
            1 => (format!("10.{}.0.0", rng.below(3)), 16),
            2 => (format!("10.{}.{}.0", rng.below(3), rng.below(3)), 24),
            3 => (format!("192.0.2.{}", rng.below(4)), 32),
            4 => ("2001:db8::".to_string(), 32),
            5 => (format!("2001:db8:{:x}::", rng.below(3)), 48),
            6 => ("0.0.0.0".to_string(), 0),
            _ => ("::".to_string(), 0),
        };
        let asn = 64496 + rng.below(4) as u32;
        let width = if addr.contains(':') { 128 } else { 32 };
        let max = match rng.below(3) { 0 => Value::Null, 1 => json!(len), _ => json!((len as u64 + rng.below(9)).min(width)) };
        if !seen.insert((addr.clone(), len, asn, max.to_string())) { continue }
        origins.push(json!({"asn": asn, "addr": addr, "len": len, "max": max, "info": gen_infos(rng, line_safe, exceptions_only)}));
    }
    let keys: Vec<Value> = (0..rng.below(4)).map(|i| json!({
        "idx": i * 7 + rng.below(3) * 100, "asn": 64496 + rng.below(4), "ilen": 1 + rng.below(70),
        "info": gen_infos(rng, line_safe, exceptions_only)})).collect();
    let aspas: Vec<Value> = if with_aspas { (0..rng.below(4)).map(|i| {
        let mut prov: Vec<u32> = (0..rng.below(5)).map(|_| 65000 + rng.below(9) as u32).collect();
        prov.sort(); prov.dedup();
        json!({"customer": 64496 + i, "providers": prov, "info": gen_infos(rng, line_safe, exceptions_only)})
    }).collect() } else { Vec::new() };
    json!({"origins": origins, "keys": keys, "aspas": aspas})
}

fn gen_query(rng: &mut Rng, data: &Value) -> Value {
    if rng.chance(1, 6) { return Value::Null }
    let mut parts: Vec<String> = Vec::new();
    for _ in 0..rng.below(3) {
        if rng.chance(1, 2) {
            let asn = 64495 + rng.below(6);
            let key = if rng.chance(1, 5) { "filter-asn" } else { "select-asn" };
            parts.push(if rng.chance(1, 2) { format!("{key}=AS{asn}") } else { format!("{key}={asn}") });
        }
        else {
            // a prefix related to one in the data: itself, a supernet, a subnet, a sibling
            let origins = data["origins"].as_array().cloned().unwrap_or_default();
            let (addr, len) = if origins.is_empty() { ("10.0.0.0".to_string(), 8) } else {
                let o = &origins[rng.below(origins.len() as u64) as usize];
                (o["addr"].as_str().unwrap_or("10.0.0.0").to_string(), o["len"].as_u64().unwrap_or(8) as u8)
            };
            let ip = IpAddr::from_str(&addr).unwrap();
            let (v4, bits) = addr_bits(ip);
            let width: u32 = if v4 { 32 } else { 128 };
            let new_len = match rng.below(4) { 0 => len as u32, 1 => (len as u32).saturating_sub(1 + rng.below(9) as u32), 2 => (len as u32 + 1 + rng.below(9) as u32).min(width), _ => len as u32 };
            let mut nbits = if new_len == 0 { 0 } else { bits >> (width - new_len) << (width - new_len) };
            if rng.chance(1, 5) && new_len > 0 { nbits ^= 1u128 << (width - new_len) }
            let text = if v4 { std::net::Ipv4Addr::from(nbits as u32).to_string() } else { std::net::Ipv6Addr::from(nbits).to_string() };
            let key = if rng.chance(1, 5) { "filter-prefix" } else { "select-prefix" };
            parts.push(format!("{key}={text}/{new_len}"));
        }
    }
    if rng.chance(1, 2) { parts.push("include=more-specifics".into()) }
    let mut ex = Vec::new();
    for t in ["routeOrigins", "routerKeys", "aspas"] { if rng.chance(1, 4) { ex.push(t) } }
    if !ex.is_empty() { parts.push(format!("exclude={}", ex.join(","))) }
    if parts.is_empty() { Value::Null } else { json!(parts.join("&")) }
}

fn format_of(name: &str) -> OutputFormat { OutputFormat::from_str(name).expect("format") }

pub fn run_c21(ctx: &mut Ctx) {
    ctx.rule = "data sets of 0..6 route origins (nested / sibling / host / default prefixes, v4 \
        and v6), 0..3 router keys, 0..3 ASPAs, each with 0..3 provenance entries (published \
        objects with hostile TAL names, local exceptions with hostile comments and paths); every \
        one of the 13 formats; queries built from select-asn / select-prefix (same, super-, sub-, \
        sibling prefix), include=more-specifics, exclude=… through the real query parser; \
        Output::write and Output::stream; non-trivial = a selection, an exclusion or a hostile \
        character; distinct by (format, #resources, exclusions, more-specifics, hostile)".into();
    let inputs: Vec<Value> = match ctx.replay_inputs() {
        Some(inputs) => inputs.into_iter().filter(|v| v["via"] != "http").collect(),
        None => {
            let mut res: Vec<Value> = ctx.corpus("C21").into_iter().filter(|v| v["via"] != "http").collect();
            let n = ctx.budget(40, 1200);
            let mut rng = ctx.rng.fork();
            for i in 0..n {
                let hostile_lines = gen_data(&mut rng, false, false, true);
                let safe = gen_data(&mut rng, true, false, true);
                for fmt in FORMATS {
                    let data = if is_json_format(fmt) { &hostile_lines } else { &safe };
                    let mut case = data.clone();
                    case["fmt"] = json!(fmt);
                    case["query"] = gen_query(&mut rng, data);
                    case["via"] = json!(if i % 2 == 0 { "write" } else { "stream" });
                    case["time"] = json!(1_700_000_000u64 + rng.below(100000));
                    res.push(case);
                }
            }
            res
        }
    };
    for input in inputs {
        let fmt = input["fmt"].as_str().unwrap_or("json").to_string();
        let query = input["query"].as_str();
        let snap = Arc::new(build_snapshot(&input));
        let d = view(&snap);
        let gen_time = time(input["time"].as_i64().unwrap_or(0));
        let mut metrics = Metrics::new();
        metrics.time = gen_time;
        let metrics = Arc::new(metrics);
        let output = match Output::from_query(query) {
            Ok(output) => output,
            Err(_) => {
                ctx.oracle_fail("query-rejected", "a well-formed query was rejected", &input, json!(query));
                continue
            }
        };
        let mut written = Vec::new();
        output.clone().write(snap.clone(), metrics.clone(), format_of(&fmt), &mut written).expect("write to vec");
        let streamed: Vec<u8> = output.stream(snap.clone(), metrics.clone(), format_of(&fmt)).flat_map(|c| c.to_vec()).collect();
        if written != streamed {
            ctx.oracle_fail("write-stream-differ", "Output::write and Output::stream produce different bytes", &input, json!(null));
        }
        let bytes = if input["via"] == "stream" { streamed } else { written };
        let text = String::from_utf8_lossy(&bytes).into_owned();
        check_case(ctx, &input, &fmt, query, &d, &text, gen_time, "Output::write");
    }
}

//------------ through the dispatcher ------------------------------------------

fn slurm_of(data: &Value) -> String {
    let origins: Vec<Value> = data["origins"].as_array().into_iter().flatten().map(|o| {
        let mut v = json!({"asn": o["asn"], "prefix": format!("{}/{}", o["addr"].as_str().unwrap_or(""), o["len"])});
        if !o["max"].is_null() { v["maxPrefixLength"] = o["max"].clone() }
        if let Some(c) = o["info"][0]["comment"].as_str() { v["comment"] = json!(c) }
        v
    }).collect();
    let keys: Vec<Value> = data["keys"].as_array().into_iter().flatten().map(|k| {
        let idx = k["idx"].as_u64().unwrap_or(0) as u32;
        let mut v = json!({"asn": k["asn"],
            "SKI": rpki::util::base64::Slurm.encode(&key_id(idx)),
            "routerPublicKey": rpki::util::base64::Slurm.encode(&key_bytes(idx, k["ilen"].as_u64().unwrap_or(4)))});
        if let Some(c) = k["info"][0]["comment"].as_str() { v["comment"] = json!(c) }
        v
    }).collect();
    json!({"slurmVersion": 1, "validationOutputFilters": {"prefixFilters": [], "bgpsecFilters": []},
           "locallyAddedAssertions": {"prefixAssertions": origins, "bgpsecAssertions": keys}}).to_string()
}

pub fn run_c21h(ctx: &mut Ctx) {
    ctx.rule = "GET /<format>?<query> through the real dispatcher for all 13 formats; the data set \
        (route origins and router keys with hostile comments) is served via local exceptions; \
        body frames concatenated; same oracle and model comparison as c21".into();
    let inputs: Vec<Value> = match ctx.replay_inputs() {
        Some(inputs) => inputs.into_iter().filter(|v| v["via"] == "http").collect(),
        None => {
            let mut res: Vec<Value> = ctx.corpus("C21").into_iter().filter(|v| v["via"] == "http").collect();
            let n = ctx.budget(8, 200);
            let mut rng = ctx.rng.fork();
            for _ in 0..n {
                for fmt in FORMATS {
                    let mut data = gen_data(&mut rng, !is_json_format(fmt), true, false);
                    // one exception entry per item is what a SLURM file can express
                    for key in ["origins", "keys"] {
                        for item in data[key].as_array_mut().into_iter().flatten() {
                            let comment = item["info"][0]["comment"].clone();
                            item["info"] = json!([{"path": null, "comment": comment}]);
                        }
                    }
                    data["fmt"] = json!(fmt);
                    data["query"] = gen_query(&mut rng, &data);
                    data["via"] = json!("http");
                    data["time"] = json!(1_700_000_000u64 + rng.below(100000));
                    res.push(data);
                }
            }
            res
        }
    };
    for input in inputs {
        let fmt = input["fmt"].as_str().unwrap_or("json").to_string();
        let query = input["query"].as_str();
        let now = input["time"].as_i64().unwrap_or(1_700_000_000);
        rvcore::clock::set(now, 0);
        let w = web::Web::new(false, 1);
        let exceptions = match LocalExceptions::from_json(&slurm_of(&input), true) {
            Ok(e) => e,
            Err(err) => { ctx.oracle_fail("harness-slurm", &err.to_string(), &input, json!(null)); continue }
        };
        w.update(&exceptions, Metrics::new(), true);
        let uri = match query { Some(q) => format!("/{fmt}?{q}"), None => format!("/{fmt}") };
        let reply = w.get(&uri);
        if reply.status != 200 {
            ctx.oracle_fail("http-status", &format!("GET {uri}: status {}", reply.status), &input, json!(null));
            continue
        }
        let snap = w.history.read().current().expect("snapshot");
        let gen_time = w.history.read().metrics().expect("metrics").time;
        let d = view(&snap);
        let text = String::from_utf8_lossy(&web::body(&reply)).into_owned();
        check_case(ctx, &input, &fmt, query, &d, &text, time(gen_time.timestamp()), "GET");
    }
}
