//! Hostile strings and metrics states.

use std::net::IpAddr;
use std::str::FromStr;
use std::sync::Arc;
use std::time::Duration;
use routinator::collector::{HttpStatus, SnapshotReason};
use routinator::log::{LogBook, LogBookWriter};
use routinator::metrics::{
    Metrics, PayloadMetrics, PublicationMetrics, RepositoryMetrics,
    RrdpRepositoryMetrics, RsyncModuleMetrics, RtrServerMetrics, TalMetrics,
    VrpMetrics,
};
use routinator::reqwest::StatusCode;
use rpki::repository::tal::TalInfo;
use rpki::rtr::Serial;
use rpki::uri;
use rvcore::Rng;
use serde_json::{json, Value};

/// Characters that matter to the JSON string grammar, the Prometheus label
/// grammar and to line-based formats, plus a few harmless ones.
pub const SPECIAL: &[char] = &[
    '"', '\\', '\n', '\r', '\t', '\u{0}', '\u{1}', '\u{8}', '\u{c}', '\u{1b}',
    '\u{1f}', '\u{7f}', '/', '{', '}', '[', ']', ',', ':', '=', ' ', '#',
    '\u{80}', '\u{e9}', '\u{2028}', '\u{fffd}', '\u{1f980}', '\u{10ffff}',
    'u', 'n', '0',
];

/// A string mixing plain text with special characters.
pub fn hostile(rng: &mut Rng) -> String {
    let mut res = String::new();
    let n = rng.below(7);
    for _ in 0..n {
        match rng.below(5) {
            0 | 1 => res.push(*rng.pick(SPECIAL)),
            2 => res.push(char::from(rng.below(128) as u8)),
            3 => { let w: &[&str] = &["ripe", "rsync error", "\\u0041", "\\n", "a\"b", "x", "\\"]; let p: &&str = rng.pick(w); res.push_str(p) }
            _ => res.push(char::from(b'a' + rng.below(26) as u8)),
        }
    }
    res
}

/// A string that is harmless half of the time.
pub fn label(rng: &mut Rng, plain: &[&str]) -> String {
    if rng.chance(1, 2) {
        let mut s = rng.pick(plain).to_string();
        if rng.chance(1, 3) { s.push_str(&rng.below(10).to_string()) }
        s
    }
    else { hostile(rng) }
}

fn small(rng: &mut Rng) -> u32 {
    match rng.below(4) { 0 => 0, 1 => 1, 2 => rng.below(100) as u32, _ => rng.below(100_000) as u32 }
}

fn gen_pub(rng: &mut Rng) -> Value {
    Value::Array((0..21).map(|_| json!(small(rng))).collect())
}

fn gen_vrp(rng: &mut Rng) -> Value {
    Value::Array((0..5).map(|_| json!(small(rng))).collect())
}

fn gen_payload(rng: &mut Rng) -> Value {
    json!([gen_vrp(rng), gen_vrp(rng), gen_vrp(rng), gen_vrp(rng)])
}

fn gen_log(rng: &mut Rng) -> Value {
    if rng.chance(1, 3) { return Value::Null }
    let n = rng.below(4);
    Value::Array((0..n).map(|_| json!([rng.below(5), hostile(rng)])).collect())
}

fn gen_duration(rng: &mut Rng) -> Value {
    match rng.below(6) {
        0 => Value::Null,
        1 => json!(0),
        2 => json!(999),
        3 => json!(1000),
        4 => json!(rng.below(100_000_000)),
        _ => json!(rng.below(4000)),
    }
}

const ADDRS: &[&str] = &["192.0.2.1", "2001:db8::1", "127.0.0.1", "::1", "198.51.100.77"];
const STATUS: &[i64] = &[-2, -1, 200, 204, 304, 404, 500, 599];

/// A fully expanded metrics state.
pub fn gen_state(rng: &mut Rng, scale: u64) -> Value {
    let tals: Vec<Value> = (0..rng.below(scale + 1)).map(|_| json!({
        "name": label(rng, &["ripe", "arin", "apnic", "lacnic", "afrinic"]),
        "pub": gen_pub(rng), "pay": gen_payload(rng),
    })).collect();
    let repos: Vec<Value> = (0..rng.below(scale + 1)).map(|_| json!({
        "uri": label(rng, &["https://rrdp.example.net/notification.xml", "rsync://rpki.example.org/repo/", "ftp://other/"]),
        "pub": gen_pub(rng), "pay": gen_payload(rng),
    })).collect();
    let rsync: Vec<Value> = (0..rng.below(scale + 1)).map(|i| json!({
        "module": format!("rsync://host{}.example.org/mod{}/", i, rng.below(3)),
        "status": match rng.below(5) { 0 => Value::Null, 1 => json!(0), 2 => json!(256 * rng.below(40)), 3 => json!(9), _ => json!(256 * 10) },
        "duration": gen_duration(rng),
        "log": gen_log(rng),
    })).collect();
    let rrdp: Vec<Value> = (0..rng.below(scale + 1)).map(|i| json!({
        "uri": format!("https://rrdp{}.example.net/n{}/notification.xml", i, rng.below(3)),
        "notify": *rng.pick(STATUS),
        "payload": if rng.chance(1, 2) { Value::Null } else { json!(*rng.pick(STATUS)) },
        "session": rng.chance(1, 2),
        "serial": match rng.below(4) { 0 => Value::Null, 1 => json!(0), 2 => json!(u64::MAX), _ => json!(rng.below(100000)) },
        "reason": if rng.chance(1, 2) { Value::Null } else { json!(rng.below(10)) },
        "duration": gen_duration(rng),
        "log": gen_log(rng),
    })).collect();
    let pplogs: Vec<Value> = (0..rng.below(scale + 1)).map(|i| json!({
        "uri": format!("rsync://pp{}.example.org/repo/ca{}/", i, rng.below(3)),
        "log": match gen_log(rng) { Value::Null => json!([]), other => other },
    })).collect();
    let clients: Vec<Value> = (0..rng.below(3)).map(|i| json!({
        "addr": ADDRS[rng.below(ADDRS.len() as u64) as usize],
        "serial": if rng.chance(1, 2) { Value::Null } else { json!(rng.below(1000) + i) },
        "reset": rng.chance(1, 2),
        "conn": rng.chance(1, 2),
        "read": rng.below(100000),
    })).collect();
    json!({
        "tals": tals, "repos": repos, "rsync": rsync, "rrdp": rrdp, "pplogs": pplogs,
        "pub": gen_pub(rng), "local": gen_payload(rng), "snap": gen_payload(rng),
        "large_aspas": small(rng),
        "clients": clients, "detailed": rng.chance(2, 3), "unsafe": rng.below(3),
        "done": rng.chance(3, 4),
        "now": [1_700_000_000u64 + rng.below(1_000_000), if rng.chance(1, 2) { 0 } else { rng.below(1_000_000_000) }],
    })
}

fn u32s(v: &Value) -> Vec<u32> {
    v.as_array().map(|a| a.iter().map(|x| x.as_u64().unwrap_or(0) as u32).collect()).unwrap_or_default()
}

fn publication(v: &Value) -> PublicationMetrics {
    let n = u32s(v);
    let g = |i: usize| n.get(i).copied().unwrap_or(0);
    PublicationMetrics {
        valid_points: g(0), rejected_points: g(1), valid_manifests: g(2),
        invalid_manifests: g(3), premature_manifests: g(4), stale_manifests: g(5),
        missing_manifests: g(6), valid_crls: g(7), invalid_crls: g(8),
        stale_crls: g(9), stray_crls: g(10), valid_ca_certs: g(11),
        valid_router_certs: g(12), invalid_certs: g(13), valid_roas: g(14),
        invalid_roas: g(15), valid_gbrs: g(16), invalid_gbrs: g(17),
        valid_aspas: g(18), invalid_aspas: g(19), others: g(20),
    }
}

fn vrp(v: &Value) -> VrpMetrics {
    let n = u32s(v);
    let g = |i: usize| n.get(i).copied().unwrap_or(0);
    VrpMetrics {
        valid: g(0), marked_unsafe: g(1), locally_filtered: g(2),
        duplicate: g(3), contributed: g(4),
    }
}

fn payload(v: &Value) -> PayloadMetrics {
    let mut res = PayloadMetrics::default();
    res.v4_origins = vrp(&v[0]);
    res.v6_origins = vrp(&v[1]);
    res.router_keys = vrp(&v[2]);
    res.aspas = vrp(&v[3]);
    res.finalize();
    res
}

fn level(n: u64) -> log::Level {
    match n { 0 => log::Level::Error, 1 => log::Level::Warn, 2 => log::Level::Info, 3 => log::Level::Debug, _ => log::Level::Trace }
}

fn log_book(v: &Value) -> Option<LogBook> {
    let items = v.as_array()?;
    let mut writer = LogBookWriter::new(None);
    for item in items {
        writer.log(level(item[0].as_u64().unwrap_or(0)), format_args!("{}", item[1].as_str().unwrap_or("")));
    }
    Some(writer.into_book())
}

fn duration(v: &Value) -> Result<Duration, std::time::SystemTimeError> {
    match v.as_u64() {
        Some(ms) => Ok(Duration::from_millis(ms)),
        None => {
            // The only way to get a `SystemTimeError`.
            let now = std::time::SystemTime::UNIX_EPOCH;
            Err(now.duration_since(now + Duration::from_secs(1)).unwrap_err())
        }
    }
}

fn http_status(n: i64) -> HttpStatus {
    match n {
        -2 => HttpStatus::Rejected,
        -1 => HttpStatus::Error,
        n => StatusCode::from_u16(n as u16).map(HttpStatus::from).unwrap_or(HttpStatus::Error),
    }
}

const REASONS: &[SnapshotReason] = &[
    SnapshotReason::NewRepository, SnapshotReason::NewSession,
    SnapshotReason::BadDeltaSet, SnapshotReason::LargeDeltaSet,
    SnapshotReason::DeltaMutation, SnapshotReason::LargeSerial,
    SnapshotReason::OutdatedLocal, SnapshotReason::ConflictingDelta,
    SnapshotReason::TooManyDeltas, SnapshotReason::CorruptArchive,
];

/// Builds the real `Metrics` for a state.
pub fn metrics(state: &Value) -> Metrics {
    use std::os::unix::process::ExitStatusExt;

    crate::web::init_logger();
    let mut res = Metrics::new();
    for tal in state["tals"].as_array().into_iter().flatten() {
        let mut m = TalMetrics::new(Arc::new(TalInfo::from_name(tal["name"].as_str().unwrap_or("").to_string())));
        m.publication = publication(&tal["pub"]);
        m.payload = payload(&tal["pay"]);
        res.tals.push(m);
    }
    for repo in state["repos"].as_array().into_iter().flatten() {
        let mut m = RepositoryMetrics::new(repo["uri"].as_str().unwrap_or("").to_string());
        m.publication = publication(&repo["pub"]);
        m.payload = payload(&repo["pay"]);
        res.repositories.push(m);
    }
    for item in state["rsync"].as_array().into_iter().flatten() {
        let module = match uri::Rsync::from_str(item["module"].as_str().unwrap_or("")) { Ok(m) => m, Err(_) => continue };
        res.rsync.push(RsyncModuleMetrics {
            module,
            status: match item["status"].as_i64() {
                Some(raw) => Ok(std::process::ExitStatus::from_raw(raw as i32)),
                None => Err(std::io::Error::other("spawn failed")),
            },
            duration: duration(&item["duration"]),
            log_book: log_book(&item["log"]),
        });
    }
    for item in state["rrdp"].as_array().into_iter().flatten() {
        let uri = match uri::Https::from_str(item["uri"].as_str().unwrap_or("")) { Ok(m) => m, Err(_) => continue };
        let mut m = RrdpRepositoryMetrics::new(uri);
        m.notify_status = http_status(item["notify"].as_i64().unwrap_or(-1));
        m.payload_status = item["payload"].as_i64().map(http_status);
        if item["session"].as_bool().unwrap_or(false) {
            m.session = Some(uuid::Uuid::from_u128(0x1234_5678_9abc_def0_0fed_cba9_8765_4321));
        }
        m.serial = item["serial"].as_u64();
        m.snapshot_reason = item["reason"].as_u64().map(|i| REASONS[(i as usize) % REASONS.len()]);
        m.duration = duration(&item["duration"]);
        m.log_book = log_book(&item["log"]);
        res.rrdp.push(m);
    }
    for item in state["pplogs"].as_array().into_iter().flatten() {
        let uri = match uri::Rsync::from_str(item["uri"].as_str().unwrap_or("")) { Ok(m) => m, Err(_) => continue };
        res.pub_point_logs.push((uri, log_book(&item["log"]).unwrap_or_default()));
    }
    res.publication = publication(&state["pub"]);
    res.local = payload(&state["local"]);
    res.snapshot.payload = payload(&state["snap"]);
    res.snapshot.large_aspas = state["large_aspas"].as_u64().unwrap_or(0) as u32;
    res
}

/// Feeds the RTR client part of a state into the server metrics.
pub fn rtr_clients(state: &Value, rtr: &RtrServerMetrics) {
    for item in state["clients"].as_array().into_iter().flatten() {
        let addr = match IpAddr::from_str(item["addr"].as_str().unwrap_or("")) { Ok(a) => a, Err(_) => continue };
        let client = rtr.get_client(addr);
        client.update(|data| {
            if item["conn"].as_bool().unwrap_or(false) { data.inc_current_connections() }
            if let Some(serial) = item["serial"].as_u64() {
                data.update_now(Serial::from(serial as u32), item["reset"].as_bool().unwrap_or(false));
            }
            data.inc_bytes_read(item["read"].as_u64().unwrap_or(0));
        });
    }
}
