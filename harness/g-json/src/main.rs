//! Group "json": C22, C18, C21.
mod web;
mod mgen;
mod c22;

fn run(name: &str, ctx: &mut rvcore::Ctx) -> bool {
    match name {
        "c22probe" => c22::probe(ctx),
        _ => return false
    }
    true
}

fn main() { rvcore::main_with(run, rvcore::no_special) }
