//! Group "json": C22, C18, C21.
mod web;
mod mgen;
mod jtree;
mod prom;
mod c22;
mod c18;
mod c21;

fn run(name: &str, ctx: &mut rvcore::Ctx) -> bool {
    match name {
        "c22b" => c22::run_c22b(ctx),
        "c22s" => c22::run_c22s(ctx),
        "c22m" => c22::run_c22m(ctx),
        "c18" => c18::run_c18(ctx),
        "c18h" => c18::run_c18h(ctx),
        "c21" => c21::run_c21(ctx),
        "c21h" => c21::run_c21h(ctx),
        _ => return false
    }
    true
}

fn main() { rvcore::main_with(run, rvcore::no_special) }
