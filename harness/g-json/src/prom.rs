//! A parser for the Prometheus text exposition format 0.0.4, following the
//! reference implementation (`expfmt.TextParser`) including its document-level
//! checks: one HELP and one TYPE line per metric name, TYPE before samples.

use std::collections::{BTreeMap, BTreeSet};

#[derive(Clone, Debug, PartialEq)]
pub enum Entry {
    Help { name: String, text: String },
    Type { name: String, mtype: String },
    Sample { name: String, labels: Option<Vec<(String, String)>>, value: String },
}

fn is_blank(ch: char) -> bool { ch == ' ' || ch == '\t' }

fn is_name_start(ch: char) -> bool { ch.is_ascii_alphabetic() || ch == '_' || ch == ':' }
fn is_name_char(ch: char) -> bool { is_name_start(ch) || ch.is_ascii_digit() }
fn is_label_start(ch: char) -> bool { ch.is_ascii_alphabetic() || ch == '_' }
fn is_label_char(ch: char) -> bool { is_label_start(ch) || ch.is_ascii_digit() }

pub fn is_metric_name(s: &str) -> bool {
    let mut chars = s.chars();
    matches!(chars.next(), Some(c) if is_name_start(c)) && chars.all(is_name_char)
}

pub fn is_value(s: &str) -> bool {
    // strconv.ParseFloat: decimal floats, optionally signed "inf"/"infinity"/"nan"
    // (case-insensitive). Hexadecimal floats and underscores are not produced.
    if s.is_empty() { return false }
    let lower = s.to_ascii_lowercase();
    let unsigned = lower.strip_prefix(['+', '-']).unwrap_or(&lower);
    if unsigned == "inf" || unsigned == "infinity" || lower == "nan" { return true }
    let b = unsigned.as_bytes();
    let mut i = 0;
    let mut digits = 0;
    while matches!(b.get(i), Some(b'0'..=b'9')) { i += 1; digits += 1 }
    if b.get(i) == Some(&b'.') {
        i += 1;
        while matches!(b.get(i), Some(b'0'..=b'9')) { i += 1; digits += 1 }
    }
    if digits == 0 { return false }
    if matches!(b.get(i), Some(b'e')) {
        i += 1;
        if matches!(b.get(i), Some(b'+' | b'-')) { i += 1 }
        let start = i;
        while matches!(b.get(i), Some(b'0'..=b'9')) { i += 1 }
        if i == start { return false }
    }
    i == b.len()
}

struct Line<'a> { s: &'a [char], pos: usize }

impl Line<'_> {
    fn peek(&self) -> Option<char> { self.s.get(self.pos).copied() }
    fn skip_blanks(&mut self) { while matches!(self.peek(), Some(c) if is_blank(c)) { self.pos += 1 } }
    fn token(&mut self, pred: impl Fn(char) -> bool) -> String {
        let start = self.pos;
        while matches!(self.peek(), Some(c) if pred(c)) { self.pos += 1 }
        self.s[start..self.pos].iter().collect()
    }
    fn rest(&mut self) -> String {
        let res = self.s[self.pos..].iter().collect();
        self.pos = self.s.len();
        res
    }
}

fn parse_line(line: &str) -> Result<Option<Entry>, String> {
    let chars: Vec<char> = line.chars().collect();
    let mut l = Line { s: &chars, pos: 0 };
    l.skip_blanks();
    match l.peek() {
        None => return Ok(None),
        Some('#') => {
            l.pos += 1;
            l.skip_blanks();
            let keyword = l.token(|c| !is_blank(c));
            if keyword != "HELP" && keyword != "TYPE" { return Ok(None) }
            l.skip_blanks();
            let name = l.token(|c| !is_blank(c));
            if !is_metric_name(&name) { return Err(format!("invalid metric name {name:?} in comment")) }
            l.skip_blanks();
            if keyword == "HELP" {
                let raw = l.rest();
                let mut text = String::new();
                let mut chars = raw.chars();
                while let Some(ch) = chars.next() {
                    if ch == '\\' {
                        match chars.next() {
                            Some('\\') => text.push('\\'),
                            Some('n') => text.push('\n'),
                            other => return Err(format!("invalid escape sequence {other:?} in HELP")),
                        }
                    }
                    else { text.push(ch) }
                }
                return Ok(Some(Entry::Help { name, text }))
            }
            let mtype = l.token(|c| !is_blank(c));
            l.skip_blanks();
            if l.peek().is_some() { return Err("text after metric type".into()) }
            if !["counter", "gauge", "histogram", "summary", "untyped"].contains(&mtype.as_str()) {
                return Err(format!("unknown metric type {mtype:?}"))
            }
            return Ok(Some(Entry::Type { name, mtype }))
        }
        Some(_) => { }
    }
    let name = l.token(is_name_char);
    if !is_metric_name(&name) { return Err(format!("invalid metric name in {line:?}")) }
    let mut labels = None;
    l.skip_blanks();
    if l.peek() == Some('{') {
        l.pos += 1;
        let mut list = Vec::new();
        loop {
            l.skip_blanks();
            if l.peek() == Some('}') { l.pos += 1; break }
            let lname = l.token(is_label_char);
            if lname.is_empty() || !lname.chars().next().map(is_label_start).unwrap_or(false) {
                return Err(format!("invalid label name in {line:?}"))
            }
            l.skip_blanks();
            if l.peek() != Some('=') { return Err(format!("expected '=' after label name in {line:?}")) }
            l.pos += 1;
            l.skip_blanks();
            if l.peek() != Some('"') { return Err(format!("expected '\"' at start of label value in {line:?}")) }
            l.pos += 1;
            let mut value = String::new();
            loop {
                let ch = l.peek().ok_or_else(|| format!("unterminated label value in {line:?}"))?;
                l.pos += 1;
                match ch {
                    '"' => break,
                    '\\' => {
                        let esc = l.peek().ok_or_else(|| format!("unterminated escape in {line:?}"))?;
                        l.pos += 1;
                        match esc {
                            '\\' => value.push('\\'), '"' => value.push('"'), 'n' => value.push('\n'),
                            other => return Err(format!("invalid escape sequence '\\{other}' in label value")),
                        }
                    }
                    ch => value.push(ch),
                }
            }
            list.push((lname, value));
            l.skip_blanks();
            match l.peek() {
                Some(',') => l.pos += 1,
                Some('}') => { l.pos += 1; break }
                _ => return Err(format!("unexpected end of label value in {line:?}")),
            }
        }
        labels = Some(list);
    }
    else if !matches!(l.s.get(l.pos.wrapping_sub(1)), Some(c) if is_blank(*c)) {
        return Err(format!("expected blank or '{{' after metric name in {line:?}"))
    }
    l.skip_blanks();
    let value = l.token(|c| !is_blank(c));
    if !is_value(&value) { return Err(format!("expected float as value, got {value:?}")) }
    l.skip_blanks();
    if l.peek().is_some() {
        let ts = l.token(|c| !is_blank(c));
        if ts.parse::<i64>().is_err() { return Err(format!("expected integer as timestamp, got {ts:?}")) }
        l.skip_blanks();
        if l.peek().is_some() { return Err(format!("spurious string after timestamp in {line:?}")) }
    }
    Ok(Some(Entry::Sample { name, labels, value }))
}

/// Parses a whole exposition.
pub fn parse(text: &str) -> Result<Vec<Entry>, String> {
    if !text.is_empty() && !text.ends_with('\n') {
        return Err("text format parsing error: unexpected end of input stream".into())
    }
    let mut res = Vec::new();
    let mut helps = BTreeSet::new();
    let mut types = BTreeMap::new();
    let mut sampled = BTreeSet::new();
    for (idx, line) in text.split_terminator('\n').enumerate() {
        let entry = parse_line(line).map_err(|err| format!("line {}: {err}", idx + 1))?;
        match entry.as_ref() {
            Some(Entry::Help { name, .. }) => {
                if !helps.insert(name.clone()) {
                    return Err(format!("line {}: second HELP line for metric name {name:?}", idx + 1))
                }
            }
            Some(Entry::Type { name, mtype }) => {
                if types.insert(name.clone(), mtype.clone()).is_some() {
                    return Err(format!("line {}: second TYPE line for metric name {name:?}", idx + 1))
                }
                if sampled.contains(name) {
                    return Err(format!("line {}: TYPE reported after samples for {name:?}", idx + 1))
                }
            }
            Some(Entry::Sample { name, .. }) => { sampled.insert(name.clone()); }
            None => { }
        }
        if let Some(entry) = entry { res.push(entry) }
    }
    Ok(res)
}
