//! C18: `/json-delta` delta and snapshot streams.
//!
//! * `c18` — `DeltaStream` / `SnapshotStream` themselves (through the thin
//!   `verif_delta_chunks` / `verif_snapshot_chunks` wrappers) for deltas and
//!   data sets of all three payload types, 0..3000 items, sizes swept across
//!   the 64 000 byte chunk boundary, boundary sessions and serials.
//! * `c18h` — the same documents through the real request dispatcher
//!   (`GET /json-delta[?session=..&serial=..]`) with the served data set
//!   driven by local exceptions (route origins and router keys).
//!
//! Oracle: the concatenated chunks parse with `serde_json`; `reset`, session,
//! serials and the item lists equal the change set / data set the stream
//! was created from. Model: chunk lengths and the document.

use std::net::IpAddr;
use std::str::FromStr;
use std::sync::Arc;
use bytes::Bytes;
use chrono::{DateTime, TimeZone, Utc};
use routinator::http::verif_api::{verif_delta_chunks, verif_snapshot_chunks};
use routinator::payload::{PayloadDelta, PayloadSnapshot};
use routinator::slurm::LocalExceptions;
use rpki::crypto::KeyIdentifier;
use rpki::resources::addr::{MaxLenPrefix, Prefix};
use rpki::resources::Asn;
use rpki::rtr::payload::{Action, Aspa, PayloadRef, RouteOrigin, RouterKey};
use rpki::rtr::pdu::RouterKeyInfo;
use rpki::rtr::server::PayloadSet;
use rpki::rtr::Serial;
use rvcore::payload_gen::{aspa, info};
use rvcore::{Ctx, Rng};
use serde_json::{json, Value};
use crate::jtree::summary;
use crate::web;

//------------ items -----------------------------------------------------------

fn key_id(idx: u32) -> [u8; 20] {
    let mut res = [0u8; 20];
    for (i, b) in res.iter_mut().enumerate() {
        *b = (idx.wrapping_mul(2654435761).rotate_left(i as u32 * 3) >> (i % 4 * 8)) as u8;
    }
    res[16..].copy_from_slice(&idx.to_be_bytes());
    res
}

fn key_info(idx: u32, len: u64) -> Vec<u8> {
    (0..len).map(|i| (idx as u64 * 31 + i * 7) as u8).collect()
}

/// The i-th generated item of a kind.
fn gen_item(kind: u64, i: u32, rng: &mut Rng) -> Value {
    match kind {
        0 => {
            let len = [24u8, 24, 24, 16, 32, 8][i as usize % 6];
            let addr = match len {
                8 => format!("{}.0.0.0", i % 223 + 1),
                16 => format!("{}.{}.0.0", i % 223 + 1, (i / 223) % 256),
                24 => format!("{}.{}.{}.0", 10 + (i >> 16) % 200, (i >> 8) % 256, i % 256),
                _ => format!("{}.{}.{}.{}", 10 + (i >> 16) % 200, (i >> 8) % 256, i % 256, 7),
            };
            let max = match rng.below(3) { 0 => Value::Null, 1 => json!(len), _ => json!(len + (32 - len) / 2) };
            json!(["o", 64496 + i % 1000, addr, len, max])
        }
        1 => {
            let len = [48u8, 32, 64, 128, 0][i as usize % 5];
            let addr = match len {
                0 => "::".to_string(),
                32 => format!("{:x}:{:x}::", 0x2001 + (i >> 16) % 0x1000, i % 65536),
                48 => format!("2001:{:x}:{:x}::", (i >> 16) % 65536, i % 65536),
                64 => format!("2001:db8:{:x}:{:x}::", (i >> 16) % 65536, i % 65536),
                _ => format!("2001:db8::{:x}:{:x}", (i >> 16) % 65536, i % 65536),
            };
            let max = match rng.below(3) { 0 => Value::Null, 1 => json!(len), _ => json!(128) };
            json!(["o", if i % 7 == 0 { u32::MAX } else { i * 13 % 400_000 }, addr, len, max])
        }
        2 => json!(["k", i, 64000 + i % 50, 1 + rng.below(90)]),
        _ => {
            let n = match rng.below(5) { 0 => 0, 1 => 1, 2 => 2, _ => rng.below(12) };
            let mut prov: Vec<u32> = (0..n).map(|_| 65000 + rng.below(500) as u32).collect();
            prov.sort();
            prov.dedup();
            json!(["a", 100_000 + i, prov])
        }
    }
}

/// `n` distinct items; `mix` selects the kinds (bit 0 v4, 1 v6, 2 keys, 3 ASPAs).
fn gen_items(rng: &mut Rng, n: usize, mix: u64, base: u32) -> Vec<Value> {
    let kinds: Vec<u64> = (0..4).filter(|k| mix & (1 << k) != 0).collect();
    (0..n).map(|i| gen_item(kinds[i % kinds.len()], base + i as u32, rng)).collect()
}

struct Set {
    origins: Vec<RouteOrigin>,
    keys: Vec<RouterKey>,
    aspas: Vec<Aspa>,
}

fn build_set(items: &Value) -> Set {
    let mut res = Set { origins: Vec::new(), keys: Vec::new(), aspas: Vec::new() };
    for item in items.as_array().into_iter().flatten() {
        match item[0].as_str().unwrap_or("") {
            "o" => {
                let addr = IpAddr::from_str(item[2].as_str().unwrap_or("")).expect("address");
                let prefix = Prefix::new(addr, item[3].as_u64().unwrap_or(0) as u8).expect("prefix");
                let max = item[4].as_u64().map(|m| m as u8);
                res.origins.push(RouteOrigin::new(
                    MaxLenPrefix::new(prefix, max).expect("max length"),
                    Asn::from_u32(item[1].as_u64().unwrap_or(0) as u32),
                ));
            }
            "k" => {
                let idx = item[1].as_u64().unwrap_or(0) as u32;
                res.keys.push(RouterKey::new(
                    KeyIdentifier::try_from(&key_id(idx)[..]).expect("key id"),
                    Asn::from_u32(item[2].as_u64().unwrap_or(0) as u32),
                    RouterKeyInfo::new(Bytes::from(key_info(idx, item[3].as_u64().unwrap_or(1)))).expect("key info"),
                ));
            }
            "a" => {
                let prov: Vec<u32> = item[2].as_array().into_iter().flatten()
                    .map(|p| p.as_u64().unwrap_or(0) as u32).collect();
                res.aspas.push(aspa(item[1].as_u64().unwrap_or(0) as u32, &prov));
            }
            _ => { }
        }
    }
    res
}

fn snapshot(set: &Set) -> PayloadSnapshot {
    PayloadSnapshot::new(
        set.origins.iter().map(|o| (*o, info())),
        set.keys.iter().map(|k| (k.clone(), info())),
        set.aspas.iter().map(|a| (a.clone(), info())),
        None
    )
}

//------------ expected items --------------------------------------------------

/// The JSON object an item has to be listed as.
fn expected(p: PayloadRef) -> Value {
    match p {
        PayloadRef::Origin(o) => json!({
            "type": "routeOrigin", "asn": o.asn.to_string(),
            "prefix": format!("{}/{}", o.prefix.addr(), o.prefix.prefix_len()),
            "maxLength": o.prefix.resolved_max_len(),
        }),
        PayloadRef::RouterKey(k) => json!({
            "type": "routerKey", "keyIdentifier": k.key_identifier.to_string(),
            "asn": k.asn.to_string(), "keyInfo": k.key_info.to_string(),
        }),
        PayloadRef::Aspa(a) => json!({
            "type": "aspa", "customerAsn": a.customer.to_string(),
            "providerAsns": a.providers.iter().map(|p| p.to_string()).collect::<Vec<_>>(),
        }),
    }
}

/// The model's view of an item: its formatted fields.
fn item_tokens(p: PayloadRef, out: &mut Vec<String>, sign: &str) {
    match p {
        PayloadRef::Origin(o) => out.push(format!(
            "{sign}o {} {} {} {}", o.asn, o.prefix.addr(), o.prefix.prefix_len(), o.prefix.resolved_max_len()
        )),
        PayloadRef::RouterKey(k) => out.push(format!("{sign}k {} {} {}", k.key_identifier, k.asn, k.key_info)),
        PayloadRef::Aspa(a) => {
            let prov: Vec<String> = a.providers.iter().map(|p| p.to_string()).collect();
            out.push(format!("{sign}a {} {}{}{}", a.customer, prov.len(),
                if prov.is_empty() { "" } else { " " }, prov.join(" ")));
        }
    }
}

fn iso(created: DateTime<Utc>) -> String {
    created.format("%Y-%m-%dT%H:%M:%SZ").to_string()
}

struct Observed {
    chunks: Vec<Vec<u8>>,
}

impl Observed {
    fn text(&self) -> String {
        String::from_utf8_lossy(&self.chunks.concat()).into_owned()
    }
    fn lens(&self) -> String {
        self.chunks.iter().map(|c| c.len().to_string()).collect::<Vec<_>>().join(",")
    }
}

/// Checks a delta / reset document against what it was created from.
#[allow(clippy::too_many_arguments)]
fn oracle(
    ctx: &mut Ctx, input: &Value, what: &str, text: &str, reset: bool, session: u64, to: u32,
    from: Option<u32>, created: Option<DateTime<Utc>>, announced: &[Value], withdrawn: &[Value],
) {
    let doc: Value = match serde_json::from_str(text) {
        Ok(doc) => doc,
        Err(err) => {
            ctx.oracle_fail(&format!("{what}-json-invalid"),
                &format!("the /json-delta body is not a JSON document: {err}"), input,
                json!(text.chars().take(2000).collect::<String>()));
            return
        }
    };
    let mut bad = Vec::new();
    if doc["reset"] != json!(reset) { bad.push("reset") }
    if doc["session"] != json!(session.to_string()) { bad.push("session") }
    if doc["serial"] != json!(to) { bad.push("serial") }
    if let Some(from) = from { if doc["fromSerial"] != json!(from) { bad.push("fromSerial") } }
    if let Some(created) = created {
        if doc["generated"] != json!(created.timestamp()) { bad.push("generated") }
        if doc["generatedTime"] != json!(iso(created)) { bad.push("generatedTime") }
    }
    if doc["announced"].as_array().map(|a| a.as_slice()) != Some(announced) { bad.push("announced") }
    if reset {
        if doc.get("withdrawn").is_some() { bad.push("withdrawn-in-reset") }
    }
    else if doc["withdrawn"].as_array().map(|a| a.as_slice()) != Some(withdrawn) { bad.push("withdrawn") }
    if !bad.is_empty() {
        let n = |v: &Value| v.as_array().map(|a| a.len()).unwrap_or(usize::MAX);
        ctx.oracle_fail(&format!("{what}-content-{}", bad[0]),
            &format!("the document differs from the change set / data set in: {}", bad.join(", ")), input,
            json!({"announced": [n(&doc["announced"]), announced.len()], "withdrawn": [n(&doc["withdrawn"]), withdrawn.len()],
                   "session": doc["session"], "serial": doc["serial"], "fromSerial": doc["fromSerial"]}));
    }
}

fn run_delta(ctx: &mut Ctx, input: &Value, delta: Arc<PayloadDelta>, obs: Observed,
             session: u64, from: u32, to: u32, created: Option<DateTime<Utc>>, model_created: DateTime<Utc>, what: &str) {
    let mut toks = Vec::new();
    let mut ann = Vec::new();
    let mut wd = Vec::new();
    for (p, action) in delta.actions() {
        match action {
            Action::Announce => { item_tokens(p, &mut toks, "+"); ann.push(expected(p)) }
            Action::Withdraw => { item_tokens(p, &mut toks, "-"); wd.push(expected(p)) }
        }
    }
    let text = obs.text();
    let parsed = serde_json::from_str::<Value>(&text).is_ok();
    let op = format!("c18d 64000 {session} {to} {from} {} {} {}", model_created.timestamp(), iso(model_created), toks.join(" "));
    let imp = format!("chunks={} {} ok=1 json={}", obs.lens(), summary(&text), parsed as u8);
    ctx.case(input, &op, &imp);
    oracle(ctx, input, what, &text, false, session, to, Some(from), created, &ann, &wd);
    if obs.chunks.len() > 1 || ann.is_empty() || wd.is_empty() {
        ctx.nontrivial(format!("d/{}/{}/{}", obs.chunks.len(), ann.len().min(3), wd.len().min(3)));
    }
    ctx.count(&format!("{what}:chunks={}", obs.chunks.len().min(9)));
}

fn run_snapshot(ctx: &mut Ctx, input: &Value, snap: Arc<PayloadSnapshot>, obs: Observed,
                session: u64, to: u32, created: Option<DateTime<Utc>>, model_created: DateTime<Utc>, what: &str) {
    let mut toks = Vec::new();
    let mut items = Vec::new();
    let mut iter = snap.arc_iter();
    while let Some(p) = iter.next() {
        item_tokens(p, &mut toks, "");
        items.push(expected(p));
    }
    let text = obs.text();
    let parsed = serde_json::from_str::<Value>(&text).is_ok();
    let op = format!("c18s 64000 {session} {to} {} {} {}", model_created.timestamp(), iso(model_created), toks.join(" "));
    let imp = format!("chunks={} {} ok=1 json={}", obs.lens(), summary(&text), parsed as u8);
    ctx.case(input, &op, &imp);
    oracle(ctx, input, what, &text, true, session, to, None, created, &items, &[]);
    if obs.chunks.len() > 1 || items.len() < 2 {
        ctx.nontrivial(format!("s/{}/{}", obs.chunks.len(), items.len().min(3)));
    }
    ctx.count(&format!("{what}:chunks={}", obs.chunks.len().min(9)));
}

//------------ c18: the streams ------------------------------------------------

const SESSIONS: &[u64] = &[0, 1, 1_700_000_000, u64::MAX];
const SERIALS: &[u32] = &[0, 1, 41, 0x7fff_ffff, 0x8000_0000, u32::MAX];
const TIMES: &[i64] = &[0, 1, -1, 1_700_000_000, 253_402_300_799, -62_135_596_800];

/// The number of items of a kind after which the first chunk is returned.
fn items_in_first_chunk(mix: u64) -> usize {
    let mut rng = Rng(17);
    let items = Value::Array(gen_items(&mut rng, 2500, mix, 0));
    let snap = Arc::new(snapshot(&build_set(&items)));
    let chunks = verif_snapshot_chunks(1, Serial::from(1), snap, Utc.timestamp_opt(0, 0).unwrap());
    String::from_utf8_lossy(&chunks[0]).matches("\"type\"").count()
}

fn gen_cases(ctx: &mut Ctx) -> Vec<Value> {
    let mut res = Vec::new();
    let mut rng = ctx.rng.fork();
    let mut meta = |rng: &mut Rng, i: usize| json!({
        "session": SESSIONS[i % SESSIONS.len()], "from": SERIALS[i % SERIALS.len()],
        "to": SERIALS[(i / 2 + 1) % SERIALS.len()], "created": TIMES[(i + rng.below(2) as usize) % TIMES.len()],
    });
    let mut push = |res: &mut Vec<Value>, rng: &mut Rng, kind: &str, old: Vec<Value>, new: Vec<Value>| {
        let i = res.len();
        let mut case = meta(rng, i);
        case["kind"] = json!(kind);
        case["old"] = Value::Array(old);
        case["new"] = Value::Array(new);
        res.push(case);
    };
    // small sizes, every emptiness pattern
    for (na, nw) in [(0, 0), (0, 1), (1, 0), (1, 1), (0, 2), (2, 0), (2, 3), (3, 3), (0, 7), (7, 0)] {
        for mix in [1, 2, 4, 8, 15] {
            let common = gen_items(&mut rng, 2, mix, 5000);
            let mut old = gen_items(&mut rng, nw, mix, 0);
            let mut new = gen_items(&mut rng, na, mix, 100);
            old.extend(common.iter().cloned());
            new.extend(common);
            push(&mut res, &mut rng, "delta", old, new);
        }
    }
    for n in [0, 1, 2, 3, 5] {
        for mix in [1, 2, 4, 8, 15] {
            let items = gen_items(&mut rng, n, mix, 0);
            push(&mut res, &mut rng, "snapshot", Vec::new(), items);
        }
    }
    // sweeps across the first chunk boundary
    let window: i64 = if ctx.quick() { 3 } else { 12 };
    for mix in [1u64, 15, 8] {
        let k = items_in_first_chunk(mix) as i64;
        for d in -window..=window {
            let n = (k + d).max(0) as usize;
            let items = gen_items(&mut rng, n, mix, 0);
            push(&mut res, &mut rng, "snapshot", Vec::new(), items.clone());
            // announce-only, withdraw-only, separator at the boundary
            push(&mut res, &mut rng, "delta", Vec::new(), items.clone());
            push(&mut res, &mut rng, "delta", items.clone(), Vec::new());
            if d.abs() <= 1 {
                let more = gen_items(&mut rng, 3, mix, 900_000);
                push(&mut res, &mut rng, "delta", more, items);
            }
        }
    }
    // many chunks
    let big: &[usize] = if ctx.quick() { &[2999, 3000] } else { &[1500, 2047, 2999, 3000, 3001, 6000] };
    for &n in big {
        let a = gen_items(&mut rng, n, 15, 0);
        let b = gen_items(&mut rng, n / 2, 15, 1_000_000);
        push(&mut res, &mut rng, "snapshot", Vec::new(), a.clone());
        push(&mut res, &mut rng, "delta", a, b);
    }
    // random
    let n = ctx.budget(40, 400);
    for _ in 0..n {
        let mix = 1 + rng.below(15);
        let na = [0, 1, 5, 40, 300, 700][rng.below(6) as usize] + rng.below(5) as usize;
        let nw = [0, 1, 5, 40, 300, 700][rng.below(6) as usize] + rng.below(5) as usize;
        let common = gen_items(&mut rng, 3, mix, 2_000_000);
        let mut old = gen_items(&mut rng, nw, mix, 0);
        let mut new = gen_items(&mut rng, na, mix, 500_000);
        old.extend(common.iter().cloned());
        new.extend(common);
        if rng.chance(1, 3) { push(&mut res, &mut rng, "snapshot", Vec::new(), new) }
        else { push(&mut res, &mut rng, "delta", old, new) }
    }
    res
}

pub fn run_c18(ctx: &mut Ctx) {
    ctx.rule = "DeltaStream / SnapshotStream on generated change sets and data sets: every \
        emptiness pattern of the two lists for each payload type, sizes swept one by one across the \
        first 64 000-byte chunk boundary (snapshot, announce-only, withdraw-only, separator at the \
        boundary), 3000-item sets (7+ chunks), random mixes; sessions 0..u64::MAX, serials at \
        0/2^31/2^32-1, creation times incl. negative and year 9999; non-trivial = more than one \
        chunk or an empty list; distinct by (chunks, list sizes capped at 3)".into();
    let inputs: Vec<Value> = match ctx.replay_inputs() {
        Some(inputs) => inputs.into_iter().filter(|v| v["kind"] != "http").collect(),
        None => {
            let mut res: Vec<Value> = ctx.corpus("C18").into_iter().filter(|v| v["kind"] != "http").collect();
            res.extend(gen_cases(ctx));
            res
        }
    };
    for input in inputs {
        let session = input["session"].as_u64().unwrap_or(0);
        let from = input["from"].as_u64().unwrap_or(0) as u32;
        let to = input["to"].as_u64().unwrap_or(0) as u32;
        let created = Utc.timestamp_opt(input["created"].as_i64().unwrap_or(0), 0).single()
            .unwrap_or_else(|| Utc.timestamp_opt(0, 0).unwrap());
        let new = build_set(&input["new"]);
        if input["kind"] == "snapshot" {
            let snap = Arc::new(snapshot(&new));
            let chunks = verif_snapshot_chunks(session, Serial::from(to), snap.clone(), created);
            let obs = Observed { chunks: chunks.iter().map(|c| c.to_vec()).collect() };
            run_snapshot(ctx, &input, snap, obs, session, to, Some(created), created, "snapshot");
        }
        else {
            let old = snapshot(&build_set(&input["old"]));
            let delta = PayloadDelta::construct(&old, &snapshot(&new), Serial::from(from))
                .unwrap_or_else(|| PayloadDelta::empty(Serial::from(from)));
            let delta = Arc::new(delta);
            let chunks = verif_delta_chunks(session, Serial::from(from), Serial::from(to), delta.clone(), created);
            let obs = Observed { chunks: chunks.iter().map(|c| c.to_vec()).collect() };
            run_delta(ctx, &input, delta, obs, session, from, to, Some(created), created, "delta");
        }
    }
}

//------------ c18h: through the dispatcher ------------------------------------

fn slurm(items: &Value) -> String {
    let set = build_set(items);
    let prefixes: Vec<Value> = set.origins.iter().map(|o| {
        let mut v = json!({
            "asn": o.asn.into_u32(),
            "prefix": format!("{}/{}", o.prefix.addr(), o.prefix.prefix_len()),
        });
        if let Some(max) = o.prefix.max_len() { v["maxPrefixLength"] = json!(max) }
        v
    }).collect();
    let keys: Vec<Value> = set.keys.iter().map(|k| json!({
        "asn": k.asn.into_u32(),
        "SKI": rpki::util::base64::Slurm.encode(k.key_identifier.as_slice()),
        "routerPublicKey": rpki::util::base64::Slurm.encode(k.key_info.as_slice()),
    })).collect();
    json!({
        "slurmVersion": 1,
        "validationOutputFilters": {"prefixFilters": [], "bgpsecFilters": []},
        "locallyAddedAssertions": {"prefixAssertions": prefixes, "bgpsecAssertions": keys},
    }).to_string()
}

pub fn run_c18h(ctx: &mut Ctx) {
    ctx.rule = "GET /json-delta through the real dispatcher: the served data set is installed \
        twice via local exceptions (route origins and router keys), then the reset document and \
        the delta document for the previous serial are requested; body frames = chunks; sizes as \
        in c18 (small, across the chunk boundary, 3000 items); non-trivial = several frames or an \
        empty list".into();
    let inputs: Vec<Value> = match ctx.replay_inputs() {
        Some(inputs) => inputs.into_iter().filter(|v| v["kind"] == "http").collect(),
        None => {
            let mut res: Vec<Value> = ctx.corpus("C18").into_iter().filter(|v| v["kind"] == "http").collect();
            let mut rng = ctx.rng.fork();
            let k = items_in_first_chunk(5);
            let mut sizes: Vec<(usize, usize)> = vec![(0, 1), (1, 0), (1, 1), (0, 3), (4, 0), (k - 1, 2), (k, 2), (k + 1, 2), (2, k), (3000, 1500)];
            let n = ctx.budget(10, 300);
            for _ in 0..n {
                sizes.push(([0, 1, 3, 50, 500][rng.below(5) as usize], [0, 1, 3, 50, 500][rng.below(5) as usize] + rng.below(3) as usize));
            }
            for (i, (na, nw)) in sizes.into_iter().enumerate() {
                let mix = [5, 1, 4, 7][i % 4];
                let common = gen_items(&mut rng, i % 3, mix, 3_000_000);
                let mut old = gen_items(&mut rng, nw, mix, 0);
                let mut new = gen_items(&mut rng, na, mix, 1_000_000);
                old.extend(common.iter().cloned());
                new.extend(common);
                res.push(json!({"kind": "http", "old": old, "new": new, "now": 1_700_000_000u64 + rng.below(1000)}));
            }
            res
        }
    };
    for input in inputs {
        let now = input["now"].as_i64().unwrap_or(1_700_000_000);
        rvcore::clock::set(now, 0);
        let w = web::Web::new(false, 1);
        let e_old = LocalExceptions::from_json(&slurm(&input["old"]), false).expect("slurm");
        let e_new = LocalExceptions::from_json(&slurm(&input["new"]), false).expect("slurm");
        w.update(&e_old, routinator::metrics::Metrics::new(), true);
        let (session, serial0) = w.history.read().session_and_serial();
        rvcore::clock::set(now + 60, 0);
        w.update(&e_new, routinator::metrics::Metrics::new(), true);
        let serial1 = w.history.read().serial();
        let created = w.history.read().created().expect("created");

        // reset document
        let reply = w.get("/json-delta");
        let snap = w.history.read().current().expect("current snapshot");
        if reply.status != 200 {
            ctx.oracle_fail("http-status", &format!("GET /json-delta: status {}", reply.status), &input, json!(null));
        }
        let obs = Observed { chunks: reply.frames.clone() };
        run_snapshot(ctx, &input, snap, obs, session, u32::from(serial1), Some(created), created, "http-snapshot");

        // delta document
        let reply = w.get(&format!("/json-delta?session={}&serial={}", session, u32::from(serial0)));
        let delta = w.history.read().delta_since(serial0);
        match delta {
            Some(delta) if serial0 != serial1 => {
                let obs = Observed { chunks: reply.frames.clone() };
                run_delta(ctx, &input, delta, obs, session, u32::from(serial0), u32::from(serial1),
                    Some(created), created, "http-delta");
            }
            _ => {
                // nothing changed: the client is told so with an empty delta or a reset
                let obs = Observed { chunks: reply.frames.clone() };
                let text = obs.text();
                if serde_json::from_str::<Value>(&text).is_err() {
                    ctx.oracle_fail("http-delta-json-invalid", "unchanged data: body is not JSON", &input, json!(text));
                }
                ctx.case_oracle_only(&input, &summary(&text));
            }
        }
    }
}
