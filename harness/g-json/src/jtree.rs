//! A small JSON parser that keeps member order, duplicate names and the
//! source text of numbers and literals, so that a document written by
//! `JsonBuilder` can be turned back into the calls that wrote it. Also the
//! shared text encoding and checksum of the driver protocol.

#[derive(Clone, Debug, PartialEq)]
pub enum JNode {
    Obj(Vec<(String, JNode)>),
    Arr(Vec<JNode>),
    Str(String),
    Raw(String),
}

struct Parser<'a> { s: &'a [char], pos: usize }

impl Parser<'_> {
    fn peek(&self) -> Option<char> { self.s.get(self.pos).copied() }
    fn ws(&mut self) {
        while matches!(self.peek(), Some(' ' | '\t' | '\n' | '\r')) { self.pos += 1 }
    }
    fn expect(&mut self, ch: char) -> Result<(), String> {
        if self.peek() == Some(ch) { self.pos += 1; Ok(()) }
        else { Err(format!("expected {ch:?} at {}", self.pos)) }
    }
    fn string(&mut self) -> Result<String, String> {
        self.expect('"')?;
        let mut res = String::new();
        loop {
            let ch = self.peek().ok_or("unterminated string")?;
            self.pos += 1;
            match ch {
                '"' => return Ok(res),
                '\\' => {
                    let esc = self.peek().ok_or("unterminated escape")?;
                    self.pos += 1;
                    match esc {
                        '"' => res.push('"'), '\\' => res.push('\\'), '/' => res.push('/'),
                        'b' => res.push('\u{8}'), 'f' => res.push('\u{c}'), 'n' => res.push('\n'),
                        'r' => res.push('\r'), 't' => res.push('\t'),
                        'u' => {
                            let mut v = 0u32;
                            for _ in 0..4 {
                                let d = self.peek().and_then(|c| c.to_digit(16)).ok_or("bad \\u escape")?;
                                self.pos += 1;
                                v = v * 16 + d;
                            }
                            res.push(char::from_u32(v).ok_or("surrogate escape")?);
                        }
                        _ => return Err(format!("bad escape at {}", self.pos)),
                    }
                }
                ch if (ch as u32) < 0x20 => return Err(format!("control character at {}", self.pos)),
                ch => res.push(ch),
            }
        }
    }
    fn value(&mut self, depth: usize) -> Result<JNode, String> {
        if depth > 100 { return Err("too deep".into()) }
        match self.peek().ok_or("unexpected end")? {
            '"' => Ok(JNode::Str(self.string()?)),
            '{' => {
                self.pos += 1;
                let mut members = Vec::new();
                self.ws();
                if self.peek() == Some('}') { self.pos += 1; return Ok(JNode::Obj(members)) }
                loop {
                    self.ws();
                    let key = self.string()?;
                    self.ws();
                    self.expect(':')?;
                    self.ws();
                    let value = self.value(depth + 1)?;
                    members.push((key, value));
                    self.ws();
                    match self.peek() {
                        Some(',') => self.pos += 1,
                        Some('}') => { self.pos += 1; return Ok(JNode::Obj(members)) }
                        _ => return Err(format!("expected , or }} at {}", self.pos)),
                    }
                }
            }
            '[' => {
                self.pos += 1;
                let mut items = Vec::new();
                self.ws();
                if self.peek() == Some(']') { self.pos += 1; return Ok(JNode::Arr(items)) }
                loop {
                    self.ws();
                    items.push(self.value(depth + 1)?);
                    self.ws();
                    match self.peek() {
                        Some(',') => self.pos += 1,
                        Some(']') => { self.pos += 1; return Ok(JNode::Arr(items)) }
                        _ => return Err(format!("expected , or ] at {}", self.pos)),
                    }
                }
            }
            _ => {
                let start = self.pos;
                while matches!(self.peek(), Some(c) if c.is_ascii_alphanumeric() || matches!(c, '-' | '+' | '.')) {
                    self.pos += 1
                }
                let raw: String = self.s[start..self.pos].iter().collect();
                if raw == "null" || raw == "true" || raw == "false" || is_number(&raw) { Ok(JNode::Raw(raw)) }
                else { Err(format!("bad token {raw:?} at {start}")) }
            }
        }
    }
}

/// RFC 8259 `number`.
pub fn is_number(s: &str) -> bool {
    let b = s.as_bytes();
    let mut i = 0;
    if b.get(i) == Some(&b'-') { i += 1 }
    match b.get(i) {
        Some(b'0') => i += 1,
        Some(b'1'..=b'9') => { while matches!(b.get(i), Some(b'0'..=b'9')) { i += 1 } }
        _ => return false,
    }
    if b.get(i) == Some(&b'.') {
        i += 1;
        let start = i;
        while matches!(b.get(i), Some(b'0'..=b'9')) { i += 1 }
        if i == start { return false }
    }
    if matches!(b.get(i), Some(b'e' | b'E')) {
        i += 1;
        if matches!(b.get(i), Some(b'+' | b'-')) { i += 1 }
        let start = i;
        while matches!(b.get(i), Some(b'0'..=b'9')) { i += 1 }
        if i == start { return false }
    }
    i == b.len()
}

pub fn parse(text: &str) -> Result<JNode, String> {
    let chars: Vec<char> = text.chars().collect();
    let mut p = Parser { s: &chars, pos: 0 };
    p.ws();
    let res = p.value(0)?;
    p.ws();
    if p.pos != chars.len() { return Err(format!("trailing characters at {}", p.pos)) }
    Ok(res)
}

/// Driver protocol: a text as dot-separated decimal code points.
pub fn enc(s: &str) -> String {
    if s.is_empty() { return "_".into() }
    let mut res = String::new();
    for (i, ch) in s.chars().enumerate() {
        if i > 0 { res.push('.') }
        res.push_str(&(ch as u32).to_string());
    }
    res
}

/// Length in code points and checksum, as the driver prints them.
pub fn summary(s: &str) -> String {
    let mut h: u64 = 14695981039346656037;
    let mut n = 0usize;
    for ch in s.chars() {
        h = (h ^ (ch as u64)).wrapping_mul(1099511628211);
        n += 1;
    }
    format!("len={n} h={h}")
}

/// The `JsonBuilder` calls that write the members of an object / the items
/// of an array, as driver tokens (ending with `e`).
pub fn scope_tokens(node: &JNode, out: &mut Vec<String>) {
    match node {
        JNode::Obj(members) => {
            for (key, value) in members {
                match value {
                    JNode::Obj(_) => { out.push("mo".into()); out.push(enc(key)); scope_tokens(value, out) }
                    JNode::Arr(_) => { out.push("ma".into()); out.push(enc(key)); scope_tokens(value, out) }
                    JNode::Str(s) => { out.push("ms".into()); out.push(enc(key)); out.push(enc(s)) }
                    JNode::Raw(s) => { out.push("mr".into()); out.push(enc(key)); out.push(enc(s)) }
                }
            }
        }
        JNode::Arr(items) => {
            for value in items {
                match value {
                    JNode::Obj(_) => { out.push("ao".into()); scope_tokens(value, out) }
                    JNode::Arr(_) => { out.push("aa".into()); scope_tokens(value, out) }
                    JNode::Str(s) => { out.push("as".into()); out.push(enc(s)) }
                    JNode::Raw(s) => { out.push("ar".into()); out.push(enc(s)) }
                }
            }
        }
        _ => { }
    }
    out.push("e".into());
}
