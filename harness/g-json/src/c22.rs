//! C22: status and metrics documents are always well-formed.
//!
//! * `c22b` — the real `JsonBuilder` / `json_str` driven with generated call
//!   trees and hostile strings (every code point 0..=127 in every position
//!   class); model: `Json.build`.
//! * `c22s` — `GET /api/v1/status` through the real dispatcher for metrics
//!   states with hostile log messages, repository URIs and TAL names; the
//!   document is parsed back into the builder calls that wrote it and the
//!   model re-renders them.
//! * `c22m` — `GET /metrics` likewise; exposition-format parser as oracle,
//!   the parsed entries are re-rendered by the model.

use routinator::slurm::LocalExceptions;
use routinator::utils::json::JsonBuilder;
use rvcore::{Ctx, Rng};
use serde_json::{json, Value};
use crate::jtree::{self, enc, summary};
use crate::{mgen, prom, web};

//------------ c22b -----------------------------------------------------------

const RAW_OK: &[&str] = &[
    "0", "-1", "1", "42", "4294967295", "18446744073709551615", "0.000", "1.500",
    "null", "true", "false", "-0", "1e5", "1E+5", "2.5e-3",
];
const RAW_BAD: &[&str] = &["", "inf", "NaN", "01", "1.", ".5", "-", "nul", "\"x\"", "1 2", "+1", "1e", "tru e"];

fn gen_scope(rng: &mut Rng, obj: bool, depth: u64, ill: bool) -> Value {
    let n = match rng.below(6) { 0 => 0, 1 => 1, 2 => 2, _ => rng.below(5) };
    let mut calls = Vec::new();
    for _ in 0..n {
        // an ill-typed tree makes a wrong-kind call or passes a non-literal as raw now and then
        let kind_obj = if ill && rng.chance(1, 4) { !obj } else { obj };
        let raw = |rng: &mut Rng| -> String {
            if ill && rng.chance(1, 3) { rng.pick(RAW_BAD).to_string() } else { rng.pick(RAW_OK).to_string() }
        };
        let nested = depth > 0 && rng.chance(1, 3);
        let call = if kind_obj {
            let key = mgen::label(rng, &["a", "key", "vrpsTotal", "ripe"]);
            if nested {
                if rng.chance(1, 2) { json!(["mo", key, gen_scope(rng, true, depth - 1, ill)]) }
                else { json!(["ma", key, gen_scope(rng, false, depth - 1, ill)]) }
            }
            else if rng.chance(1, 2) { json!(["ms", key, mgen::hostile(rng)]) }
            else { json!(["mr", key, raw(rng)]) }
        }
        else if nested {
            if rng.chance(1, 2) { json!(["ao", gen_scope(rng, true, depth - 1, ill)]) }
            else { json!(["aa", gen_scope(rng, false, depth - 1, ill)]) }
        }
        else if rng.chance(1, 2) { json!(["as", mgen::hostile(rng)]) }
        else { json!(["ar", raw(rng)]) };
        calls.push(call);
    }
    Value::Array(calls)
}

/// Every code point 0..=127 (and a few beyond) in each position class.
fn systematic() -> Vec<Value> {
    let mut res = Vec::new();
    let mut cps: Vec<u32> = (0..128).collect();
    cps.extend([0x80, 0xff, 0x2028, 0xd7ff, 0xe000, 0xfffd, 0x1f980, 0x10ffff]);
    for cp in cps {
        let ch = char::from_u32(cp).unwrap();
        let alone = ch.to_string();
        let mid = format!("a{ch}b");
        let twice = format!("{ch}{ch}");
        res.push(json!({"scope": [["ms", alone, "x"], ["ms", "k", alone], ["ms", "m", mid], ["ms", "t", twice]]}));
        res.push(json!({"scope": [["ma", "list", [["as", alone], ["as", mid]]], ["mo", alone, [["ms", mid, mid]]]]}));
    }
    res
}

fn as_str(v: &Value) -> &str { v.as_str().unwrap_or("") }

fn drive(b: &mut JsonBuilder, calls: &Value) {
    for call in calls.as_array().into_iter().flatten() {
        match as_str(&call[0]) {
            "mo" => b.member_object(as_str(&call[1]), |b| drive(b, &call[2])),
            "ma" => b.member_array(as_str(&call[1]), |b| drive(b, &call[2])),
            "ms" => b.member_str(as_str(&call[1]), as_str(&call[2])),
            "mr" => b.member_raw(as_str(&call[1]), as_str(&call[2])),
            "ao" => b.array_object(|b| drive(b, &call[1])),
            "aa" => b.array_array(|b| drive(b, &call[1])),
            "as" => b.array_str(as_str(&call[1])),
            "ar" => b.array_raw(as_str(&call[1])),
            _ => { }
        }
    }
}

fn tokens(calls: &Value, out: &mut Vec<String>) {
    for call in calls.as_array().into_iter().flatten() {
        let kind = as_str(&call[0]);
        out.push(kind.into());
        match kind {
            "mo" | "ma" => { out.push(enc(as_str(&call[1]))); tokens(&call[2], out) }
            "ms" | "mr" => { out.push(enc(as_str(&call[1]))); out.push(enc(as_str(&call[2]))) }
            "ao" | "aa" => tokens(&call[1], out),
            _ => out.push(enc(as_str(&call[1]))),
        }
    }
    out.push("e".into());
}

fn raw_ok(s: &str) -> bool { s == "null" || s == "true" || s == "false" || jtree::is_number(s) }

/// The contract of the builder: member calls in object scopes, array calls in
/// array scopes, raw values are JSON literals.
fn well_typed(calls: &Value, obj: bool) -> bool {
    calls.as_array().into_iter().flatten().all(|call| match as_str(&call[0]) {
        "mo" => obj && well_typed(&call[2], true),
        "ma" => obj && well_typed(&call[2], false),
        "ms" => obj,
        "mr" => obj && raw_ok(as_str(&call[2])),
        "ao" => !obj && well_typed(&call[1], true),
        "aa" => !obj && well_typed(&call[1], false),
        "as" => !obj,
        "ar" => !obj && raw_ok(as_str(&call[1])),
        _ => false,
    })
}

fn has_special(calls: &Value) -> bool {
    calls.to_string().chars().any(|c| c == '\\')
}

pub fn run_c22b(ctx: &mut Ctx) {
    ctx.rule = "JsonBuilder call trees (depth <= 3, 0..4 calls per scope) with hostile keys and \
        values; one tree in eight is ill-typed on purpose (oracle silent, model must still \
        agree); plus every code point 0..=127 and 8 beyond as key / value / array item, alone, \
        doubled and embedded; non-trivial = well-typed tree with a character json_str must \
        escape; distinct by (calls, escaped characters) signature".into();
    let inputs: Vec<Value> = match ctx.replay_inputs() {
        Some(inputs) => inputs.into_iter().filter(|v| v.get("scope").is_some()).collect(),
        None => {
            let mut res: Vec<Value> = ctx.corpus("C22").into_iter()
                .filter(|v| v.get("scope").is_some()).collect();
            res.extend(systematic());
            let n = ctx.budget(600, 10_000);
            let mut rng = ctx.rng.fork();
            for i in 0..n {
                let ill = i % 8 == 7;
                res.push(json!({"scope": gen_scope(&mut rng, true, 3, ill)}));
            }
            res
        }
    };
    for input in inputs {
        let scope = &input["scope"];
        let text = JsonBuilder::build(|b| drive(b, scope));
        let wt = well_typed(scope, true);
        let parsed = serde_json::from_str::<Value>(&text);
        let mut toks = Vec::new();
        tokens(scope, &mut toks);
        let op = format!("c22b {}", toks.join(" "));
        let imp = format!("{} wt={} json={}", summary(&text), wt as u8, parsed.is_ok() as u8);
        ctx.case(&input, &op, &imp);
        if wt {
            if let Err(err) = parsed {
                ctx.oracle_fail("builder-json-invalid",
                    &format!("JsonBuilder output for a well-typed call tree does not parse: {err}"),
                    &input, json!(text));
            }
            if has_special(scope) || text.contains("\\u00") {
                let esc = text.matches('\\').count().min(6);
                ctx.nontrivial(format!("{}/{}", toks.len().min(40), esc));
            }
            ctx.count("well-typed");
        }
        else { ctx.count("ill-typed") }
    }
}

//------------ c22s / c22m ----------------------------------------------------

fn states(ctx: &mut Ctx, quick: usize, thorough: usize) -> Vec<Value> {
    match ctx.replay_inputs() {
        Some(inputs) => inputs.into_iter().filter(|v| v.get("tals").is_some()).collect(),
        None => {
            let mut res: Vec<Value> = ctx.corpus("C22").into_iter()
                .filter(|v| v.get("tals").is_some()).collect();
            let n = ctx.budget(quick, thorough);
            let mut rng = ctx.rng.fork();
            for i in 0..n {
                res.push(mgen::gen_state(&mut rng, [1, 2, 3, 5][i % 4]));
            }
            res
        }
    }
}

/// Sets up the real server state for a metrics state and requests `path`.
fn fetch(state: &Value, path: &str) -> (u16, String) {
    let secs = state["now"][0].as_u64().unwrap_or(1_700_000_000) as i64;
    let nanos = state["now"][1].as_u64().unwrap_or(0) as i64;
    rvcore::clock::set(secs, nanos);
    let w = web::Web::new(
        state["detailed"].as_bool().unwrap_or(false), state["unsafe"].as_u64().unwrap_or(0)
    );
    mgen::rtr_clients(state, &w.rtr);
    rvcore::clock::set(secs + 3, nanos);
    w.update(&LocalExceptions::empty(), mgen::metrics(state), state["done"].as_bool().unwrap_or(true));
    rvcore::clock::set(secs + 7, nanos / 2);
    let reply = w.get(path);
    (reply.status, String::from_utf8_lossy(&web::body(&reply)).into_owned())
}

fn hostile_count(state: &Value) -> usize {
    state.to_string().chars().filter(|c| *c == '\\').count()
}

pub fn run_c22s(ctx: &mut Ctx) {
    ctx.rule = "metrics states: 0..5 TALs / repositories / rsync modules / RRDP repositories / \
        publication point logs / RTR clients, names and log messages plain or hostile (quotes, \
        backslashes, control characters, non-ASCII), all optional fields both ways; rendered by \
        GET /api/v1/status through the real dispatcher; non-trivial = a hostile character \
        reaches the document; distinct by (sizes, hostile characters) signature".into();
    for state in states(ctx, 300, 3_000) {
        let (status, text) = fetch(&state, "/api/v1/status");
        if status != 200 {
            ctx.oracle_fail("status-not-200", &format!("status {status}"), &state, json!(text));
            ctx.case_oracle_only(&state, &text);
            continue
        }
        match serde_json::from_str::<Value>(&text) {
            Err(err) => {
                ctx.oracle_fail("status-json-invalid",
                    &format!("the /api/v1/status document does not parse: {err}"),
                    &state, json!(text));
                ctx.case_oracle_only(&state, &summary(&text));
            }
            Ok(_) => {
                let op = match jtree::parse(&text) {
                    Ok(tree @ jtree::JNode::Obj(_)) => {
                        let mut toks = Vec::new();
                        jtree::scope_tokens(&tree, &mut toks);
                        format!("c22b {}", toks.join(" "))
                    }
                    _ => "c22b tree-recovery-failed".to_string(),
                };
                ctx.case(&state, &op, &format!("{} wt=1 json=1", summary(&text)));
                let h = hostile_count(&state);
                if h > 0 {
                    ctx.nontrivial(format!("{}/{}/{}", text.len() / 2000, h.min(20),
                        state["tals"].as_array().map(|a| a.len()).unwrap_or(0)));
                }
            }
        }
    }
}

fn entry_tokens(entries: &[prom::Entry]) -> Option<String> {
    let mut out: Vec<String> = Vec::new();
    let short = |name: &str| name.strip_prefix("routinator_").map(enc);
    let mut i = 0;
    while i < entries.len() {
        match &entries[i] {
            prom::Entry::Help { name, text } => {
                // the writer always writes HELP and TYPE together
                match entries.get(i + 1) {
                    Some(prom::Entry::Type { name: tname, mtype }) if tname == name => {
                        if text.contains(['\\', '\n']) { return None }
                        out.extend(["h".into(), "_".into(), short(name)?, enc(text), "_".into(), enc(mtype)]);
                        i += 2;
                        continue
                    }
                    _ => return None
                }
            }
            prom::Entry::Type { .. } => return None,
            prom::Entry::Sample { name, labels: None, value } => {
                out.extend(["s".into(), "_".into(), short(name)?, enc(value)]);
            }
            prom::Entry::Sample { name, labels: Some(labels), value } => {
                out.extend(["m".into(), "_".into(), short(name)?, enc(value), labels.len().to_string()]);
                for (k, v) in labels { out.push(enc(k)); out.push(enc(v)) }
            }
        }
        i += 1;
    }
    Some(out.join(" "))
}

pub fn run_c22m(ctx: &mut Ctx) {
    ctx.rule = "the same metrics states rendered by GET /metrics through the real dispatcher; \
        exposition-format parser (expfmt rules incl. one HELP/TYPE per metric) as oracle; the \
        parsed entries are re-rendered by the model; non-trivial = a hostile character in a \
        TAL name or repository URI; distinct by (sizes, hostile characters) signature".into();
    for state in states(ctx, 300, 3_000) {
        let (status, text) = fetch(&state, "/metrics");
        if status != 200 {
            ctx.oracle_fail("metrics-not-200", &format!("status {status}"), &state, json!(text));
            ctx.case_oracle_only(&state, &text);
            continue
        }
        match prom::parse(&text) {
            Err(err) => {
                ctx.oracle_fail("metrics-exposition-invalid",
                    &format!("the /metrics document is not a valid exposition: {err}"),
                    &state, json!(text));
                ctx.case_oracle_only(&state, &summary(&text));
            }
            Ok(entries) => {
                let op = match entry_tokens(&entries) {
                    Some(toks) => format!("c22p {toks}"),
                    None => "c22p entry-recovery-failed".to_string(),
                };
                ctx.case(&state, &op, &format!("{} ok=1 expo=1", summary(&text)));
                let hostile: usize = state["tals"].as_array().into_iter().flatten()
                    .map(|t| &t["name"]).chain(state["repos"].as_array().into_iter().flatten().map(|t| &t["uri"]))
                    .map(|v| v.to_string().chars().filter(|c| *c == '\\').count()).sum();
                if hostile > 0 {
                    ctx.nontrivial(format!("{}/{}", entries.len() / 50, hostile.min(20)));
                }
            }
        }
    }
}
