//! C22: status and metrics documents.
use rvcore::Ctx;
use serde_json::Value;
use crate::{mgen, web};

pub fn probe(ctx: &mut Ctx) {
    let mut rng = ctx.rng.fork();
    for i in 0..3 {
        let state = mgen::gen_state(&mut rng, 2);
        let w = web::Web::new(state["detailed"].as_bool().unwrap(), state["unsafe"].as_u64().unwrap());
        mgen::rtr_clients(&state, &w.rtr);
        w.update(&routinator::slurm::LocalExceptions::empty(), mgen::metrics(&state), state["done"].as_bool().unwrap());
        let r = w.get("/api/v1/status");
        let body = String::from_utf8(web::body(&r)).unwrap();
        let parsed: Result<Value, _> = serde_json::from_str(&body);
        eprintln!("--- {i} status {} json-ok {:?}", r.status, parsed.as_ref().map(|_| ()).map_err(|e| e.to_string()));
        if i == 0 { eprintln!("{state}"); eprintln!("{body}"); }
        let r = w.get("/metrics");
        let body = String::from_utf8(web::body(&r)).unwrap();
        if i == 0 { eprintln!("{body}"); }
    }
}
