//! C35: `routinator … config` prints a config file that reads back identically.
//!
//! Every case runs the *real* pipeline of `main.rs` twice:
//!
//! 1. `Operation::config_args(Config::config_args(Command))` →
//!    `try_get_matches_from(args)` → `Config::from_arg_matches` (reads the base config
//!    file, applies the global options) → `Operation::from_arg_matches` (applies the
//!    options of the `config` sub-command) → `Config` → `to_string()` (exactly what
//!    `routinator config` prints);
//! 2. the printed text is written to the very config file path and the pipeline runs
//!    again without options → `Config`.
//!
//! Oracle: the second `Config` equals (`==`) the first with `fresh` reset (documented as
//! command-line only).  The Lean model gets the same abstract assignment (options,
//! file entries) and must predict acceptance, the configuration, the printed document
//! and the read-back configuration.

use std::collections::BTreeSet;
use std::ffi::OsString;
use std::net::{IpAddr, SocketAddr};
use std::os::unix::ffi::{OsStrExt, OsStringExt};
use std::path::{Path, PathBuf};
use std::str::FromStr;
use clap::{ArgAction, Command};
use clap::builder::ValueParser;
use routinator::{Config, Operation};
use routinator::config::{FallbackPolicy, FilterPolicy, LogTarget};
use rvcore::{Ctx, Rng};
use serde_json::{json, Value};
use toml_edit as toml;

const I64MAX: u128 = i64::MAX as u128;
const U64MAX: u128 = u64::MAX as u128;

//------------ The real command line -------------------------------------------

fn command() -> Command {
    Operation::config_args(Config::config_args(Command::new("Routinator")))
}

#[derive(Clone, Debug, PartialEq, Eq)]
enum OptKind { Flag, Count, Nat, Str(&'static str) }

#[derive(Clone, Debug)]
struct Opt {
    long: String,
    server: bool,
    kind: OptKind,
    multi: bool,
}

/// The options of the real command (global ones and those of `config`), found by
/// introspection of the clap `Command` — not from the extracted table.
fn catalogue() -> Vec<Opt> {
    let cmd = command();
    let mut res = Vec::new();
    let known: Vec<(&'static str, clap::builder::ValueParser)> = vec![
        ("u8", clap::value_parser!(u8).into()),
        ("u16", clap::value_parser!(u16).into()),
        ("u32", clap::value_parser!(u32).into()),
        ("u64", clap::value_parser!(u64).into()),
        ("usize", clap::value_parser!(usize).into()),
        ("String", ValueParser::string()),
        ("PathBuf", ValueParser::path_buf()),
        ("IpAddr", clap::value_parser!(IpAddr).into()),
        ("SocketAddr", clap::value_parser!(SocketAddr).into()),
        ("FilterPolicy", clap::value_parser!(FilterPolicy).into()),
        ("FallbackPolicy", clap::value_parser!(FallbackPolicy).into()),
    ];
    let sub = cmd.get_subcommands().find(|c| c.get_name() == "config")
        .expect("config sub-command").clone();
    for (server, c) in [(false, &cmd), (true, &sub)] {
        for arg in c.get_arguments() {
            let long = match arg.get_long() { Some(l) => l.to_string(), None => continue };
            if long == "help" || long == "version" || long == "config" { continue }
            let (kind, multi) = match arg.get_action() {
                ArgAction::SetTrue => (OptKind::Flag, false),
                ArgAction::Count => (OptKind::Count, true),
                action @ (ArgAction::Set | ArgAction::Append) => {
                    let id = arg.get_value_parser().type_id();
                    let name = known.iter().find(|(_, vp)| vp.type_id() == id)
                        .map(|(n, _)| *n).unwrap_or("?");
                    let kind = match name {
                        "u8" | "u16" | "u32" | "u64" | "usize" => OptKind::Nat,
                        other => OptKind::Str(other),
                    };
                    (kind, matches!(action, ArgAction::Append))
                }
                _ => continue,
            };
            res.push(Opt { long, server, kind, multi });
        }
    }
    res
}

//------------ File keys ---------------------------------------------------------

#[derive(Clone, Copy, Debug, PartialEq, Eq)]
enum Cat { Raw, Path, Policy, Fallback, Ip, Sock, Level, Facility, LogKind, Tal }

#[derive(Clone, Copy, Debug, PartialEq, Eq)]
enum KeyKind { Bool, Int, Str(Cat), Strs(Cat), Pairs }

fn file_keys() -> Vec<(String, KeyKind)> {
    use KeyKind::*;
    let mut res: Vec<(String, KeyKind)> = Vec::new();
    for k in ["no-rir-tals", "strict", "allow-dubious-hosts", "disable-rsync", "disable-rrdp",
              "enable-bgpsec", "enable-aspa", "dirty", "systemd-listen", "rtr-client-metrics",
              "log-repository-issues"] {
        res.push((k.into(), Bool))
    }
    for k in ["limit-v4-len", "limit-v6-len", "rsync-timeout", "rrdp-fallback-time",
              "rrdp-max-delta-count", "rrdp-max-delta-list-len", "rrdp-timeout",
              "rrdp-read-timeout", "rrdp-connect-timeout", "rrdp-tcp-keepalive",
              "max-object-size", "max-ca-depth", "validation-threads", "refresh",
              "min-refresh", "retry", "expire", "history-size", "rtr-tcp-keepalive"] {
        res.push((k.into(), Int))
    }
    for k in ["repository-dir", "extra-tals-dir", "rtr-tls-key", "rtr-tls-cert", "http-tls-key",
              "http-tls-cert", "pid-file", "working-dir", "chroot", "log-file", "tal-dir"] {
        res.push((k.into(), Str(Cat::Path)))
    }
    for k in ["stale", "unsafe-vrps", "unknown-objects"] { res.push((k.into(), Str(Cat::Policy))) }
    res.push(("rrdp-fallback".into(), Str(Cat::Fallback)));
    res.push(("rrdp-local-addr".into(), Str(Cat::Ip)));
    res.push(("log-level".into(), Str(Cat::Level)));
    res.push(("log".into(), Str(Cat::LogKind)));
    res.push(("syslog-facility".into(), Str(Cat::Facility)));
    for k in ["rsync-command", "user", "group"] { res.push((k.into(), Str(Cat::Raw))) }
    res.push(("tals".into(), Strs(Cat::Tal)));
    res.push(("exceptions".into(), Strs(Cat::Path)));
    res.push(("rsync-args".into(), Strs(Cat::Raw)));
    res.push(("rrdp-root-certs".into(), Strs(Cat::Path)));
    res.push(("rrdp-proxies".into(), Strs(Cat::Raw)));
    for k in ["rtr-listen", "rtr-tls-listen", "http-listen", "http-tls-listen"] {
        res.push((k.into(), Strs(Cat::Sock)))
    }
    res.push(("tal-labels".into(), Pairs));
    // Keys the real `to_toml` prints that are not listed above (new options).
    let dflt = Config::default_with_paths("/x/r.conf".into(), "/x/repo".into()).to_toml();
    for (key, item) in dflt.iter() {
        if res.iter().any(|(k, _)| k == key) { continue }
        let kind = match item.as_value() {
            Some(toml::Value::Boolean(_)) => Bool,
            Some(toml::Value::Integer(_)) => Int,
            Some(toml::Value::String(_)) => Str(Cat::Raw),
            Some(toml::Value::Array(_)) => Strs(Cat::Raw),
            _ => continue,
        };
        res.push((key.to_string(), kind));
    }
    res
}

fn pool(cat: Cat) -> &'static [&'static str] {
    match cat {
        Cat::Raw => &["", "rsync", "a b", "q\"uote", "back\\slash", "new\nline", "tab\there",
                      "\u{fc}n\u{ef}", "\u{65e5}\u{672c}", "-dash", "#hash", "'", "x=y", "[a]",
                      "\u{7f}", "\u{1}ctl", "http://proxy.example:8080/", "--flag"],
        Cat::Path => &["/abs/p", "rel/p", "rel", "/", "/a b/c", "./x", "../y", "/tmp/\u{fc}",
                       "dir/", "//dbl", "/q\"uote", "/back\\slash", ""],
        Cat::Policy => &["reject", "warn", "accept", "Reject", "bogus", ""],
        Cat::Fallback => &["never", "stale", "new", "NEW", "x"],
        Cat::Ip => &["127.0.0.1", "::1", "2001:db8::1", "::ffff:1.2.3.4", "1.2.3", "[::1]",
                     "2001:DB8:0:0::1", "010.1.1.1"],
        Cat::Sock => &["127.0.0.1:323", "[::1]:8323", "[2001:db8::4]:323", "0.0.0.0:0",
                       "[fe80::1%3]:1", "1.2.3.4", "localhost:1", "[2001:DB8::0:4]:00323",
                       "192.0.2.4:65535", "192.0.2.4:65536"],
        Cat::Level => &["warn", "WARN", "Info", "trace", "off", "bogus", "debug", "ERROR"],
        Cat::Facility => &["daemon", "DAEMON", "log_user", "clock_daemon", "local7", "bogus",
                           "kern", "authpriv", "clockdaemon", "LOG_CLOCK_DAEMON", "audit"],
        Cat::LogKind => &["default", "syslog", "stderr", "file", "bogus", "File"],
        Cat::Tal => &["apnic-testbed", "afrinic", "foo", "nlnetlabs-testbed", "a b", ""],
    }
}

const NAT_EDGES: &[u128] = &[
    0, 1, 2, 31, 32, 33, 127, 128, 129, 255, 256, 600, 65534, 65535, 65536,
    (u32::MAX as u128) - 1, u32::MAX as u128, (u32::MAX as u128) + 1,
    I64MAX - 1, I64MAX, I64MAX + 1, U64MAX - 1, U64MAX, U64MAX + 1,
];

//------------ Abstract inputs ------------------------------------------------------

fn opt_cat(o: &Opt) -> Cat {
    match &o.kind {
        OptKind::Str("PathBuf") => Cat::Path,
        OptKind::Str("FilterPolicy") => Cat::Policy,
        OptKind::Str("FallbackPolicy") => Cat::Fallback,
        OptKind::Str("IpAddr") => Cat::Ip,
        OptKind::Str("SocketAddr") => Cat::Sock,
        _ => match o.long.as_str() {
            "syslog-facility" => Cat::Facility,
            "logfile" => Cat::Path,
            "tal" => Cat::Tal,
            _ => Cat::Raw,
        }
    }
}

fn gen_aval(rng: &mut Rng, o: &Opt) -> Value {
    match &o.kind {
        OptKind::Flag => json!("f"),
        OptKind::Count => json!({"c": rng.range(1, 3)}),
        OptKind::Nat => {
            let n = if rng.chance(3, 4) { *rng.pick(NAT_EDGES) } else {
                match rng.below(3) { 0 => rng.below(70000) as u128, 1 => rng.next() as u128, _ => rng.below(300) as u128 }
            };
            json!({"n": n.to_string()})
        }
        OptKind::Str(_) => {
            let cat = opt_cat(o);
            let s = if o.long == "logfile" && rng.chance(1, 4) { "-" } else { *rng.pick(pool(cat)) };
            json!({"s": s})
        }
    }
}

fn gen_fval(rng: &mut Rng, kind: KeyKind) -> Value {
    // occasionally a value of the wrong TOML type
    if rng.chance(1, 25) {
        return match rng.below(5) {
            0 => json!({"b": true}), 1 => json!({"i": "1"}), 2 => json!({"s": "x"}),
            3 => json!({"raw": "1.5"}), _ => json!({"raw": "[1, \"a\"]"}),
        }
    }
    match kind {
        KeyKind::Bool => json!({"b": rng.chance(1, 2)}),
        KeyKind::Int => {
            let n: i128 = if rng.chance(1, 30) { -1 } else if rng.chance(3, 4) {
                let mut v = *rng.pick(NAT_EDGES);
                if v > I64MAX { v = I64MAX }
                v as i128
            } else { rng.below(70000) as i128 };
            json!({"i": n.to_string()})
        }
        KeyKind::Str(cat) => json!({"s": *rng.pick(pool(cat))}),
        KeyKind::Strs(cat) => {
            if cat == Cat::Path && rng.chance(1, 6) { return json!({"s": *rng.pick(pool(cat))}) }
            let n = *rng.pick(&[0usize, 0, 1, 1, 2, 3]);
            let v: Vec<&str> = (0..n).map(|_| *rng.pick(pool(cat))).collect();
            json!({"a": v})
        }
        KeyKind::Pairs => {
            let n = *rng.pick(&[0usize, 1, 2, 3]);
            let keys = ["ripe.tal", "arin.tal", "x", "ripe.tal", ""];
            let v: Vec<[&str; 2]> = (0..n).map(|_| [*rng.pick(&keys), *rng.pick(pool(Cat::Raw))]).collect();
            if rng.chance(1, 12) { json!({"raw": "[[\"a\", \"b\", \"c\"]]"}) } else { json!({"p": v}) }
        }
    }
}

fn gen_base(rng: &mut Rng, keys: &[(String, KeyKind)], max: usize) -> Value {
    let mut entries: Vec<Value> = Vec::new();
    let mut seen = BTreeSet::new();
    if rng.chance(19, 20) {
        let p = if rng.chance(4, 5) { "/var/repo" } else { *rng.pick(pool(Cat::Path)) };
        entries.push(json!(["repository-dir", {"s": p}]));
        seen.insert("repository-dir".to_string());
    }
    let n = rng.below(max as u64 + 1) as usize;
    for _ in 0..n {
        let (k, kind) = rng.pick(keys).clone();
        if !seen.insert(k.clone()) { continue }
        entries.push(json!([k, gen_fval(rng, kind)]));
    }
    if rng.chance(1, 30) { entries.push(json!(["bogus-key", {"b": true}])) }
    rng.shuffle(&mut entries);
    json!({"explicit": rng.chance(1, 2), "entries": entries})
}

fn gen_args(rng: &mut Rng, cat: &[Opt], max: usize) -> Vec<Value> {
    let n = rng.below(max as u64 + 1) as usize;
    let mut res = Vec::new();
    for _ in 0..n {
        let o = rng.pick(cat);
        let reps = if o.multi && o.kind != OptKind::Count && rng.chance(1, 2) { rng.range(1, 3) } else { 1 };
        for _ in 0..reps {
            res.push(json!([format!("--{}", o.long), gen_aval(rng, o)]));
        }
    }
    res
}

//------------ Running the real code ---------------------------------------------------

struct Home { dir: PathBuf }

impl Home {
    fn new() -> Self {
        let dir = std::env::temp_dir().join(format!("rvc35-{}", std::process::id()));
        let _ = std::fs::remove_dir_all(&dir);
        std::fs::create_dir_all(dir.join("etc")).expect("create home");
        std::env::set_var("HOME", &dir);
        Home { dir }
    }
    fn conf_path(&self, explicit: bool) -> PathBuf {
        if explicit { self.dir.join("etc").join("r.conf") } else { self.dir.join(".routinator.conf") }
    }
}

impl Drop for Home {
    fn drop(&mut self) { let _ = std::fs::remove_dir_all(&self.dir); }
}

#[derive(Debug)]
enum Rej { Clap, Config }

fn run_pipeline(args: &[OsString], cur: &Path) -> Result<Config, Rej> {
    let matches = command().try_get_matches_from(args).map_err(|_| Rej::Clap)?;
    let mut config = Config::from_arg_matches(&matches, cur).map_err(|_| Rej::Config)?;
    Operation::from_arg_matches(&matches, cur, &mut config).map_err(|_| Rej::Config)?;
    Ok(config)
}

fn toml_value(v: &Value) -> Option<toml::Item> {
    if let Some(b) = v.get("b").and_then(|b| b.as_bool()) {
        return Some(toml::Item::Value(b.into()))
    }
    if let Some(i) = v.get("i").and_then(|i| i.as_str()) {
        return Some(toml::Item::Value(i.parse::<i64>().ok()?.into()))
    }
    if let Some(s) = v.get("s").and_then(|s| s.as_str()) {
        return Some(toml::Item::Value(s.into()))
    }
    if let Some(a) = v.get("a").and_then(|a| a.as_array()) {
        let arr: toml::Array = a.iter().map(|s| toml::Value::from(s.as_str().unwrap_or(""))).collect();
        return Some(toml::Item::Value(toml::Value::Array(arr)))
    }
    if let Some(p) = v.get("p").and_then(|a| a.as_array()) {
        let arr: toml::Array = p.iter().map(|pair| {
            let inner: toml::Array = pair.as_array().map(|x| x.iter()
                .map(|s| toml::Value::from(s.as_str().unwrap_or(""))).collect()).unwrap_or_default();
            toml::Value::Array(inner)
        }).collect();
        return Some(toml::Item::Value(toml::Value::Array(arr)))
    }
    if let Some(raw) = v.get("raw").and_then(|s| s.as_str()) {
        return raw.parse::<toml::Value>().ok().map(toml::Item::Value)
    }
    None
}

fn file_text(entries: &[Value]) -> Option<String> {
    let mut table = toml::Table::new();
    for e in entries {
        let key = e.get(0)?.as_str()?;
        table.insert(key, toml_value(e.get(1)?)?);
    }
    Some(table.to_string())
}

//------------ Canonical dumps ------------------------------------------------------------

fn hex(bytes: &[u8]) -> String {
    if bytes.is_empty() { return ".".into() }
    let mut s = String::with_capacity(bytes.len() * 2);
    for b in bytes { s.push_str(&format!("{b:02x}")) }
    s
}
fn hs(s: &str) -> String { hex(s.as_bytes()) }
fn hp(p: &Path) -> String { hex(p.as_os_str().as_bytes()) }

fn dump_val(v: &toml::Value) -> String {
    match v {
        toml::Value::Boolean(b) => if *b.value() { "T".into() } else { "F".into() },
        toml::Value::Integer(i) => format!("i{}", i.value()),
        toml::Value::String(s) => format!("s{}", hs(s.value())),
        toml::Value::Array(a) => {
            if a.is_empty() { return "a".into() }
            if a.iter().all(|x| x.is_str()) {
                return format!("a{}", a.iter().map(|x| hs(x.as_str().unwrap()))
                    .collect::<Vec<_>>().join("/"))
            }
            let mut pairs = Vec::new();
            for x in a.iter() {
                match x.as_array() {
                    Some(inner) if inner.len() == 2 && inner.iter().all(|y| y.is_str()) => {
                        pairs.push((inner.get(0).unwrap().as_str().unwrap().to_string(),
                                    inner.get(1).unwrap().as_str().unwrap().to_string()))
                    }
                    _ => return "?".into()
                }
            }
            pairs.sort_by(|a, b| a.0.as_bytes().cmp(b.0.as_bytes()));
            format!("p{}", pairs.iter().map(|(a, b)| format!("{}:{}", hs(a), hs(b)))
                .collect::<Vec<_>>().join("/"))
        }
        _ => "?".into()
    }
}

fn dump_doc(text: &str) -> Option<String> {
    let doc = toml::DocumentMut::from_str(text).ok()?;
    let mut ents: Vec<(Vec<u8>, String)> = doc.iter().map(|(k, item)| {
        (k.as_bytes().to_vec(), match item.as_value() { Some(v) => dump_val(v), None => "?".into() })
    }).collect();
    ents.sort();
    Some(ents.iter().map(|(k, v)| format!("{}~{}", hex(k), v)).collect::<Vec<_>>().join(";"))
}

fn dump_input_val(v: &Value) -> String {
    match toml_value(v) {
        Some(toml::Item::Value(v)) => dump_val(&v),
        _ => "?".into()
    }
}

fn facility_name<T: std::fmt::Debug>(f: &T) -> String {
    let s = format!("{f:?}").to_lowercase();
    s.strip_prefix("log_").unwrap_or(&s).to_string()
}

/// Field name → canonical value, for every field this harness knows.
fn dump_config(c: &Config) -> Vec<(&'static str, String)> {
    fn b(x: bool) -> String { if x { "T".into() } else { "F".into() } }
    fn n<T: std::fmt::Display>(x: T) -> String { format!("n{x}") }
    fn on<T: std::fmt::Display>(x: Option<T>) -> String { x.map(|v| format!("n{v}")).unwrap_or("-".into()) }
    fn s(x: &str) -> String { format!("s{}", hs(x)) }
    fn os(x: &Option<String>) -> String { x.as_ref().map(|v| s(v)).unwrap_or("-".into()) }
    fn p(x: &Path) -> String { format!("s{}", hp(x)) }
    fn op(x: &Option<PathBuf>) -> String { x.as_ref().map(|v| p(v)).unwrap_or("-".into()) }
    fn d<T: std::fmt::Display>(x: &T) -> String { s(&x.to_string()) }
    fn arr(x: Vec<String>) -> String { format!("a{}", x.join("/")) }
    fn secs(x: std::time::Duration) -> String { n(x.as_secs()) }
    fn osecs(x: Option<std::time::Duration>) -> String { on(x.map(|v| v.as_secs())) }
    let mut labels: Vec<(&String, &String)> = c.tal_labels.iter().collect();
    labels.sort_by(|a, b| a.0.as_bytes().cmp(b.0.as_bytes()));
    vec![
        ("config_file", p(&c.config_file)),
        ("cache_dir", p(&c.cache_dir)),
        ("no_rir_tals", b(c.no_rir_tals)),
        ("bundled_tals", arr(c.bundled_tals.iter().map(|x| hs(x)).collect())),
        ("extra_tals_dir", op(&c.extra_tals_dir)),
        ("exceptions", arr(c.exceptions.iter().map(|x| hp(x)).collect())),
        ("strict", b(c.strict)),
        ("stale", d(&c.stale)),
        ("unsafe_vrps", d(&c.unsafe_vrps)),
        ("unknown_objects", d(&c.unknown_objects)),
        ("limit_v4_len", on(c.limit_v4_len)),
        ("limit_v6_len", on(c.limit_v6_len)),
        ("allow_dubious_hosts", b(c.allow_dubious_hosts)),
        ("fresh", b(c.fresh)),
        ("disable_rsync", b(c.disable_rsync)),
        ("rsync_command", s(&c.rsync_command)),
        ("rsync_args", c.rsync_args.as_ref().map(|v| arr(v.iter().map(|x| hs(x)).collect())).unwrap_or("-".into())),
        ("rsync_timeout", osecs(c.rsync_timeout)),
        ("disable_rrdp", b(c.disable_rrdp)),
        ("rrdp_fallback", d(&c.rrdp_fallback)),
        ("rrdp_fallback_time", secs(c.rrdp_fallback_time)),
        ("rrdp_max_delta_count", n(c.rrdp_max_delta_count)),
        ("rrdp_max_delta_list_len", n(c.rrdp_max_delta_list_len)),
        ("rrdp_timeout", osecs(c.rrdp_timeout)),
        ("rrdp_read_timeout", osecs(c.rrdp_read_timeout)),
        ("rrdp_connect_timeout", osecs(c.rrdp_connect_timeout)),
        ("rrdp_tcp_keepalive", osecs(c.rrdp_tcp_keepalive)),
        ("rrdp_local_addr", c.rrdp_local_addr.map(|a| d(&a)).unwrap_or("-".into())),
        ("rrdp_root_certs", arr(c.rrdp_root_certs.iter().map(|x| hp(x)).collect())),
        ("rrdp_proxies", arr(c.rrdp_proxies.iter().map(|x| hs(x)).collect())),
        ("rrdp_user_agent", s(&c.rrdp_user_agent)),
        ("max_object_size", on(c.max_object_size)),
        ("max_ca_depth", n(c.max_ca_depth)),
        ("enable_bgpsec", b(c.enable_bgpsec)),
        ("enable_aspa", b(c.enable_aspa)),
        ("dirty_repository", b(c.dirty_repository)),
        ("validation_threads", n(c.validation_threads)),
        ("refresh", secs(c.refresh)),
        ("min_refresh", osecs(c.min_refresh)),
        ("retry", secs(c.retry)),
        ("expire", secs(c.expire)),
        ("history_size", n(c.history_size)),
        ("rtr_listen", arr(c.rtr_listen.iter().map(|x| hs(&x.to_string())).collect())),
        ("rtr_tls_listen", arr(c.rtr_tls_listen.iter().map(|x| hs(&x.to_string())).collect())),
        ("http_listen", arr(c.http_listen.iter().map(|x| hs(&x.to_string())).collect())),
        ("http_tls_listen", arr(c.http_tls_listen.iter().map(|x| hs(&x.to_string())).collect())),
        ("systemd_listen", b(c.systemd_listen)),
        ("rtr_tcp_keepalive", osecs(c.rtr_tcp_keepalive)),
        ("rtr_client_metrics", b(c.rtr_client_metrics)),
        ("rtr_tls_key", op(&c.rtr_tls_key)),
        ("rtr_tls_cert", op(&c.rtr_tls_cert)),
        ("http_tls_key", op(&c.http_tls_key)),
        ("http_tls_cert", op(&c.http_tls_cert)),
        ("log_level", d(&c.log_level)),
        ("log_target", match &c.log_target {
            LogTarget::Default(f) => format!("Ld:{}", hs(&facility_name(f))),
            LogTarget::Syslog(f) => format!("Ly:{}", hs(&facility_name(f))),
            LogTarget::Stderr => "Le:.".into(),
            LogTarget::File(path) => format!("Lf:{}", hp(path)),
        }),
        ("log_repository_issues", b(c.log_repository_issues)),
        ("pid_file", op(&c.pid_file)),
        ("working_dir", op(&c.working_dir)),
        ("chroot", op(&c.chroot)),
        ("user", os(&c.user)),
        ("group", os(&c.group)),
        ("tal_labels", format!("p{}", labels.iter().map(|(a, b)| format!("{}:{}", hs(a), hs(b)))
            .collect::<Vec<_>>().join("/"))),
    ]
}

fn show_dump(d: &[(&'static str, String)]) -> String {
    d.iter().map(|(k, v)| format!("{k}:{v}")).collect::<Vec<_>>().join(",")
}

/// field → config file key (for failure classes only).
fn field_key(field: &str) -> String {
    match field {
        "cache_dir" => "repository-dir".into(),
        "bundled_tals" => "tals".into(),
        "dirty_repository" => "dirty".into(),
        "log_target" => "log".into(),
        other => other.replace('_', "-"),
    }
}

//------------ One case ---------------------------------------------------------------------

struct Outcome {
    /// The canonical line (compared with the model), or None for oracle-only cases.
    line: String,
    failures: Vec<(String, String)>,
    signature: String,
}

fn arg_strings(input: &Value) -> Vec<String> {
    let mut res = Vec::new();
    for a in input["args"].as_array().into_iter().flatten() {
        if let Some(s) = a[1].get("s").and_then(|s| s.as_str()) { res.push(s.to_string()) }
    }
    if let Some(base) = input.get("base").filter(|b| !b.is_null()) {
        for e in base["entries"].as_array().into_iter().flatten() {
            if let Some(s) = e[1].get("s").and_then(|s| s.as_str()) { res.push(s.to_string()) }
            for s in e[1].get("a").and_then(|a| a.as_array()).into_iter().flatten() {
                if let Some(s) = s.as_str() { res.push(s.to_string()) }
            }
        }
    }
    res
}

fn canon_entries(input: &Value) -> String {
    let mut strings: BTreeSet<String> = arg_strings(input).into_iter().collect();
    for s in ["WARN", "DEBUG", "INFO", "OFF", "ERROR"] { strings.insert(s.into()); }
    // the printed (canonical) forms are parsed again when the file is read back
    for s in strings.clone() {
        if let Ok(v) = log::LevelFilter::from_str(&s) { strings.insert(v.to_string()); }
        if let Ok(v) = IpAddr::from_str(&s) { strings.insert(v.to_string()); }
        if let Ok(v) = SocketAddr::from_str(&s) { strings.insert(v.to_string()); }
    }
    let mut ents = Vec::new();
    for s in &strings {
        let lv = log::LevelFilter::from_str(s).ok().map(|v| v.to_string());
        let ip = IpAddr::from_str(s).ok().map(|v| v.to_string());
        let so = SocketAddr::from_str(s).ok().map(|v| v.to_string());
        for (ty, out) in [("LevelFilter", lv), ("IpAddr", ip), ("SocketAddr", so)] {
            // rejections are the default of the driver's table
            if let Some(out) = out { ents.push(format!("{}~{}~{}", hs(ty), hs(s), hs(&out))) }
        }
    }
    if ents.is_empty() { "-".into() } else { ents.join(";") }
}

/// Is every string of the input valid for the model (no raw byte paths)?
fn has_raw_bytes(input: &Value) -> bool {
    input["args"].as_array().into_iter().flatten().any(|a| a[1].get("bytes").is_some())
}

fn build_argv(input: &Value, cat: &[Opt], conf: Option<&Path>) -> Option<Vec<OsString>> {
    let mut global: Vec<OsString> = Vec::new();
    let mut server: Vec<OsString> = Vec::new();
    for a in input["args"].as_array().into_iter().flatten() {
        let opt = a[0].as_str()?;
        let info = cat.iter().find(|o| format!("--{}", o.long) == opt)?;
        let out = if info.server { &mut server } else { &mut global };
        let v = &a[1];
        if v.as_str() == Some("f") {
            out.push(opt.into());
        } else if let Some(n) = v.get("c").and_then(|c| c.as_u64()) {
            for _ in 0..n { out.push(opt.into()) }
        } else if let Some(n) = v.get("n").and_then(|n| n.as_str()) {
            out.push(format!("{opt}={n}").into());
        } else if let Some(s) = v.get("s").and_then(|s| s.as_str()) {
            out.push(format!("{opt}={s}").into());
        } else if let Some(b) = v.get("bytes").and_then(|b| b.as_array()) {
            let mut bytes = format!("{opt}=").into_bytes();
            bytes.extend(b.iter().map(|x| x.as_u64().unwrap_or(0) as u8));
            out.push(OsString::from_vec(bytes));
        } else { return None }
    }
    let mut argv: Vec<OsString> = vec!["routinator".into()];
    if let Some(conf) = conf { argv.push("-c".into()); argv.push(conf.into()); }
    argv.extend(global);
    argv.push("config".into());
    argv.extend(server);
    Some(argv)
}

fn op_aval(v: &Value) -> Option<String> {
    if v.as_str() == Some("f") { return Some("f".into()) }
    if let Some(n) = v.get("c").and_then(|c| c.as_u64()) { return Some(format!("c{n}")) }
    if let Some(n) = v.get("n").and_then(|n| n.as_str()) { return Some(format!("n{n}")) }
    if let Some(s) = v.get("s").and_then(|s| s.as_str()) { return Some(format!("s{}", hs(s))) }
    None
}

fn run_case(input: &Value, home: &Home, cat: &[Opt], vt: usize, ua: &str) -> Option<(String, Outcome)> {
    let cur = Path::new("/cur");
    let base = input.get("base").filter(|b| !b.is_null());
    let explicit = base.map(|b| b["explicit"].as_bool().unwrap_or(false)).unwrap_or(false);
    let conf = home.conf_path(explicit);
    let _ = std::fs::remove_file(home.conf_path(true));
    let _ = std::fs::remove_file(home.conf_path(false));
    let conf_arg = if explicit { Some(conf.as_path()) } else { None };

    // --- op line for the model
    let file_part = match base {
        None => "-".to_string(),
        Some(b) => format!("+{}", b["entries"].as_array()?.iter().map(|e| {
            Some(format!("{}~{}", hs(e[0].as_str()?), dump_input_val(&e[1])))
        }).collect::<Option<Vec<_>>>()?.join(";")),
    };
    let args_part = {
        let v = input["args"].as_array()?.iter().map(|a| {
            Some(format!("{}~{}", hs(a[0].as_str()?), op_aval(&a[1])?))
        }).collect::<Option<Vec<_>>>();
        match v { Some(v) if v.is_empty() => "-".to_string(), Some(v) => v.join(";"), None => "?".to_string() }
    };
    let fields: Vec<&'static str> = dump_config(&Config::default_with_paths("/x".into(), "/y".into()))
        .iter().map(|(k, _)| *k).collect();
    let op = format!(
        "c35 cur={} path={} dir={} home={} vt={} ua={} fields={} canon={} file={} args={}",
        hp(cur), hp(&conf), hp(conf.parent().unwrap()), hp(&home.dir), vt, hs(ua),
        fields.join(","), canon_entries(input), file_part, args_part
    );

    // --- the real code
    if let Some(b) = base {
        let text = file_text(b["entries"].as_array()?)?;
        std::fs::write(&conf, text).ok()?;
    }
    let argv = build_argv(input, cat, conf_arg)?;
    let mut failures = Vec::new();
    let first = run_pipeline(&argv, cur);
    let c1 = match first {
        Err(Rej::Clap) => {
            return Some((op, Outcome { line: "rej:clap".into(), failures, signature: "rej:clap".into() }))
        }
        Err(Rej::Config) => {
            // the file alone, or the options?
            let alone = if base.is_some() {
                run_pipeline(&build_argv(&json!({"args": []}), cat, conf_arg)?, cur).is_ok()
            } else { true };
            let line = if alone { "rej:apply" } else { "rej:file" };
            return Some((op, Outcome { line: line.into(), failures, signature: line.into() }))
        }
        Ok(c) => c,
    };
    let text = c1.to_string();
    let d1 = dump_config(&c1);
    let toml_dump = dump_doc(&text);
    std::fs::write(&conf, &text).ok()?;
    let back_argv = build_argv(&json!({"args": []}), cat, conf_arg)?;
    let second = run_pipeline(&back_argv, cur);
    let mut expect = c1.clone();
    expect.fresh = false; // documented: "This option is only available on command line."
    let same = matches!(&second, Ok(c2) if *c2 == expect);
    let back = match &second { Ok(c2) => show_dump(&dump_config(c2)), Err(_) => "rej".into() };
    let line = format!(
        "ok eg=1 cfg={} toml={} back={} same={}",
        show_dump(&d1), toml_dump.clone().unwrap_or("unparsable".into()), back, if same { 1 } else { 0 }
    );

    // --- oracle
    let big = |v: &str| v.strip_prefix('n').and_then(|n| n.parse::<u128>().ok()).map(|n| n > I64MAX).unwrap_or(false);
    if !same {
        let printed: BTreeSet<String> = toml::DocumentMut::from_str(&text).ok()
            .map(|d| d.iter().map(|(k, _)| k.to_string()).collect()).unwrap_or_default();
        let raw_fields: BTreeSet<String> = input["args"].as_array().into_iter().flatten()
            .filter(|a| a[1].get("bytes").is_some())
            .map(|a| a[0].as_str().unwrap_or("").trim_start_matches("--").replace('-', "_")).collect();
        match &second {
            Ok(c2) => {
                let d2 = dump_config(c2);
                let dflt = dump_config(&Config::default());
                let mut found = false;
                for (((k, v1), (_, v2)), (_, v0)) in d1.iter().zip(d2.iter()).zip(dflt.iter()) {
                    if *k == "fresh" || v1 == v2 { continue }
                    found = true;
                    let class = if big(v1) { format!("int-above-i64max:{}", field_key(k)) }
                        else if !raw_fields.is_empty() && String::from_utf8(unhex(v1)).is_err() {
                            format!("path-not-utf8:{}", field_key(k))
                        }
                        else if !printed.contains(&field_key(k)) && v1 != v0 { format!("key-not-printed:{}", field_key(k)) }
                        else { format!("field-differs:{k}") };
                    failures.push((class, format!("{k}: {v1} printed and read back as {v2}")));
                }
                if !found {
                    // a field this harness has no dump for (an option added later)
                    let bigs: Vec<String> = input["args"].as_array().into_iter().flatten()
                        .filter(|a| a[1].get("n").and_then(|n| n.as_str())
                            .and_then(|n| n.parse::<u128>().ok()).map(|n| n > I64MAX).unwrap_or(false))
                        .map(|a| a[0].as_str().unwrap_or("").trim_start_matches("--").to_string()).collect();
                    if bigs.is_empty() {
                        failures.push(("config-differs:unlisted-field".into(),
                            "read-back Config != original in a field unknown to the harness".into()));
                    }
                    for o in bigs {
                        failures.push((format!("int-above-i64max:{o}"),
                            format!("--{o} above i64::MAX: read-back Config != original")));
                    }
                }
            }
            Err(_) => {
                // which printed key is refused?
                let mut culprits = Vec::new();
                if let Ok(doc) = toml::DocumentMut::from_str(&text) {
                    for (key, _) in doc.iter() {
                        let mut smaller = doc.clone();
                        smaller.remove(key);
                        if std::fs::write(&conf, smaller.to_string()).is_ok()
                            && run_pipeline(&back_argv, cur).is_ok()
                        {
                            culprits.push(key.to_string())
                        }
                    }
                    let _ = std::fs::write(&conf, &text);
                }
                else {
                    failures.push(("print-unparsable".into(), "printed text is not TOML".into()));
                }
                if culprits.is_empty() && toml_dump.is_some() {
                    failures.push(("readback-reject:multiple".into(),
                        "printed config is rejected (no single key responsible)".into()));
                }
                for key in culprits {
                    let field = key.replace('-', "_");
                    let v1 = d1.iter().find(|(k, _)| field_key(k) == key).map(|(_, v)| v.clone()).unwrap_or_default();
                    let class = if big(&v1) { format!("int-above-i64max:{key}") }
                        else if v1.starts_with('n') { format!("range-mismatch:{key}") }
                        else { format!("readback-reject:{key}") };
                    failures.push((class, format!("{field}={v1}: printed value of '{key}' is refused by the reader")));
                }
            }
        }
    }
    let n_args = input["args"].as_array().map(|a| a.len()).unwrap_or(0);
    let signature = format!("ok:{}:{}:{}", if base.is_some() { "file" } else { "dflt" }, n_args.min(4), same);
    Some((op, Outcome { line, failures, signature }))
}

fn unhex(v: &str) -> Vec<u8> {
    let v = v.trim_start_matches(|c: char| !c.is_ascii_hexdigit() || c.is_ascii_uppercase());
    let v = if v.len() > 1 && v.as_bytes()[0] == b's' { &v[1..] } else { v };
    (0..v.len() / 2).filter_map(|i| u8::from_str_radix(v.get(2 * i..2 * i + 2)?, 16).ok()).collect()
}

//------------ Component -----------------------------------------------------------------------

pub fn run_c35(ctx: &mut Ctx) {
    let home = Home::new();
    let cat = catalogue();
    let keys = file_keys();
    let dflt = Config::default();
    let vt = dflt.validation_threads;
    let ua = dflt.rrdp_user_agent.clone();
    ctx.rule = "options found by introspection of the real clap Command (global + `config` \
        sub-command), each alone at every range edge (0,1,32/33,128/129,255/256,65535/65536,\
        u32::MAX±1,i64::MAX±1,u64::MAX±1) / every pool string, each config-file key alone with \
        edge values, then random combinations of up to 8 options over an optional base file of \
        up to 10 keys; non-trivial = accepted by clap and the file reader; distinct = \
        (base kind, #options, outcome)".into();
    ctx.extra("options", json!(cat.iter().map(|o| format!("--{}", o.long)).collect::<Vec<_>>()));

    let mut inputs: Vec<Value> = Vec::new();
    if let Some(replay) = ctx.replay_inputs() {
        inputs = replay;
    } else {
        inputs.extend(ctx.corpus("C35"));
        let mut rng = ctx.rng.fork();
        // (a) every option alone, at every edge
        inputs.push(json!({"base": null, "args": []}));
        for o in &cat {
            let opt = format!("--{}", o.long);
            match &o.kind {
                OptKind::Flag => inputs.push(json!({"base": null, "args": [[opt, "f"]]})),
                OptKind::Count => for n in 1..=3 {
                    inputs.push(json!({"base": null, "args": [[opt, {"c": n}]]}))
                },
                OptKind::Nat => for n in NAT_EDGES {
                    if ctx.quick() && !ctx.search && rng.chance(1, 3) { continue }
                    inputs.push(json!({"base": null, "args": [[opt, {"n": n.to_string()}]]}))
                },
                OptKind::Str(_) => for s in pool(opt_cat(o)) {
                    if o.multi {
                        inputs.push(json!({"base": null, "args": [[opt, {"s": s}], [opt, {"s": "rsync"}]]}))
                    }
                    inputs.push(json!({"base": null, "args": [[opt, {"s": s}]]}))
                },
            }
        }
        inputs.push(json!({"base": null, "args": [["--logfile", {"s": "-"}]]}));
        inputs.push(json!({"base": null, "args": [["--syslog", "f"], ["--syslog-facility", {"s": "clock_daemon"}]]}));
        inputs.push(json!({"base": null, "args": [["--syslog", "f"], ["--logfile", {"s": "x.log"}]]}));
        inputs.push(json!({"base": null, "args": [["--verbose", {"c": 1}], ["--quiet", {"c": 1}]]}));
        inputs.push(json!({"base": null, "args": [["--strict", "f"], ["--strict", "f"]]}));
        // (b) every file key alone
        for (k, kind) in &keys {
            let reps = match kind { KeyKind::Bool => 2, KeyKind::Int => 10, _ => 6 };
            for _ in 0..reps {
                let v = gen_fval(&mut rng, *kind);
                let entries = if k == "repository-dir" { json!([[k, v]]) }
                    else { json!([["repository-dir", {"s": "/var/repo"}], [k, v]]) };
                inputs.push(json!({"base": {"explicit": rng.chance(1, 2), "entries": entries}, "args": []}));
            }
        }
        // every syslog facility through the file
        for f in pool(Cat::Facility) {
            for l in ["default", "syslog"] {
                inputs.push(json!({"base": {"explicit": false, "entries":
                    [["repository-dir", {"s": "repo"}], ["log", {"s": l}], ["syslog-facility", {"s": f}]]}, "args": []}));
            }
        }
        // (c) random combinations
        let n = ctx.budget(1500, 60000);
        for i in 0..n {
            let base = if i % 3 == 0 { Value::Null } else { gen_base(&mut rng, &keys, 10) };
            let args = gen_args(&mut rng, &cat, if i % 5 == 0 { 2 } else { 8 });
            inputs.push(json!({"base": base, "args": args}));
        }
        // (d) paths that are not UTF-8 (oracle only: the model's strings are printed verbatim)
        for o in cat.iter().filter(|o| o.kind == OptKind::Str("PathBuf")) {
            inputs.push(json!({"base": null, "args": [[format!("--{}", o.long), {"bytes": [47, 116, 109, 112, 47, 255, 120]}]]}));
        }
    }

    for input in inputs {
        let oracle_only = has_raw_bytes(&input);
        match run_case(&input, &home, &cat, vt, &ua) {
            None => { ctx.count("bad-input"); continue }
            Some((op, out)) => {
                if oracle_only { ctx.case_oracle_only(&input, &out.line) }
                else { ctx.case(&input, &op, &out.line) }
                ctx.count(out.signature.split(':').next().unwrap_or("?"));
                if out.line.starts_with("rej:") { ctx.count(&out.line) }
                if out.line.starts_with("ok") { ctx.nontrivial(out.signature.clone()) }
                for (class, reason) in out.failures {
                    ctx.oracle_fail(&class, &reason, &input, json!({"impl": out.line}));
                }
            }
        }
    }
}
