use std::path::Path;
use clap::Command;
use routinator::{Config, Operation};
use rvcore::Ctx;

fn cmd() -> Command {
    Operation::config_args(Config::config_args(Command::new("Routinator")))
}

fn load(args: &[&str], cur: &Path) -> Result<Config, String> {
    let m = cmd().try_get_matches_from(args).map_err(|e| format!("clap:{:?}", e.kind()))?;
    let mut c = Config::from_arg_matches(&m, cur).map_err(|_| "config".to_string())?;
    Operation::from_arg_matches(&m, cur, &mut c).map_err(|_| "op".to_string())?;
    Ok(c)
}

pub fn run_c35(_ctx: &mut Ctx) {
    let home = std::env::temp_dir().join(format!("rvc-{}", std::process::id()));
    std::fs::create_dir_all(&home).unwrap();
    std::env::set_var("HOME", &home);
    let cur = Path::new("/cur");
    for extra in [
        vec![], vec!["--no-rir-tals"], vec!["--tal=foo"], vec!["config", "--history=65536"],
        vec!["--validation-threads=65536"], vec!["config", "--refresh=9223372036854775808"],
        vec!["--syslog", "--syslog-facility=clock_daemon"], vec!["--fresh"],
        vec!["--strict", "--strict"], vec!["-v", "-q"], vec!["--rsync-timeout=18446744073709551616"],
        vec!["-vvv"], vec!["--logfile=-"], vec!["--logfile=x.log"], vec!["-r", ""],
    ] {
        let _ = std::fs::remove_file(home.join(".routinator.conf"));
        let mut args = vec!["routinator"];
        args.extend(extra.iter().cloned());
        if !args.contains(&"config") { args.push("config"); }
        let c = match load(&args, cur) { Ok(c) => c, Err(e) => { println!("{args:?}: reject {e}"); continue } };
        let text = c.to_string();
        std::fs::write(home.join(".routinator.conf"), &text).unwrap();
        match load(&["routinator", "config"], cur) {
            Ok(d) => println!("{args:?}: same={} ", c == d),
            Err(e) => println!("{args:?}: readback reject {e}"),
        }
    }
}
