//! Group "config": C35.
mod config;

fn run(name: &str, ctx: &mut rvcore::Ctx) -> bool {
    match name {
        "c35" => config::run_c35(ctx),
        _ => return false
    }
    true
}

fn main() { rvcore::main_with(run, rvcore::no_special) }
