//! C26: `routinator::utils::archive::{Archive, AppendArchive}` against the
//! layout-level Lean model.
//!
//! One case = one operation sequence on a fresh archive file. After every
//! operation the real file is read back and parsed *by this harness*
//! (sequential walk over the block headers, all bucket chains, the empties
//! chain) — the archive's own code is not used for the dump — and rendered
//! in the model's vocabulary; `verify()`, `objects()` and `fetch()` are
//! called as well. The oracle is independent of the model: a reference
//! `BTreeMap`, `verify()` ok, tiling of the file, and agreement between index
//! chains and blocks.

use std::collections::{BTreeMap, BTreeSet};
use std::hash::Hasher;
use std::io::{Seek, SeekFrom, Write};
use std::panic::AssertUnwindSafe;
use std::path::{Path, PathBuf};
use routinator::utils::archive::{
    AccessError, AppendArchive, Archive, ArchiveError, FetchError,
    ObjectMeta, PublishError, StorageRead, StorageWrite,
};
use serde_json::{json, Value};
use siphasher::sip::SipHasher24;
use rvcore::{Ctx, Rng};

const MAGIC: usize = 6;
const KEY_LEN: usize = 16;
const NB: u64 = 1024;
const INDEX_START: usize = MAGIC + KEY_LEN + 8;
const IDX_END: u64 = (INDEX_START + 8 * (NB as usize + 1)) as u64;
const HDR: usize = 33;
const PAGE: usize = 256;


//------------ Meta ----------------------------------------------------------

/// Fixed-size meta data of `N` arbitrary bytes.
pub struct M<const N: usize>(pub Vec<u8>);

impl<const N: usize> ObjectMeta for M<N> {
    const SIZE: usize = N;
    type ConsistencyError = ();

    fn write(&self, write: &mut StorageWrite) -> Result<(), ArchiveError> {
        assert_eq!(self.0.len(), N);
        write.write(&self.0)
    }

    fn read(read: &mut StorageRead) -> Result<Self, ArchiveError> {
        Ok(M(read.read_slice(N)?.into_owned()))
    }
}


//------------ Tokens --------------------------------------------------------

fn hex(b: &[u8]) -> String {
    if b.is_empty() { return "-".into() }
    b.iter().map(|x| format!("{x:02x}")).collect()
}

fn unhex(s: &str) -> Option<Vec<u8>> {
    if s == "-" { return Some(Vec::new()) }
    if s.is_empty() || s.len() % 2 != 0 { return None }
    (0..s.len() / 2).map(|i| u8::from_str_radix(&s[2 * i..2 * i + 2], 16).ok()).collect()
}

fn pattern(len: usize, b: u8) -> Vec<u8> {
    (0..len).map(|j| ((b as usize + j) % 251) as u8).collect()
}

fn show_data(d: &[u8]) -> String {
    let b = d.first().copied().unwrap_or(0);
    if d == pattern(d.len(), b).as_slice() { format!("{}.{}", d.len(), b) }
    else { format!("x{}", hex(d)) }
}

fn parse_data(s: &str) -> Option<Vec<u8>> {
    let (l, b) = s.split_once('.')?;
    Some(pattern(l.parse().ok()?, b.parse().ok()?))
}

/// `None` = the check always passes, `Some(e)` = passes iff stored meta == e.
type Exp = Option<Vec<u8>>;

fn parse_exp(s: &str) -> Option<Exp> {
    if s == "*" { Some(None) } else { unhex(s).map(Some) }
}

#[derive(Clone, Debug)]
enum Tok {
    A { i: usize, meta: Vec<u8>, data: Vec<u8> },
    Z,
    P { i: usize, meta: Vec<u8>, data: Vec<u8> },
    U { i: usize, meta: Vec<u8>, data: Vec<u8>, exp: Exp },
    D { i: usize, exp: Exp },
    F { i: usize },
    G { i: usize, exp: Exp },
    R,
}

/// The token text of an operation (for failure messages).
fn desc(tok: &Tok) -> String {
    let e = |exp: &Exp| match exp { None => "*".to_string(), Some(m) => hex(m) };
    match tok {
        Tok::A { i, meta, data } => format!("A,{i},{},{}", hex(meta), show_data(data)),
        Tok::Z => "Z".into(),
        Tok::P { i, meta, data } => format!("P,{i},{},{}", hex(meta), show_data(data)),
        Tok::U { i, meta, data, exp } => format!("U,{i},{},{},{}", hex(meta), show_data(data), e(exp)),
        Tok::D { i, exp } => format!("D,{i},{}", e(exp)),
        Tok::F { i } => format!("F,{i}"),
        Tok::G { i, exp } => format!("G,{i},{}", e(exp)),
        Tok::R => "R".into(),
    }
}

fn parse_tok(s: &str) -> Option<Tok> {
    let f: Vec<&str> = s.split(',').collect();
    Some(match f.as_slice() {
        ["A", i, m, d] => Tok::A { i: i.parse().ok()?, meta: unhex(m)?, data: parse_data(d)? },
        ["Z"] => Tok::Z,
        ["P", i, m, d] => Tok::P { i: i.parse().ok()?, meta: unhex(m)?, data: parse_data(d)? },
        ["U", i, m, d, e] => Tok::U {
            i: i.parse().ok()?, meta: unhex(m)?, data: parse_data(d)?, exp: parse_exp(e)?
        },
        ["D", i, e] => Tok::D { i: i.parse().ok()?, exp: parse_exp(e)? },
        ["F", i] => Tok::F { i: i.parse().ok()? },
        ["G", i, e] => Tok::G { i: i.parse().ok()?, exp: parse_exp(e)? },
        ["R"] => Tok::R,
        _ => return None
    })
}


//------------ Names ---------------------------------------------------------

/// The bucket of a name: the same computation (same library) as
/// `ArchiveMeta::hash_name`; every dump re-checks it against where the real
/// code actually linked the object.
fn bucket(key: &[u8; 16], name: &[u8]) -> u64 {
    let mut hasher = SipHasher24::new_with_key(key);
    hasher.write(name);
    hasher.finish() % NB
}

fn candidate(len: usize, mut i: u64) -> Vec<u8> {
    // little-endian base 255 digits shifted by one, so that there is variety
    // without being dominated by zero bytes
    let mut res = vec![0u8; len];
    for slot in res.iter_mut() {
        *slot = (i % 255) as u8 + 1;
        i /= 255;
    }
    res
}

/// Resolves abstract names `(group, len)` to concrete names for `key`: names
/// of the same group share a bucket, different groups use different buckets
/// (best effort for lengths 0 and 1 where there are too few candidates).
fn resolve_names(key: &[u8; 16], specs: &[(u64, usize)]) -> Vec<Vec<u8>> {
    let mut group_bucket: BTreeMap<u64, u64> = BTreeMap::new();
    let mut used: BTreeSet<Vec<u8>> = BTreeSet::new();
    let mut res = Vec::new();
    for &(group, len) in specs {
        let limit: u64 = match len { 0 => 1, 1 => 255, 2 => 65025, _ => 400_000 };
        let mut fallback = None;
        let mut found = None;
        for i in 0..limit {
            let cand = candidate(len, i.wrapping_mul(2654435761) % limit.max(1) + 0);
            if used.contains(&cand) { continue }
            if fallback.is_none() { fallback = Some(cand.clone()) }
            let b = bucket(key, &cand);
            let ok = match group_bucket.get(&group) {
                Some(gb) => *gb == b,
                None => !group_bucket.values().any(|x| *x == b),
            };
            if ok { found = Some((cand, b)); break }
        }
        let name = match found {
            Some((cand, b)) => { group_bucket.entry(group).or_insert(b); cand }
            None => match fallback {
                Some(cand) => cand,
                // all candidates of this length are taken: make it longer
                None => {
                    let mut k = 0u64;
                    loop {
                        let cand = candidate(len + 3, k);
                        if !used.contains(&cand) { break cand }
                        k += 1;
                    }
                }
            }
        };
        used.insert(name.clone());
        res.push(name);
    }
    res
}


//------------ Layout dump ---------------------------------------------------

#[derive(Clone, Debug, PartialEq, Eq)]
struct Blk {
    pos: u64,
    size: u64,
    next: u64,
    empty: bool,
    name: Vec<u8>,
    meta: Vec<u8>,
    data: Vec<u8>,
}

#[derive(Clone, Debug, Default)]
struct Dump {
    size: u64,
    key: [u8; 16],
    blocks: Vec<Blk>,
    buckets: BTreeMap<u64, Vec<u64>>,
    empties: Vec<u64>,
    /// Violations of the tiling: (class, text).
    errors: Vec<(&'static str, String)>,
}

fn u64_at(buf: &[u8], at: usize) -> Option<u64> {
    Some(u64::from_ne_bytes(buf.get(at..at + 8)?.try_into().ok()?))
}

fn read_header(buf: &[u8], pos: u64) -> Option<(u64, u64, u8, usize, usize)> {
    let p = usize::try_from(pos).ok()?;
    if p.checked_add(HDR)? > buf.len() { return None }
    Some((
        u64_at(buf, p)?, u64_at(buf, p + 8)?, buf[p + 16],
        u64_at(buf, p + 17)? as usize, u64_at(buf, p + 25)? as usize,
    ))
}

fn dump_file(path: &Path, msz: usize) -> Dump {
    let buf = std::fs::read(path).expect("read archive file");
    let mut res = Dump { size: buf.len() as u64, ..Default::default() };
    if buf.len() < IDX_END as usize || &buf[..4] != b"RTNR" {
        res.errors.push(("layout-header", format!("file of {} bytes has no header/index", buf.len())));
        return res
    }
    res.key.copy_from_slice(&buf[MAGIC..MAGIC + KEY_LEN]);
    if u64_at(&buf, MAGIC + KEY_LEN) != Some(NB) {
        res.errors.push(("layout-header", "bucket count is not 1024".into()));
    }

    // Sequential walk over the blocks.
    let mut pos = IDX_END;
    while pos < res.size {
        let Some((size, next, flag, name_len, data_len)) = read_header(&buf, pos) else {
            res.errors.push(("layout-tiling", format!("block header at {pos} crosses the end of file {}", res.size)));
            break
        };
        if size == 0 || pos.checked_add(size).map(|e| e > res.size).unwrap_or(true) {
            res.errors.push(("layout-tiling", format!("block at {pos} with size {size} does not fit in file of {}", res.size)));
            break
        }
        if flag > 1 {
            res.errors.push(("layout-tiling", format!("block at {pos} has is_empty byte {flag}")));
            break
        }
        let mut blk = Blk { pos, size, next, empty: flag == 1, name: vec![], meta: vec![], data: vec![] };
        if !blk.empty {
            let start = pos as usize + HDR;
            let need = name_len.checked_add(msz).and_then(|x| x.checked_add(data_len)).and_then(|x| x.checked_add(HDR));
            match need {
                Some(need) if need as u64 <= size => {
                    blk.name = buf[start..start + name_len].to_vec();
                    blk.meta = buf[start + name_len..start + name_len + msz].to_vec();
                    blk.data = buf[start + name_len + msz..start + name_len + msz + data_len].to_vec();
                }
                _ => {
                    res.errors.push(("layout-tiling", format!("object at {pos}: name {name_len} + meta {msz} + data {data_len} exceed block size {size}")));
                    break
                }
            }
        }
        res.blocks.push(blk);
        pos += size;
    }

    // Chains, through the next pointers.
    let starts: BTreeMap<u64, usize> = res.blocks.iter().enumerate().map(|(i, b)| (b.pos, i)).collect();
    let limit = res.blocks.len() + 2;
    let walk = |what: String, head: u64, errors: &mut Vec<(&'static str, String)>| -> Vec<u64> {
        let mut chain = Vec::new();
        let mut cur = head;
        while cur != 0 {
            if chain.len() > limit {
                errors.push(("index-inconsistent", format!("{what}: chain does not end (cycle)")));
                break
            }
            chain.push(cur);
            match starts.get(&cur) {
                Some(i) => cur = res.blocks[*i].next,
                None => {
                    errors.push(("index-inconsistent", format!("{what}: chain element {cur} is not the start of a block")));
                    break
                }
            }
        }
        chain
    };
    let mut errors = Vec::new();
    for k in 0..NB {
        let head = u64_at(&buf, INDEX_START + 8 * k as usize).unwrap();
        if head != 0 {
            let chain = walk(format!("bucket {k}"), head, &mut errors);
            res.buckets.insert(k, chain);
        }
    }
    let head = u64_at(&buf, INDEX_START + 8 * NB as usize).unwrap();
    res.empties = walk("empties".into(), head, &mut errors);
    res.errors.extend(errors);
    res
}

impl Dump {
    /// The consistency part of the property on the real file: blocks tile
    /// `[IDX_END, size)` (established by the walk), every object block is in
    /// exactly the chain of its name's bucket, every empty block in the
    /// empties chain, nothing else is in a chain, no name twice.
    fn check(&self) -> Vec<(&'static str, String)> {
        let mut errors = self.errors.clone();
        if !errors.is_empty() { return errors }
        let mut seen: BTreeMap<u64, usize> = BTreeMap::new();
        let by_pos: BTreeMap<u64, &Blk> = self.blocks.iter().map(|b| (b.pos, b)).collect();
        for (k, chain) in &self.buckets {
            for p in chain {
                *seen.entry(*p).or_insert(0) += 1;
                let b = by_pos[p];
                if b.empty {
                    errors.push(("index-inconsistent", format!("bucket {k} links the empty block at {p}")));
                }
                else if bucket(&self.key, &b.name) != *k {
                    errors.push(("index-inconsistent", format!("object at {p} is linked in bucket {k}, its name hashes to {}", bucket(&self.key, &b.name))));
                }
            }
        }
        for p in &self.empties {
            *seen.entry(*p).or_insert(0) += 1;
            if !by_pos[p].empty {
                errors.push(("index-inconsistent", format!("empties chain links the object at {p}")));
            }
        }
        let mut names = BTreeSet::new();
        for b in &self.blocks {
            match seen.get(&b.pos).copied().unwrap_or(0) {
                1 => { }
                0 => errors.push(("index-inconsistent", format!("block at {} (empty={}) is in no chain", b.pos, b.empty))),
                n => errors.push(("index-inconsistent", format!("block at {} is linked {n} times", b.pos))),
            }
            if !b.empty && !names.insert(b.name.clone()) {
                errors.push(("index-inconsistent", format!("name {} is stored twice", hex(&b.name))));
            }
        }
        errors
    }

    fn show(&self, names: &[Vec<u8>], stats: &str) -> String {
        let idx = |n: &Vec<u8>| match names.iter().position(|x| x == n) {
            Some(i) => i.to_string(),
            None => format!("x{}", hex(n)),
        };
        let bl: Vec<String> = self.blocks.iter().map(|b| {
            if b.empty { format!("{}:{}:E", b.pos, b.size) }
            else { format!("{}:{}:{}:{}:{}", b.pos, b.size, idx(&b.name), hex(&b.meta), show_data(&b.data)) }
        }).collect();
        let bk: Vec<String> = self.buckets.iter().map(|(k, chain)| {
            format!("{k}={}", chain.iter().map(|p| p.to_string()).collect::<Vec<_>>().join(","))
        }).collect();
        format!(
            "{}|{}|{}|{}|{}", self.size, bl.join(" "), bk.join(" "),
            self.empties.iter().map(|p| p.to_string()).collect::<Vec<_>>().join(","), stats
        )
    }

    fn block_of(&self, name: &[u8]) -> Option<&Blk> {
        self.blocks.iter().find(|b| !b.empty && b.name == name)
    }

    fn empty_count(&self) -> usize { self.blocks.iter().filter(|b| b.empty).count() }
}

fn fnv(s: &str) -> u64 {
    let mut h: u64 = 14695981039346656037;
    for b in s.bytes() {
        h = (h ^ b as u64).wrapping_mul(1099511628211);
    }
    h
}


//------------ Running a case ------------------------------------------------

type Reference = BTreeMap<Vec<u8>, (Vec<u8>, Vec<u8>)>;

fn passes(exp: &Exp, stored: &[u8]) -> bool {
    match exp { None => true, Some(e) => e.as_slice() == stored }
}

fn arch_err(e: ArchiveError) -> String {
    match e {
        ArchiveError::Corrupt(s) => format!("err:corrupt:{}", s.replace(' ', "_")),
        ArchiveError::Io(e) => format!("err:io:{:?}", e.kind()),
    }
}

enum Handle<const N: usize> {
    Append(AppendArchive<M<N>>),
    Open(Archive<M<N>>),
    Closed,
}

struct Failure { class: String, reason: String }

fn fail(class: &str, reason: String) -> Failure { Failure { class: class.into(), reason } }

struct CaseOut {
    table: String,
    outs: Vec<String>,
    last_layout: String,
    verify_ok: bool,
    /// Names in the order `objects()` yields them on the final state.
    objects_order: String,
    labels: BTreeSet<&'static str>,
    failure: Option<Failure>,
}

fn patch_key(path: &Path, key: &[u8; 16]) {
    let mut file = std::fs::OpenOptions::new().write(true).open(path).expect("open for key patch");
    file.seek(SeekFrom::Start(MAGIC as u64)).unwrap();
    file.write_all(key).unwrap();
    file.flush().unwrap();
}

fn run_case<const N: usize>(
    path: &Path, key_in: [u8; 16], specs: &[(u64, usize)], toks: &[Tok], full: bool,
) -> CaseOut {
    let _ = std::fs::remove_file(path);
    let mut out = CaseOut {
        table: String::new(), outs: Vec::new(), last_layout: String::new(),
        verify_ok: false, objects_order: String::new(), labels: BTreeSet::new(), failure: None,
    };
    let append_mode = matches!(toks.first(), Some(Tok::A { .. }) | Some(Tok::Z));
    let mut handle: Handle<N>;
    let key: [u8; 16];
    if append_mode {
        // The hash key is random here: read it back before anything is
        // published and resolve the names against it.
        handle = Handle::Append(AppendArchive::<M<N>>::create(path).expect("create append archive"));
        let buf = std::fs::read(path).expect("read fresh append archive");
        key = buf[MAGIC..MAGIC + KEY_LEN].try_into().unwrap();
    }
    else {
        drop(Archive::<M<N>>::create(path).expect("create archive"));
        patch_key(path, &key_in);
        key = key_in;
        handle = Handle::Open(Archive::<M<N>>::open(path, true).expect("open archive"));
    }
    let names = resolve_names(&key, specs);
    out.table = names.iter().map(|n| format!("{}:{}", hex(n), bucket(&key, n))).collect::<Vec<_>>().join(" ");

    let mut reference = Reference::new();
    let mut prev_layout = String::new();
    let mut prev_dump: Option<Dump> = None;

    for tok in toks {
        let tokd = desc(tok);
        // What a map would answer.
        let expected: String = match tok {
            Tok::A { i, meta, data } | Tok::P { i, meta, data } => {
                if reference.contains_key(&names[*i]) { "exists".into() }
                else { reference.insert(names[*i].clone(), (meta.clone(), data.clone())); "ok".into() }
            }
            Tok::Z | Tok::R => "ok".into(),
            Tok::U { i, meta, data, exp } => match reference.get(&names[*i]) {
                None => "notfound".into(),
                Some((m0, _)) => if passes(exp, m0) {
                    reference.insert(names[*i].clone(), (meta.clone(), data.clone())); "ok".into()
                } else { "inconsistent".into() }
            }
            Tok::D { i, exp } => match reference.get(&names[*i]) {
                None => "notfound".into(),
                Some((m0, _)) => if passes(exp, m0) {
                    reference.remove(&names[*i]); "ok".into()
                } else { "inconsistent".into() }
            }
            Tok::F { i } => match reference.get(&names[*i]) {
                None => "notfound".into(),
                Some((_, d)) => format!("data={}", show_data(d)),
            }
            Tok::G { i, exp } => match reference.get(&names[*i]) {
                None => "notfound".into(),
                Some((m0, d)) => if passes(exp, m0) { format!("data={}", show_data(d)) }
                    else { "inconsistent".into() }
            }
        };

        // The real thing.
        let observed = rvcore::catch(AssertUnwindSafe(|| -> String {
            match (tok, &mut handle) {
                (Tok::A { i, meta, data }, Handle::Append(a)) => {
                    match a.publish(&names[*i], &M(meta.clone()), data) {
                        Ok(()) => "ok".into(),
                        Err(PublishError::AlreadyExists) => "exists".into(),
                        Err(PublishError::Archive(e)) => arch_err(e),
                    }
                }
                (Tok::Z, Handle::Append(a)) => {
                    if let Err(e) = a.finalize() { return arch_err(e) }
                    handle = Handle::Closed;
                    match Archive::<M<N>>::open(path, true) {
                        Ok(a) => { handle = Handle::Open(a); "ok".into() }
                        Err(e) => format!("err:open:{e}").replace(' ', "_"),
                    }
                }
                (Tok::P { i, meta, data }, Handle::Open(a)) => {
                    match a.publish(&names[*i], &M(meta.clone()), data) {
                        Ok(()) => "ok".into(),
                        Err(PublishError::AlreadyExists) => "exists".into(),
                        Err(PublishError::Archive(e)) => arch_err(e),
                    }
                }
                (Tok::U { i, meta, data, exp }, Handle::Open(a)) => {
                    match a.update(&names[*i], &M(meta.clone()), data,
                        |m| if passes(exp, &m.0) { Ok(()) } else { Err(()) }
                    ) {
                        Ok(()) => "ok".into(),
                        Err(AccessError::NotFound) => "notfound".into(),
                        Err(AccessError::Inconsistent(())) => "inconsistent".into(),
                        Err(AccessError::Archive(e)) => arch_err(e),
                    }
                }
                (Tok::D { i, exp }, Handle::Open(a)) => {
                    match a.delete(&names[*i],
                        |m| if passes(exp, &m.0) { Ok(()) } else { Err(()) }
                    ) {
                        Ok(()) => "ok".into(),
                        Err(AccessError::NotFound) => "notfound".into(),
                        Err(AccessError::Inconsistent(())) => "inconsistent".into(),
                        Err(AccessError::Archive(e)) => arch_err(e),
                    }
                }
                (Tok::F { i }, Handle::Open(a)) => {
                    match a.fetch(&names[*i]) {
                        Ok(d) => format!("data={}", show_data(&d)),
                        Err(FetchError::NotFound) => "notfound".into(),
                        Err(FetchError::Archive(e)) => arch_err(e),
                    }
                }
                (Tok::G { i, exp }, Handle::Open(a)) => {
                    match a.fetch_if(&names[*i],
                        |m| if passes(exp, &m.0) { Ok(()) } else { Err(()) }
                    ) {
                        Ok(d) => format!("data={}", show_data(&d)),
                        Err(AccessError::NotFound) => "notfound".into(),
                        Err(AccessError::Inconsistent(())) => "inconsistent".into(),
                        Err(AccessError::Archive(e)) => arch_err(e),
                    }
                }
                (Tok::R, Handle::Open(_)) => {
                    handle = Handle::Closed;
                    match Archive::<M<N>>::open(path, true) {
                        Ok(a) => { handle = Handle::Open(a); "ok".into() }
                        Err(e) => format!("err:open:{e}").replace(' ', "_"),
                    }
                }
                _ => "err:phase".into(),
            }
        }));
        let observed = match observed {
            Ok(s) => s,
            Err(panic) => {
                out.outs.push("panic".into());
                out.failure = Some(fail("panic", format!("{tokd} panicked: {panic}")));
                break
            }
        };
        if observed != expected {
            out.failure = Some(fail("map-result", format!(
                "{tokd}: the archive answered `{observed}`, a map answers `{expected}`"
            )));
        }

        // During the append phase nothing can be observed but the result.
        let archive = match &handle {
            Handle::Open(a) => a,
            _ => {
                out.outs.push(observed);
                if out.failure.is_some() { break }
                continue
            }
        };

        // Layout of the real file.
        let dump = dump_file(path, N);
        let errors = dump.check();
        let verified = rvcore::catch(AssertUnwindSafe(|| archive.verify()));
        let stats = match &verified {
            Ok(Ok(s)) => format!(
                "{},{},{},{},{},{},{}", s.object_count, s.object_size, s.padding_size,
                s.empty_count, s.empty_size, s.empty_min, s.empty_max
            ),
            Ok(Err(_)) => "err".into(),
            Err(_) => "panic".into(),
        };
        out.verify_ok = matches!(verified, Ok(Ok(_)));
        let layout = dump.show(&names, &stats);
        out.outs.push(format!("{observed}@{}",
            if layout == prev_layout { "=".to_string() }
            else if full { layout.clone() }
            else { fnv(&layout).to_string() }
        ));

        if out.failure.is_none() {
            if let Some((class, text)) = errors.first() {
                out.failure = Some(fail(class, format!("after {tokd}: {text}")));
            }
            else if !out.verify_ok {
                out.failure = Some(fail("verify-failed", format!(
                    "after {tokd}: verify() = {:?}", verified.map(|r| r.map(|_| ()).map_err(arch_err))
                )));
            }
        }

        // Content: objects() and fetch() against the reference map.
        if out.failure.is_none() {
            let listed = rvcore::catch(AssertUnwindSafe(|| {
                let mut res = Vec::new();
                for item in archive.objects().map_err(arch_err)? {
                    let (n, m, d) = item.map_err(arch_err)?;
                    res.push((n.into_owned(), (m.0, d.into_owned())));
                }
                res.sort();
                Ok::<_, String>(res)
            }));
            let want: Vec<(Vec<u8>, (Vec<u8>, Vec<u8>))> =
                reference.iter().map(|(k, v)| (k.clone(), v.clone())).collect();
            match listed {
                Ok(Ok(got)) => if got != want {
                    out.failure = Some(fail("map-content", format!(
                        "after {tokd}: objects() lists {} objects {:?}, the map has {} {:?}",
                        got.len(), got.iter().map(|x| hex(&x.0)).collect::<Vec<_>>(),
                        want.len(), want.iter().map(|x| hex(&x.0)).collect::<Vec<_>>()
                    )));
                }
                Ok(Err(e)) => out.failure = Some(fail("map-content", format!("after {tokd}: objects() failed: {e}"))),
                Err(p) => out.failure = Some(fail("panic", format!("after {tokd}: objects() panicked: {p}"))),
            }
        }
        if out.failure.is_none() {
            for name in &names {
                let got = rvcore::catch(AssertUnwindSafe(|| match archive.fetch(name) {
                    Ok(d) => Ok(Some(d.into_owned())),
                    Err(FetchError::NotFound) => Ok(None),
                    Err(FetchError::Archive(e)) => Err(arch_err(e)),
                }));
                let want = reference.get(name).map(|x| x.1.clone());
                match got {
                    Ok(Ok(got)) => if got != want {
                        out.failure = Some(fail("map-fetch", format!(
                            "after {tokd}: fetch({}) = {:?}, the map has {:?}", hex(name),
                            got.as_ref().map(|d| show_data(d)), want.as_ref().map(|d| show_data(d))
                        )));
                    }
                    Ok(Err(e)) => out.failure = Some(fail("map-fetch", format!("after {tokd}: fetch({}) failed: {e}", hex(name)))),
                    Err(p) => out.failure = Some(fail("panic", format!("after {tokd}: fetch panicked: {p}"))),
                }
                if out.failure.is_some() { break }
            }
        }

        // Which code path was that? (statistics only)
        if let Some(before) = prev_dump.as_ref() {
            label(tok, &names, before, &dump, &observed, &mut out.labels);
        }
        else if matches!(tok, Tok::P { .. }) && observed == "ok" {
            out.labels.insert("pub-append");
        }
        prev_layout = layout;
        prev_dump = Some(dump);
        if out.failure.is_some() { break }
    }
    if out.failure.is_some() {
        out.outs.push("!abort".into());
    }
    if out.failure.is_none() && prev_dump.is_none() {
        if let Handle::Open(archive) = &handle {
            let dump = dump_file(path, N);
            let verified = rvcore::catch(AssertUnwindSafe(|| archive.verify()));
            let stats = match &verified {
                Ok(Ok(s)) => format!(
                    "{},{},{},{},{},{},{}", s.object_count, s.object_size, s.padding_size,
                    s.empty_count, s.empty_size, s.empty_min, s.empty_max
                ),
                _ => "err".into(),
            };
            out.verify_ok = matches!(verified, Ok(Ok(_)));
            prev_layout = dump.show(&names, &stats);
        }
    }
    out.last_layout = prev_layout;
    if let Handle::Open(archive) = &handle {
        out.objects_order = rvcore::catch(AssertUnwindSafe(|| {
            let mut res = Vec::new();
            for item in archive.objects().map_err(arch_err)? {
                let (n, _, _) = item.map_err(arch_err)?;
                res.push(match names.iter().position(|x| x.as_slice() == n.as_ref()) {
                    Some(i) => i.to_string(),
                    None => format!("x{}", hex(&n)),
                });
            }
            Ok::<_, String>(res.join(","))
        })).unwrap_or_else(|p| Err(format!("panic:{p}"))).unwrap_or_else(|e| e);
    }
    drop(handle);
    let _ = std::fs::remove_file(path);
    out
}

fn label(
    tok: &Tok, names: &[Vec<u8>], before: &Dump, after: &Dump, observed: &str,
    labels: &mut BTreeSet<&'static str>,
) {
    match (tok, observed) {
        (Tok::P { .. }, "ok") => {
            if after.size > before.size { labels.insert("pub-append"); }
            else if after.empty_count() < before.empty_count() { labels.insert("pub-exact-fit"); }
            else { labels.insert("pub-remainder"); }
            if before.empty_count() > 1 && after.size == before.size { labels.insert("pub-choice"); }
            if before.empty_count() > 0 && after.size > before.size { labels.insert("pub-nofit"); }
        }
        (Tok::P { .. }, "exists") => { labels.insert("pub-exists"); }
        (Tok::D { i, .. }, "ok") => {
            let pos = before.block_of(&names[*i]).map(|b| b.pos).unwrap_or(0);
            if after.size < before.size { labels.insert("del-truncate"); }
            else if after.empty_count() == before.empty_count() { labels.insert("del-coalesce"); }
            else { labels.insert("del-plain"); }
            for chain in before.buckets.values() {
                if let Some(at) = chain.iter().position(|p| *p == pos) {
                    if chain.len() > 1 {
                        labels.insert(if at == 0 { "unlink-head" } else if at + 1 == chain.len() { "unlink-tail" } else { "unlink-mid" });
                    }
                }
            }
        }
        (Tok::U { i, .. }, "ok") => {
            let b = before.block_of(&names[*i]);
            let a = after.block_of(&names[*i]);
            match (b, a) {
                (Some(b), Some(a)) if b.pos == a.pos && b.size == a.size => { labels.insert("upd-inplace"); }
                (Some(b), Some(a)) if b.pos == a.pos => { labels.insert("upd-same-pos-resize"); }
                (Some(b), Some(a)) => {
                    labels.insert(if a.size > b.size { "upd-grow-move" } else { "upd-shrink-move" });
                    if after.size < before.size { labels.insert("upd-truncate"); }
                }
                _ => { }
            }
        }
        (_, "notfound") => { labels.insert("notfound"); }
        (_, "inconsistent") => { labels.insert("inconsistent"); }
        (Tok::R, _) => { labels.insert("reopen"); }
        (Tok::Z, _) => { labels.insert("append-finalize"); }
        _ => { }
    }
}


//------------ Generation ----------------------------------------------------

fn size_choice(rng: &mut Rng, overhead: usize) -> usize {
    let k = 1 + [0usize, 0, 0, 1, 1, 2, 3][rng.below(7) as usize];
    let fill = (PAGE * k).saturating_sub(overhead);
    match rng.below(8) {
        0 | 1 => fill,                                   // exactly k pages, no padding
        2 => fill + 1,                                   // spills into page k+1
        3 => fill.saturating_sub(1),                     // one byte of padding
        4 => (PAGE * (k - 1) + 1).saturating_sub(overhead), // smallest object of k pages
        5 => rng.below(2) as usize,                      // 0 or 1
        _ => (PAGE * (k - 1)).saturating_sub(overhead) + rng.below(PAGE as u64) as usize,
    }
}

fn gen_meta(rng: &mut Rng, msz: usize) -> Vec<u8> {
    vec![0x61 + rng.below(3) as u8; msz]
}

fn gen_case(rng: &mut Rng, i: usize, max_ops: usize, full: bool) -> Value {
    let msz = [4usize, 32, 4, 0, 1, 4, 32][i % 7];
    let key: Vec<u8> = (0..16).map(|_| rng.below(256) as u8).collect();
    let ngroups = 1 + rng.below(3);
    let nnames = 2 + rng.below(6) as usize;
    let mut specs: Vec<(u64, usize)> = Vec::new();
    for j in 0..nnames {
        let len = match rng.below(20) {
            0 => 0,
            1 => 1,
            2 => 190,
            3 => (PAGE - HDR).saturating_sub(msz),      // header + name + meta = one page
            4 => 300,
            _ => *rng.pick(&[2usize, 2, 3, 3, 5, 8, 12, 40]),
        };
        let group = if len < 2 { 100 + j as u64 } else { rng.below(ngroups) };
        specs.push((group, len));
    }
    let mut ops: Vec<String> = Vec::new();
    // what a map would hold: name index -> meta
    let mut live: BTreeMap<usize, Vec<u8>> = BTreeMap::new();
    let data_tok = |rng: &mut Rng, idx: usize| {
        let len = size_choice(rng, HDR + specs[idx].1 + msz);
        format!("{}.{}", len, rng.below(251))
    };
    if i % 6 == 3 {
        for _ in 0..rng.below(8) {
            let idx = rng.below(nnames as u64) as usize;
            let meta = gen_meta(rng, msz);
            ops.push(format!("A,{},{},{}", idx, hex(&meta), data_tok(rng, idx)));
            live.entry(idx).or_insert(meta);
        }
        ops.push("Z".into());
    }
    let n_ops = 1 + rng.below(max_ops as u64) as usize;
    let other_meta = |rng: &mut Rng, m: &[u8]| -> Vec<u8> {
        if m.is_empty() { return Vec::new() }
        let mut o = m.to_vec();
        let at = rng.below(o.len() as u64) as usize;
        o[at] ^= 1 << rng.below(8);
        o
    };
    for _ in 0..n_ops {
        let dead: Vec<usize> = (0..nnames).filter(|j| !live.contains_key(j)).collect();
        let alive: Vec<usize> = live.keys().copied().collect();
        let pick_dead = |rng: &mut Rng| -> usize {
            if !dead.is_empty() && (alive.is_empty() || rng.chance(17, 20)) { *rng.pick(&dead) }
            else { *rng.pick(&alive) }
        };
        let pick_alive = |rng: &mut Rng| -> usize {
            if !alive.is_empty() && (dead.is_empty() || rng.chance(17, 20)) { *rng.pick(&alive) }
            else { *rng.pick(&dead) }
        };
        let exp = |rng: &mut Rng, cur: Option<&Vec<u8>>| -> (String, bool) {
            match (rng.below(10), cur) {
                (0..=5, _) | (_, None) => ("*".into(), true),
                (6..=8, Some(m)) => (hex(m), true),
                (_, Some(m)) => {
                    let o = other_meta(rng, m);
                    let pass = &o == m;
                    (hex(&o), pass)
                }
            }
        };
        let w = rng.below(100);
        let frac_alive = alive.len() * 100 / nnames;
        if w < 5 {
            ops.push("R".into());
        }
        else if w < 12 {
            ops.push(format!("F,{}", pick_alive(rng)));
        }
        else if w < 18 {
            let idx = pick_alive(rng);
            let (e, _) = exp(rng, live.get(&idx));
            ops.push(format!("G,{},{}", idx, e));
        }
        else if w < 18 + (82 * (100 - frac_alive.min(100)) / 100).clamp(15, 60) as u64 {
            let idx = pick_dead(rng);
            let meta = gen_meta(rng, msz);
            ops.push(format!("P,{},{},{}", idx, hex(&meta), data_tok(rng, idx)));
            live.entry(idx).or_insert(meta);
        }
        else if rng.chance(1, 2) {
            let idx = pick_alive(rng);
            let meta = gen_meta(rng, msz);
            let (e, pass) = exp(rng, live.get(&idx));
            ops.push(format!("U,{},{},{},{}", idx, hex(&meta), data_tok(rng, idx), e));
            if pass && live.contains_key(&idx) { live.insert(idx, meta); }
        }
        else {
            let idx = pick_alive(rng);
            let (e, pass) = exp(rng, live.get(&idx));
            ops.push(format!("D,{},{}", idx, e));
            if pass { live.remove(&idx); }
        }
    }
    json!({
        "msz": msz, "key": hex(&key), "names": specs.iter().map(|(g, l)| json!([g, l])).collect::<Vec<_>>(),
        "mode": if full { "full" } else { "hash" }, "ops": ops,
    })
}

/// All sequences of length ≤ `max_len` over 2 names × 3 sizes.
fn exhaustive(colliding: bool, max_len: usize) -> Vec<Value> {
    let sizes = ["3.1", "300.2", "600.3"];
    let mut alphabet: Vec<String> = Vec::new();
    for n in 0..2 {
        for s in sizes { alphabet.push(format!("P,{n},61626364,{s}")); }
        for s in sizes { alphabet.push(format!("U,{n},65666768,{s},*")); }
        alphabet.push(format!("D,{n},*"));
        alphabet.push(format!("F,{n}"));
    }
    alphabet.push("R".into());
    let names = if colliding { json!([[0, 2], [0, 2]]) } else { json!([[0, 2], [1, 2]]) };
    let mut res = Vec::new();
    let mut seqs: Vec<Vec<usize>> = vec![vec![]];
    for _ in 0..max_len {
        let mut next = Vec::new();
        for s in &seqs {
            for a in 0..alphabet.len() {
                let mut t = s.clone();
                t.push(a);
                next.push(t);
            }
        }
        for s in &next {
            res.push(json!({
                "msz": 4, "key": "000102030405060708090a0b0c0d0e0f", "names": names, "mode": "hash",
                "ops": s.iter().map(|a| alphabet[*a].clone()).collect::<Vec<_>>(),
            }));
        }
        seqs = next;
    }
    res
}


/// Either no AppendArchive phase at all, or `A* Z` first and never again.
fn phases_ok(toks: &[Tok]) -> bool {
    let z = toks.iter().position(|t| matches!(t, Tok::Z));
    match z {
        None => !toks.iter().any(|t| matches!(t, Tok::A { .. })),
        Some(z) => {
            toks[..z].iter().all(|t| matches!(t, Tok::A { .. }))
            && !toks[z + 1..].iter().any(|t| matches!(t, Tok::A { .. } | Tok::Z))
        }
    }
}


//------------ Component -----------------------------------------------------

fn work_dir() -> PathBuf {
    let base = if Path::new("/dev/shm").is_dir() { PathBuf::from("/dev/shm") } else { std::env::temp_dir() };
    let dir = base.join(format!("rv-archive-{}", std::process::id()));
    std::fs::create_dir_all(&dir).expect("create work dir");
    dir
}

pub fn run_c26(ctx: &mut Ctx) {
    ctx.rule = "operation sequences (publish/update/delete/fetch/fetch_if/reopen, optionally preceded by an \
        AppendArchive phase + finalize) of length <= 60 over 2-7 names in 1-3 hash-collision groups \
        (names resolved against the archive's hash key), Meta::SIZE in {0,1,4,32}, data sizes at the \
        page boundaries of 1-4 pages (exact fill, +1, -1, minimal), 0, 1; thorough adds all sequences \
        of length <= 4 over 2 colliding names x 3 sizes (and of length <= 3 over 2 distinct names); after every operation the real \
        file is parsed and compared with the model's layout; non-trivial = case exercising free-space \
        reuse / coalescing / truncation; distinct by the set of code-path labels".into();
    let dir = work_dir();
    let path = dir.join("archive.bin");
    let inputs: Vec<Value> = match ctx.replay_inputs() {
        Some(inputs) => inputs,
        None => {
            let mut res = ctx.corpus("C26");
            let n = ctx.budget(600, 8_000);
            let full = ctx.quick();
            let mut rng = ctx.rng.fork();
            for i in 0..n {
                let max_ops = [60usize, 60, 25, 10, 60, 40][i % 6];
                res.push(gen_case(&mut rng, i, max_ops, full));
            }
            if ctx.quick() && !ctx.search {
                res.extend(exhaustive(true, 2));
            }
            else if ctx.quick() {
                res.extend(exhaustive(true, 3));
                res.extend(exhaustive(false, 3));
            }
            else {
                res.extend(exhaustive(true, 4));
                res.extend(exhaustive(false, 3));
            }
            res
        }
    };

    for input in inputs {
        let msz = input["msz"].as_u64().unwrap_or(4) as usize;
        let mut key = [0u8; 16];
        if let Some(k) = input["key"].as_str().and_then(unhex) {
            if k.len() == 16 { key.copy_from_slice(&k) }
        }
        let specs: Vec<(u64, usize)> = input["names"].as_array().map(|l| l.iter().map(|e| {
            (e[0].as_u64().unwrap_or(0), e[1].as_u64().unwrap_or(2) as usize)
        }).collect()).unwrap_or_default();
        let full = input["mode"].as_str() != Some("hash");
        let tok_strs: Vec<String> = input["ops"].as_array().map(|l| {
            l.iter().filter_map(|t| t.as_str().map(String::from)).collect()
        }).unwrap_or_default();
        let toks: Option<Vec<Tok>> = tok_strs.iter().map(|s| parse_tok(s)).collect();
        let toks = match toks {
            Some(t) if t.iter().all(|t| match t {
                Tok::A { i, meta, .. } | Tok::P { i, meta, .. } | Tok::U { i, meta, .. } =>
                    *i < specs.len() && meta.len() == msz,
                Tok::D { i, .. } | Tok::F { i } | Tok::G { i, .. } => *i < specs.len(),
                _ => true
            }) && phases_ok(&t) => t,
            _ => {
                ctx.count("bad-input");
                continue
            }
        };
        let out = match msz {
            0 => run_case::<0>(&path, key, &specs, &toks, full),
            1 => run_case::<1>(&path, key, &specs, &toks, full),
            4 => run_case::<4>(&path, key, &specs, &toks, full),
            32 => run_case::<32>(&path, key, &specs, &toks, full),
            _ => { ctx.count("bad-input"); continue }
        };
        let op = format!(
            "c26 {}|{}|{}|{}", if full { "full" } else { "hash" }, msz, out.table, tok_strs.join(" ")
        );
        let imp = format!(
            "{};L={};V={};O={}", out.outs.join(";"), out.last_layout,
            if out.verify_ok { 1 } else { 0 }, out.objects_order
        );
        ctx.case(&input, &op, &imp);
        for l in &out.labels { ctx.count(&format!("path:{l}")); }
        ctx.count(&format!("ops<{}", (toks.len() / 10 + 1) * 10));
        let interesting = ["pub-exact-fit", "pub-remainder", "del-coalesce", "del-truncate", "upd-inplace",
            "upd-grow-move", "upd-shrink-move"];
        if out.labels.iter().any(|l| interesting.contains(l)) {
            ctx.nontrivial(out.labels.iter().copied().collect::<Vec<_>>().join("+"));
        }
        if let Some(f) = out.failure {
            ctx.oracle_fail(&f.class, &f.reason, &input, json!(imp));
        }
    }
    let _ = std::fs::remove_dir_all(&dir);
}
