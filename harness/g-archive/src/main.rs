//! Group "archive": C26.
mod archive;

fn run(name: &str, ctx: &mut rvcore::Ctx) -> bool {
    match name {
        "c26" => archive::run_c26(ctx),
        _ => return false
    }
    true
}

fn main() { rvcore::main_with(run, rvcore::no_special) }
