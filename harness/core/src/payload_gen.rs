//! Generators for payload items and data sets.

use std::net::{IpAddr, Ipv4Addr, Ipv6Addr};
use std::sync::Arc;
use bytes::Bytes;
use rpki::crypto::KeyIdentifier;
use rpki::resources::addr::{MaxLenPrefix, Prefix};
use rpki::resources::Asn;
use rpki::rtr::payload::{Aspa, RouteOrigin, RouterKey};
use rpki::rtr::pdu::{ProviderAsns, RouterKeyInfo};
use routinator::payload::{PayloadInfo, PayloadSnapshot};
use routinator::slurm::ExceptionInfo;
use serde_json::{json, Value};
use crate::ctx::Rng;

/// An abstract data set: indices into a case's item universe.
#[derive(Clone, Debug, Default, PartialEq, Eq)]
pub struct AbsSet {
    pub origins: Vec<usize>,
    pub router_keys: Vec<usize>,
    /// customer index, provider ASNs
    pub aspas: Vec<(u32, Vec<u32>)>,
}

impl AbsSet {
    pub fn to_json(&self) -> Value {
        json!({
            "o": self.origins, "r": self.router_keys,
            "a": self.aspas.iter().map(|(c, p)| json!([c, p])).collect::<Vec<_>>()
        })
    }
    pub fn from_json(v: &Value) -> Self {
        let idx = |key: &str| v[key].as_array().map(|a| {
            a.iter().map(|x| x.as_u64().unwrap_or(0) as usize).collect()
        }).unwrap_or_default();
        AbsSet {
            origins: idx("o"), router_keys: idx("r"),
            aspas: v["a"].as_array().map(|a| a.iter().map(|x| {
                (x[0].as_u64().unwrap_or(0) as u32,
                 x[1].as_array().map(|p| p.iter().map(|y| y.as_u64().unwrap_or(0) as u32).collect())
                    .unwrap_or_default())
            }).collect()).unwrap_or_default(),
        }
    }
    pub fn len(&self) -> usize {
        self.origins.len() + self.router_keys.len() + self.aspas.len()
    }
}

/// The universe of concrete origins: index → item. Deliberately not in
/// index order w.r.t. Rust's `Ord` so ranks have to be computed.
pub fn origin_universe() -> Vec<RouteOrigin> {
    let mut res = Vec::new();
    let v4 = |a: [u8; 4], len: u8, max: Option<u8>, asn: u32| RouteOrigin::new(
        MaxLenPrefix::new(Prefix::new(IpAddr::V4(Ipv4Addr::from(a)), len).unwrap(), max).unwrap(),
        Asn::from_u32(asn)
    );
    let v6 = |a: [u16; 8], len: u8, max: Option<u8>, asn: u32| RouteOrigin::new(
        MaxLenPrefix::new(Prefix::new(IpAddr::V6(Ipv6Addr::from(a)), len).unwrap(), max).unwrap(),
        Asn::from_u32(asn)
    );
    for i in 0..24u32 {
        let asn = 64496 + (i * 7) % 5;
        match i % 6 {
            0 => res.push(v4([10, (i * 37 % 250) as u8, 0, 0], 16, None, asn)),
            1 => res.push(v4([192, 0, (i * 11 % 250) as u8, 0], 24, Some(24 + (i % 9) as u8), asn)),
            2 => res.push(v6([0x2001, 0xdb8, (i * 97) as u16, 0, 0, 0, 0, 0], 48, Some(48 + (i % 17) as u8), asn)),
            3 => res.push(v4([10, (i * 37 % 250) as u8, 0, 0], 16, Some(16 + (i % 5) as u8), asn + 1)),
            4 => res.push(v6([0x2001, 0xdb8, 0, 0, 0, 0, 0, 0], 32, None, asn)),
            _ => res.push(v4([(i % 200 + 1) as u8, 0, 0, 0], 8, Some(32), asn)),
        }
    }
    res.push(v4([0, 0, 0, 0], 0, None, 0));
    res.push(v6([0; 8], 0, Some(128), u32::MAX));
    res.push(v4([255, 255, 255, 255], 32, None, 65000));
    res.push(v6([0xffff; 8], 128, None, 65000));
    // dedup by Eq (resolved max len)
    let mut out: Vec<RouteOrigin> = Vec::new();
    for item in res {
        if !out.contains(&item) { out.push(item) }
    }
    out
}

pub fn router_key_universe() -> Vec<RouterKey> {
    (0..12u32).map(|i| {
        let mut ki = [0u8; 20];
        ki[0] = (i * 53 % 256) as u8;
        ki[19] = i as u8;
        let info = vec![(i * 29 % 256) as u8; 4 + (i % 3) as usize];
        RouterKey::new(
            KeyIdentifier::try_from(&ki[..]).unwrap(),
            Asn::from_u32(64500 + (i * 5) % 4),
            RouterKeyInfo::new(Bytes::from(info)).unwrap(),
        )
    }).collect()
}

pub fn aspa(customer: u32, providers: &[u32]) -> Aspa {
    Aspa::new(
        Asn::from_u32(customer),
        ProviderAsns::try_from_iter(providers.iter().map(|p| Asn::from_u32(*p))).unwrap()
    )
}

pub fn info() -> PayloadInfo {
    PayloadInfo::from(Arc::new(ExceptionInfo::default()))
}

/// Ranks of universe items in Rust's `Ord`.
pub fn ranks<T: Ord>(universe: &[T]) -> Vec<usize> {
    let mut order: Vec<usize> = (0..universe.len()).collect();
    order.sort_by(|a, b| universe[*a].cmp(&universe[*b]));
    let mut rank = vec![0; universe.len()];
    for (r, idx) in order.iter().enumerate() { rank[*idx] = r }
    rank
}

pub struct Universe {
    pub origins: Vec<RouteOrigin>,
    pub router_keys: Vec<RouterKey>,
    pub origin_rank: Vec<usize>,
    pub key_rank: Vec<usize>,
}

impl Universe {
    pub fn new() -> Self {
        let origins = origin_universe();
        let router_keys = router_key_universe();
        let origin_rank = ranks(&origins);
        let key_rank = ranks(&router_keys);
        Universe { origins, router_keys, origin_rank, key_rank }
    }

    pub fn snapshot(&self, set: &AbsSet) -> PayloadSnapshot {
        PayloadSnapshot::new(
            set.origins.iter().map(|i| (self.origins[*i], info())),
            set.router_keys.iter().map(|i| (self.router_keys[*i].clone(), info())),
            set.aspas.iter().map(|(c, p)| (aspa(*c, p), info())),
            None
        )
    }

    /// The model's view of a data set: `origins|router keys|aspas` as ranks.
    pub fn model_fields(&self, set: &AbsSet) -> [String; 3] {
        let mut o: Vec<usize> = set.origins.iter().map(|i| self.origin_rank[*i]).collect();
        o.sort();
        let mut r: Vec<usize> = set.router_keys.iter().map(|i| self.key_rank[*i]).collect();
        r.sort();
        let mut a = set.aspas.clone();
        a.sort();
        [
            o.iter().map(|x| x.to_string()).collect::<Vec<_>>().join(" "),
            r.iter().map(|x| x.to_string()).collect::<Vec<_>>().join(" "),
            a.iter().map(|(c, p)| format!(
                "{}:{}", c, p.iter().map(|x| x.to_string()).collect::<Vec<_>>().join(",")
            )).collect::<Vec<_>>().join(" "),
        ]
    }

    pub fn origin_rank_of(&self, item: &RouteOrigin) -> usize {
        let idx = self.origins.iter().position(|x| x == item).expect("origin in universe");
        self.origin_rank[idx]
    }

    pub fn key_rank_of(&self, item: &RouterKey) -> usize {
        let idx = self.router_keys.iter().position(|x| x == item).expect("key in universe");
        self.key_rank[idx]
    }
}

/// A random subset of `0..n` with inclusion probability num/den.
pub fn subset(rng: &mut Rng, n: usize, num: u64, den: u64) -> Vec<usize> {
    (0..n).filter(|_| rng.chance(num, den)).collect()
}

pub fn gen_providers(rng: &mut Rng) -> Vec<u32> {
    let n = match rng.below(6) { 0 => 0, 1 => 1, 2 => 2, 3 => 3, _ => rng.below(6) };
    let mut p: Vec<u32> = (0..n).map(|_| 65000 + rng.below(8) as u32).collect();
    p.sort();
    p.dedup();
    p
}

/// A random data set over the universe; `dens` is the inclusion chance out
/// of 8 per item.
pub fn gen_set(rng: &mut Rng, uni: &Universe, dens: u64, customers: u32) -> AbsSet {
    let origins = subset(rng, uni.origins.len(), dens, 8);
    let router_keys = subset(rng, uni.router_keys.len(), dens, 8);
    let mut aspas = Vec::new();
    for c in 0..customers {
        if rng.chance(dens, 8) {
            aspas.push((64600 + c * 3 % 17 + c, gen_providers(rng)));
        }
    }
    aspas.sort();
    AbsSet { origins, router_keys, aspas }
}

/// Mutates a data set a little: the changes deltas are made of.
pub fn mutate_set(rng: &mut Rng, uni: &Universe, set: &AbsSet, customers: u32) -> AbsSet {
    let mut res = set.clone();
    let n = 1 + rng.below(4);
    for _ in 0..n {
        match rng.below(7) {
            0 | 1 => {
                let i = rng.below(uni.origins.len() as u64) as usize;
                if let Some(pos) = res.origins.iter().position(|x| *x == i) { res.origins.remove(pos); }
                else { res.origins.push(i) }
            }
            2 => {
                let i = rng.below(uni.router_keys.len() as u64) as usize;
                if let Some(pos) = res.router_keys.iter().position(|x| *x == i) { res.router_keys.remove(pos); }
                else { res.router_keys.push(i) }
            }
            3 | 4 => {
                // flip the provider set of an existing customer
                if !res.aspas.is_empty() {
                    let i = rng.below(res.aspas.len() as u64) as usize;
                    res.aspas[i].1 = gen_providers(rng);
                }
            }
            5 => {
                let c = rng.below(customers as u64) as u32;
                let c = 64600 + c * 3 % 17 + c;
                if let Some(pos) = res.aspas.iter().position(|x| x.0 == c) { res.aspas.remove(pos); }
                else { res.aspas.push((c, gen_providers(rng))) }
            }
            _ => { }
        }
    }
    res.origins.sort();
    res.router_keys.sort();
    res.aspas.sort();
    res
}
