//! Shared case bookkeeping.

use std::collections::{BTreeMap, BTreeSet};
use std::fs::File;
use std::io::{BufWriter, Write};
use std::path::PathBuf;
use serde_json::{json, Value};

#[derive(Clone, Copy, Debug, Eq, PartialEq)]
pub enum Tier { Quick, Thorough }

/// SplitMix64.
#[derive(Clone, Debug)]
pub struct Rng(pub u64);

impl Rng {
    pub fn next(&mut self) -> u64 {
        self.0 = self.0.wrapping_add(0x9E3779B97F4A7C15);
        let mut z = self.0;
        z = (z ^ (z >> 30)).wrapping_mul(0xBF58476D1CE4E5B9);
        z = (z ^ (z >> 27)).wrapping_mul(0x94D049BB133111EB);
        z ^ (z >> 31)
    }
    /// Uniform in `0..n` (n > 0).
    pub fn below(&mut self, n: u64) -> u64 { self.next() % n }
    pub fn range(&mut self, lo: u64, hi: u64) -> u64 { lo + self.below(hi - lo + 1) }
    pub fn chance(&mut self, num: u64, den: u64) -> bool { self.below(den) < num }
    pub fn pick<'a, T>(&mut self, items: &'a [T]) -> &'a T {
        &items[self.below(items.len() as u64) as usize]
    }
    pub fn shuffle<T>(&mut self, items: &mut [T]) {
        for i in (1..items.len()).rev() {
            let j = self.below(i as u64 + 1) as usize;
            items.swap(i, j);
        }
    }
    pub fn fork(&mut self) -> Rng { Rng(self.next()) }
}

pub struct Ctx {
    pub comp: String,
    pub seed: u64,
    pub tier: Tier,
    pub out: PathBuf,
    pub rng: Rng,
    pub replay: Option<Value>,
    /// Oracle-only deeper search (after a broken proof or correspondence).
    pub search: bool,
    ops: BufWriter<File>,
    imp: BufWriter<File>,
    inputs: BufWriter<File>,
    pub cases: usize,
    oracle_failures: Vec<Value>,
    nontrivial: BTreeSet<String>,
    hist: BTreeMap<String, u64>,
    samples: Vec<Value>,
    pub rule: String,
    extra: BTreeMap<String, Value>,
}

impl Ctx {
    pub fn new(
        comp: &str, seed: u64, tier: Tier, out: PathBuf,
        replay: Option<PathBuf>, search: bool,
    ) -> Self {
        std::fs::create_dir_all(&out).expect("create out dir");
        let open = |name: &str| BufWriter::new(
            File::create(out.join(name)).expect("create output file")
        );
        let replay = replay.map(|path| {
            let data = std::fs::read_to_string(&path).expect("read replay");
            serde_json::from_str::<Value>(&data).expect("parse replay")
        });
        Ctx {
            comp: comp.into(), seed, tier,
            rng: Rng(seed ^ 0x5eed_0000_0000_0000),
            replay, search,
            ops: open("ops.txt"), imp: open("impl.txt"),
            inputs: open("inputs.jsonl"),
            out, cases: 0,
            oracle_failures: Vec::new(),
            nontrivial: BTreeSet::new(),
            hist: BTreeMap::new(),
            samples: Vec::new(),
            rule: String::new(),
            extra: BTreeMap::new(),
        }
    }

    pub fn quick(&self) -> bool { self.tier == Tier::Quick }

    /// Picks the number of cases for the tier.
    pub fn budget(&self, quick: usize, thorough: usize) -> usize {
        let n = if self.quick() { quick } else { thorough };
        if self.search { n * 4 } else { n }
    }

    /// The inputs to replay if this is a replay run: either the replay
    /// file's `input` member, or each of its `inputs`.
    pub fn replay_inputs(&self) -> Option<Vec<Value>> {
        let replay = self.replay.as_ref()?;
        if let Some(list) = replay.get("inputs").and_then(|v| v.as_array()) {
            return Some(list.clone())
        }
        replay.get("input").map(|v| vec![v.clone()])
    }

    /// Corpus inputs for a property (`/verif/corpus/<id>/*.json`), sorted.
    pub fn corpus(&self, id: &str) -> Vec<Value> {
        let dir = PathBuf::from(
            std::env::var("VERIF_DIR").unwrap_or_else(|_| "/verif".into())
        ).join("corpus").join(id);
        let mut paths: Vec<_> = match std::fs::read_dir(dir) {
            Ok(iter) => iter.filter_map(|e| e.ok()).map(|e| e.path()).collect(),
            Err(_) => return Vec::new()
        };
        paths.sort();
        let mut res = Vec::new();
        for path in paths {
            if let Ok(data) = std::fs::read_to_string(&path) {
                if let Ok(value) = serde_json::from_str::<Value>(&data) {
                    if let Some(list) = value.get("inputs").and_then(|v| v.as_array()) {
                        res.extend(list.iter().cloned())
                    }
                    else if let Some(input) = value.get("input") {
                        res.push(input.clone())
                    }
                }
            }
        }
        res
    }

    /// Records one case: the fully expanded input, the request line for the
    /// model and the implementation's canonical output line.
    pub fn case(&mut self, input: &Value, op: &str, imp: &str) {
        debug_assert!(!op.contains('\n') && !imp.contains('\n'));
        writeln!(self.inputs, "{input}").unwrap();
        writeln!(self.ops, "{}", op.replace('\n', " ")).unwrap();
        writeln!(self.imp, "{}", imp.replace('\n', " ")).unwrap();
        if self.samples.len() < 3 {
            self.samples.push(json!({"input": input, "impl": imp}));
        }
        self.cases += 1;
    }

    /// Records a case that has no model counterpart (oracle only).
    pub fn case_oracle_only(&mut self, input: &Value, observed: &str) {
        self.case(input, "skip", "skip");
        if self.samples.len() < 3 {
            self.samples.push(json!({"input": input, "impl": observed}));
        }
    }

    /// The property fails on the implementation for this input.
    pub fn oracle_fail(&mut self, class: &str, reason: &str, input: &Value, observed: Value) {
        if self.oracle_failures.len() < 200 {
            self.oracle_failures.push(json!({
                "case": self.cases, "class": class, "reason": reason,
                "input": input, "observed": observed,
            }));
        }
        self.count(&format!("oracle-fail:{class}"));
    }

    pub fn count(&mut self, key: &str) {
        *self.hist.entry(key.into()).or_insert(0) += 1;
    }

    pub fn count_n(&mut self, key: &str, n: u64) {
        *self.hist.entry(key.into()).or_insert(0) += n;
    }

    /// Marks the current case as non-trivial with a signature; distinct
    /// signatures are counted.
    pub fn nontrivial(&mut self, signature: String) {
        self.nontrivial.insert(signature);
    }

    pub fn extra(&mut self, key: &str, value: Value) {
        self.extra.insert(key.into(), value);
    }

    pub fn finish(mut self) {
        self.ops.flush().unwrap();
        self.imp.flush().unwrap();
        self.inputs.flush().unwrap();
        let stats = json!({
            "component": self.comp,
            "seed": self.seed,
            "tier": if self.tier == Tier::Quick { "quick" } else { "thorough" },
            "evaluations": self.cases,
            "distinct_nontrivial": self.nontrivial.len(),
            "rule": self.rule,
            "samples": self.samples,
            "histogram": self.hist,
            "oracle_failures": self.oracle_failures,
            "extra": self.extra,
        });
        std::fs::write(
            self.out.join("stats.json"),
            serde_json::to_string_pretty(&stats).unwrap()
        ).unwrap();
    }
}

/// Runs `f`, converting a panic into `Err(message)`.
pub fn catch<T>(f: impl FnOnce() -> T + std::panic::UnwindSafe) -> Result<T, String> {
    std::panic::catch_unwind(f).map_err(|err| {
        if let Some(s) = err.downcast_ref::<&str>() { s.to_string() }
        else if let Some(s) = err.downcast_ref::<String>() { s.clone() }
        else { "panic".to_string() }
    })
}
