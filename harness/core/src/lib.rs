//! Shared parts of the correspondence harness: case bookkeeping, the fake
//! wall clock, payload generators and the common `main`.

pub mod ctx;
pub mod clock;
pub mod payload_gen;

use std::path::PathBuf;
pub use ctx::{Ctx, Rng, Tier, catch};

fn usage() -> ! {
    eprintln!("usage: rv-<group> <component> --out DIR [--seed N] [--tier quick|thorough] [--replay FILE] [--search]");
    std::process::exit(2)
}

/// The common `main`: `run(component, ctx)` returns false for an unknown
/// component; `special(name, args)` handles sub-process modes (fake rsync,
/// the routinator CLI, ...) and returns their exit code.
pub fn main_with(
    run: fn(&str, &mut Ctx) -> bool,
    special: fn(&str, &[String]) -> Option<i32>,
) {
    // Make sure the clock override is linked in.
    let _ = clock::now();
    let args: Vec<String> = std::env::args().collect();
    if args.len() < 2 { usage() }
    let comp = args[1].clone();
    if comp == "--clocktest" {
        clock::set(1_000_000_000, 5);
        let std_now = std::time::SystemTime::now()
            .duration_since(std::time::UNIX_EPOCH).unwrap();
        let rpki_now = rpki::repository::x509::Time::now().timestamp();
        let chrono_now = chrono::Utc::now().timestamp();
        println!("{} {} {}", std_now.as_secs(), rpki_now, chrono_now);
        std::process::exit(
            if std_now.as_secs() == 1_000_000_000 && rpki_now == 1_000_000_000
                && chrono_now == 1_000_000_000 { 0 } else { 1 }
        )
    }
    if let Some(code) = special(&comp, &args[2..]) {
        std::process::exit(code)
    }
    let mut out = None;
    let mut seed = 1u64;
    let mut tier = Tier::Quick;
    let mut replay = None;
    let mut search = false;
    let mut i = 2;
    while i < args.len() {
        match args[i].as_str() {
            "--out" => { out = Some(PathBuf::from(&args[i + 1])); i += 2 }
            "--seed" => { seed = args[i + 1].parse().unwrap_or(1); i += 2 }
            "--tier" => {
                tier = if args[i + 1] == "thorough" { Tier::Thorough } else { Tier::Quick };
                i += 2
            }
            "--replay" => { replay = Some(PathBuf::from(&args[i + 1])); i += 2 }
            "--search" => { search = true; i += 1 }
            _ => usage()
        }
    }
    let out = out.unwrap_or_else(|| usage());
    let mut ctx = Ctx::new(&comp, seed, tier, out, replay, search);
    if !run(&comp, &mut ctx) {
        eprintln!("unknown component {comp}");
        std::process::exit(2)
    }
    ctx.finish();
}

pub fn no_special(_name: &str, _args: &[String]) -> Option<i32> { None }
