//! A harness-controlled wall clock.
//!
//! The binary defines `clock_gettime` itself; because std is linked
//! statically into the binary, this definition wins over libc's, so
//! `SystemTime::now()`, chrono's `Utc::now()` and rpki's `Time::now()` all
//! return the fake time once it is enabled. Monotonic clocks pass through.

use std::sync::atomic::{AtomicBool, AtomicI64, Ordering};

static ENABLED: AtomicBool = AtomicBool::new(false);
static SECS: AtomicI64 = AtomicI64::new(0);
static NANOS: AtomicI64 = AtomicI64::new(0);

#[repr(C)]
pub struct Timespec { tv_sec: i64, tv_nsec: i64 }

#[no_mangle]
pub unsafe extern "C" fn clock_gettime(clock: i32, ts: *mut Timespec) -> i32 {
    // CLOCK_REALTIME = 0, CLOCK_REALTIME_COARSE = 5
    if (clock == 0 || clock == 5) && ENABLED.load(Ordering::SeqCst) {
        (*ts).tv_sec = SECS.load(Ordering::SeqCst);
        (*ts).tv_nsec = NANOS.load(Ordering::SeqCst);
        return 0
    }
    let ret: i64;
    // SYS_clock_gettime = 228 on x86_64
    std::arch::asm!(
        "syscall",
        inlateout("rax") 228i64 => ret,
        in("rdi") clock as i64,
        in("rsi") ts,
        lateout("rcx") _, lateout("r11") _,
        options(nostack)
    );
    ret as i32
}

#[allow(dead_code)]
pub fn set(secs: i64, nanos: i64) {
    SECS.store(secs, Ordering::SeqCst);
    NANOS.store(nanos, Ordering::SeqCst);
    ENABLED.store(true, Ordering::SeqCst);
}

#[allow(dead_code)]
pub fn advance(secs: i64) {
    SECS.fetch_add(secs, Ordering::SeqCst);
}

#[allow(dead_code)]
pub fn disable() { ENABLED.store(false, Ordering::SeqCst); }

#[allow(dead_code)]
pub fn now() -> (i64, i64) {
    (SECS.load(Ordering::SeqCst), NANOS.load(Ordering::SeqCst))
}
