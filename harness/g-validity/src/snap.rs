//! C09 / C08: a real `ValidationReport` is filled through the public
//! `ProcessRun` / `ProcessPubPoint` API with real certificates, ROA and ASPA
//! contents, rejected CA certificates are `cancel`led, and `into_snapshot` is
//! called with real `LocalExceptions`. The served snapshot is compared with
//! the Lean model and with the set expression recomputed naively.

use std::collections::{BTreeMap, BTreeSet};
use rpki::repository::resources::IpBlock;
use rpki::resources::Asn;
use rpki::rtr::payload::{RouteOrigin, RouterKey};
use rpki::slurm::{
    BgpsecAssertion, BgpsecFilter, LocallyAddedAssertions, PrefixAssertion, PrefixFilter,
    SlurmFile, ValidationOutputFilters,
};
use routinator::config::FilterPolicy;
use routinator::engine::{ProcessPubPoint, ProcessRun};
use routinator::metrics::{Metrics, TalMetrics};
use routinator::payload::{PayloadSnapshot, ValidationReport};
use routinator::slurm::LocalExceptions;
use serde_json::{json, Value};
use rvcore::{Ctx, Rng};
use crate::abs::{APrefix, AVrp};
use crate::fixture::{Fixture, ROUTER_KEYS};
use crate::httpc::base_config;

const MAX_PROVIDERS: usize = 16380;

// --------------------------------------------------------------------- spec

#[derive(Clone, Debug)]
struct Cfg { bgpsec: bool, aspa: bool, l4: Option<u8>, l6: Option<u8>, policy: String }

#[derive(Clone, Debug)]
struct RoaSpec { asn: u32, addrs: Vec<(APrefix, Option<u8>)> }

#[derive(Clone, Debug)]
struct RouterSpec { key: usize, asns: Vec<(u32, u32)> }

#[derive(Clone, Debug)]
struct AspaSpec { customer: u32, providers: Vec<u32> }

#[derive(Clone, Debug)]
struct PointSpec { tal: usize, child: bool, roas: Vec<RoaSpec>, routers: Vec<RouterSpec>, aspas: Vec<AspaSpec> }

#[derive(Clone, Debug)]
struct RejSpec { tal: usize, v4: Vec<String>, v6: Vec<String> }

#[derive(Clone, Debug, Default)]
struct SlurmSpec {
    pf: Vec<(Option<APrefix>, Option<u32>)>,
    kf: Vec<(Option<usize>, Option<u32>)>,
    pa: Vec<AVrp>,
    ka: Vec<(usize, u32, usize)>,
}

#[derive(Clone, Debug)]
struct Spec { cfg: Cfg, rejected: Vec<RejSpec>, points: Vec<PointSpec>, slurm: Vec<SlurmSpec> }

fn opt_u8(v: &Value) -> Option<u8> { v.as_u64().map(|x| x as u8) }

fn expand_providers(v: &Value) -> Option<Vec<u32>> {
    let mut res = Vec::new();
    for item in v.as_array()? {
        if let Some(n) = item.as_u64() { res.push(n as u32) }
        else {
            let lo = item.get(0)?.as_u64()? as u32;
            let hi = item.get(1)?.as_u64()? as u32;
            if hi < lo || hi - lo > 40_000 { return None }
            res.extend(lo..=hi)
        }
    }
    res.sort();
    res.dedup();
    Some(res)
}

impl Spec {
    fn from_json(v: &Value) -> Option<Spec> {
        let c = v.get("cfg")?;
        let cfg = Cfg {
            bgpsec: c.get("bgpsec")?.as_bool()?, aspa: c.get("aspa")?.as_bool()?,
            l4: opt_u8(&c["l4"]), l6: opt_u8(&c["l6"]),
            policy: c.get("unsafe")?.as_str()?.to_string(),
        };
        if !matches!(cfg.policy.as_str(), "reject" | "warn" | "accept") { return None }
        let strs = |x: &Value| -> Option<Vec<String>> {
            x.as_array()?.iter().map(|s| s.as_str().map(|s| s.to_string())).collect()
        };
        // A certificate's resource set is canonical (RFC 3779: sorted, maximal,
        // prefixes where possible); the given blocks are brought into that form.
        let rejected = v.get("rejected")?.as_array()?.iter().map(|r| Some(RejSpec {
            tal: r.get("tal")?.as_u64()? as usize % 2,
            v4: canonical_blocks(true, &strs(r.get("v4")?)?)?,
            v6: canonical_blocks(false, &strs(r.get("v6")?)?)?,
        })).collect::<Option<Vec<_>>>()?;
        let points = v.get("points")?.as_array()?.iter().map(|p| Some(PointSpec {
            tal: p.get("tal")?.as_u64()? as usize % 2,
            child: p.get("child").and_then(|c| c.as_bool()).unwrap_or(false),
            roas: p.get("roas")?.as_array()?.iter().map(|r| Some(RoaSpec {
                asn: r.get("asn")?.as_u64()? as u32,
                addrs: r.get("addrs")?.as_array()?.iter().map(|a| {
                    let p = APrefix::parse_relaxed(a.get(0)?.as_str()?)?;
                    let m = opt_u8(a.get(1)?);
                    if let Some(m) = m {
                        if (m as usize) < p.len() || (m as usize) > APrefix::fam_len(p.v4) { return None }
                    }
                    Some((p, m))
                }).collect::<Option<Vec<_>>>()?,
            })).collect::<Option<Vec<_>>>()?,
            routers: p.get("routers")?.as_array()?.iter().map(|r| Some(RouterSpec {
                key: r.get("key")?.as_u64()? as usize % ROUTER_KEYS,
                asns: r.get("asns")?.as_array()?.iter().map(|b| {
                    let lo = b.get(0)?.as_u64()? as u32;
                    let hi = b.get(1)?.as_u64()? as u32;
                    if hi < lo || hi - lo > 64 { return None }
                    Some((lo, hi))
                }).collect::<Option<Vec<_>>>()?,
            })).collect::<Option<Vec<_>>>()?,
            aspas: p.get("aspas")?.as_array()?.iter().map(|a| Some(AspaSpec {
                customer: a.get("c")?.as_u64()? as u32,
                providers: expand_providers(a.get("p")?)?,
            })).collect::<Option<Vec<_>>>()?,
        })).collect::<Option<Vec<_>>>()?;
        let slurm = v.get("slurm")?.as_array()?.iter().map(|s| Some(SlurmSpec {
            pf: s.get("pf")?.as_array()?.iter().map(|f| Some((
                match f.get("p")? { Value::Null => None, p => Some(APrefix::parse_relaxed(p.as_str()?)?) },
                f.get("a")?.as_u64().map(|a| a as u32),
            ))).collect::<Option<Vec<_>>>()?,
            kf: s.get("kf")?.as_array()?.iter().map(|f| Some((
                f.get("ski")?.as_u64().map(|k| k as usize % ROUTER_KEYS),
                f.get("a")?.as_u64().map(|a| a as u32),
            ))).collect::<Option<Vec<_>>>()?,
            pa: s.get("pa")?.as_array()?.iter().map(AVrp::from_json).collect::<Option<Vec<_>>>()?,
            ka: s.get("ka")?.as_array()?.iter().map(|k| Some((
                k.get("ski")?.as_u64()? as usize % ROUTER_KEYS, k.get("a")?.as_u64()? as u32,
                k.get("key")?.as_u64()? as usize % ROUTER_KEYS,
            ))).collect::<Option<Vec<_>>>()?,
        })).collect::<Option<Vec<_>>>()?;
        // A customer must not be among its own providers (the ASPA profile).
        // and a decoded ASPA has 1..=16380 providers.
        for p in &points { for a in &p.aspas {
            if a.providers.contains(&a.customer) || a.providers.is_empty() || a.providers.len() > MAX_PROVIDERS {
                return None
            }
        }}
        Some(Spec { cfg, rejected, points, slurm })
    }
}

// ---------------------------------------------------------- implementation

/// What the real snapshot contains, in snapshot order.
#[derive(Clone, Debug, PartialEq, Eq)]
struct Served {
    origins: Vec<AVrp>,
    keys: Vec<(usize, u32, usize)>,
    aspas: Vec<(u32, Vec<u32>)>,
    /// violations of strict ordering in Rust's `Ord`
    unsorted: Vec<String>,
}

fn runs(l: &[u32]) -> String {
    let mut out: Vec<String> = Vec::new();
    let mut i = 0;
    while i < l.len() {
        let mut j = i;
        while j + 1 < l.len() && l[j + 1] == l[j] + 1 { j += 1 }
        out.push(if i == j { l[i].to_string() } else { format!("{}-{}", l[i], l[j]) });
        i = j + 1;
    }
    out.join(",")
}

impl Served {
    fn line(&self) -> String {
        format!("O={} K={} A={}",
            self.origins.iter().map(|v| v.item()).collect::<Vec<_>>().join(","),
            self.keys.iter().map(|(k, a, i)| format!("{k}.{a}.{i}")).collect::<Vec<_>>().join(","),
            self.aspas.iter().map(|(c, p)| format!("{c}:{}", runs(p))).collect::<Vec<_>>().join(";"))
    }
    fn to_json(&self) -> Value {
        json!({
            "origins": self.origins.iter().map(|v| v.to_json()).collect::<Vec<_>>(),
            "router_keys": self.keys,
            "aspas": self.aspas.iter().map(|(c, p)| json!([c, runs(p)])).collect::<Vec<_>>(),
            "unsorted": self.unsorted,
        })
    }
}

/// The pieces of the request line that are read back from the real objects.
struct ModelView {
    certs: Vec<String>,
    points: Vec<String>,
    origin_universe: Vec<RouteOrigin>,
    key_universe: Vec<RouterKey>,
}

fn block_model(b: &IpBlock) -> String {
    let plen = match b { IpBlock::Prefix(p) => p.addr_len().to_string(), IpBlock::Range(_) => "-".into() };
    format!("{},{},{}", b.min().to_bits(), b.max().to_bits(), plen)
}

fn policy_of(s: &str) -> FilterPolicy {
    match s { "reject" => FilterPolicy::Reject, "warn" => FilterPolicy::Warn, _ => FilterPolicy::Accept }
}

fn slurm_json(fx: &Fixture, s: &SlurmSpec) -> String {
    let filters = ValidationOutputFilters::new(
        s.pf.iter().map(|(p, a)| PrefixFilter::new(
            p.as_ref().map(|p| p.to_real()), a.map(Asn::from_u32), None
        )).collect::<Vec<_>>(),
        s.kf.iter().map(|(k, a)| BgpsecFilter::new(
            k.map(|k| fx.ski(k)), a.map(Asn::from_u32), None
        )).collect::<Vec<_>>(),
    );
    let assertions = LocallyAddedAssertions::new(
        s.pa.iter().map(|v| {
            let o = v.to_real();
            PrefixAssertion::new(o.prefix, o.asn, Some("local".into()))
        }).collect::<Vec<_>>(),
        s.ka.iter().map(|(k, a, i)| BgpsecAssertion::new(
            Asn::from_u32(*a), fx.ski(*k),
            fx.key_info(*i).into_bytes().try_into().expect("key info"), None
        )).collect::<Vec<_>>(),
    );
    SlurmFile::new(filters, assertions).to_string()
}

/// Runs the real code. `order` permutes publication points, the objects in
/// them, the rejected certificates and the exception files.
fn run_real(fx: &Fixture, spec: &Spec, order: Option<&mut Rng>) -> Result<(Served, ModelView), String> {
    let mut spec = spec.clone();
    if let Some(rng) = order {
        rng.shuffle(&mut spec.points);
        rng.shuffle(&mut spec.rejected);
        rng.shuffle(&mut spec.slurm);
        for p in spec.points.iter_mut() {
            rng.shuffle(&mut p.roas);
            rng.shuffle(&mut p.routers);
            rng.shuffle(&mut p.aspas);
            for r in p.roas.iter_mut() { rng.shuffle(&mut r.addrs) }
        }
        for s in spec.slurm.iter_mut() {
            rng.shuffle(&mut s.pf); rng.shuffle(&mut s.kf); rng.shuffle(&mut s.pa); rng.shuffle(&mut s.ka);
        }
        for r in spec.rejected.iter_mut() { rng.shuffle(&mut r.v4); rng.shuffle(&mut r.v6) }
    }
    let mut config = base_config();
    config.enable_bgpsec = spec.cfg.bgpsec;
    config.enable_aspa = spec.cfg.aspa;
    config.limit_v4_len = spec.cfg.l4;
    config.limit_v6_len = spec.cfg.l6;
    config.unsafe_vrps = policy_of(&spec.cfg.policy);
    let report = ValidationReport::new(&config);
    let mut view = ModelView { certs: vec![], points: vec![], origin_universe: vec![], key_universe: vec![] };

    let uri = |s: &str| -> rpki::uri::Rsync { std::str::FromStr::from_str(s).expect("uri") };
    let obj_uri = uri("rsync://ta0.example/repo/object.roa");

    // accepted publication points
    for p in &spec.points {
        let t = &fx.tals[p.tal];
        let root = (&report).process_ta(&t.tal, &t.tal_uri, &t.ta, p.tal)
            .map_err(|_| "process_ta failed")?.ok_or("process_ta declined")?;
        let mut root = root;
        let mut proc = if p.child {
            root.process_ca(&uri("rsync://ta0.example/repo/child.cer"), &t.child)
                .map_err(|_| "process_ca failed")?.ok_or("process_ca declined")?
        } else { root.clone() };
        let mut roas_model = Vec::new();
        for r in &p.roas {
            if r.addrs.is_empty() { continue }
            let att = fx.roa(r.asn, &r.addrs.iter().map(|(p, m)| (p.text(), *m)).collect::<Vec<_>>())?;
            let origins: Vec<RouteOrigin> = att.iter_origins().collect();
            roas_model.push(origins.iter().map(|o| AVrp::from_real(o).model()).collect::<Vec<_>>().join(" "));
            view.origin_universe.extend(origins);
            proc.process_roa(&obj_uri, t.ee.clone(), att).map_err(|_| "process_roa failed")?;
        }
        let mut routers_model = Vec::new();
        for r in &p.routers {
            let cert = fx.router_cert(p.tal, r.key, &r.asns)?;
            let blocks = cert.as_resources().to_blocks().map_err(|_| "router cert resources")?;
            routers_model.push(format!("{},{},{}", r.key, r.key,
                blocks.iter().map(|b| format!("{}-{}", b.min().into_u32(), b.max().into_u32()))
                    .collect::<Vec<_>>().join("+")));
            for asn in blocks.iter_asns() {
                view.key_universe.push(RouterKey::new(fx.ski(r.key), asn, fx.key_info(r.key)));
            }
            proc.process_router_cert(&uri("rsync://ta0.example/repo/router.cer"), cert, &t.ta)
                .map_err(|_| "process_router_cert failed")?;
        }
        let mut aspas_model = Vec::new();
        for a in &p.aspas {
            let att = fx.aspa(a.customer, &a.providers)?;
            let provs: Vec<u32> = att.provider_as_set().iter().map(|x| x.into_u32()).collect();
            aspas_model.push(format!("{}:{}", att.customer_as().into_u32(), runs(&provs)));
            proc.process_aspa(&uri("rsync://ta0.example/repo/object.asa"), t.ee.clone(), att)
                .map_err(|_| "process_aspa failed")?;
        }
        proc.commit();
        view.points.push(format!("{}/{}/{}", roas_model.join("~"), routers_model.join(" "), aspas_model.join(" ")));
    }

    // rejected CAs: the engine calls `cancel` on the point's processor
    for r in &spec.rejected {
        let t = &fx.tals[r.tal];
        let ca = fx.ca_with_resources(r.tal, &r.v4, &r.v6)?;
        let mut root = (&report).process_ta(&t.tal, &t.tal_uri, &t.ta, r.tal)
            .map_err(|_| "process_ta failed")?.ok_or("process_ta declined")?;
        let proc = root.process_ca(&uri("rsync://ta0.example/repo/rejected.cer"), &ca)
            .map_err(|_| "process_ca failed")?.ok_or("process_ca declined")?;
        view.certs.push(format!("{}/{}",
            ca.cert().v4_resources().iter().map(|b| block_model(&b)).collect::<Vec<_>>().join(" "),
            ca.cert().v6_resources().iter().map(|b| block_model(&b)).collect::<Vec<_>>().join(" ")));
        proc.cancel(&ca);
    }

    // exceptions: every file through the real JSON loader
    let mut exceptions = LocalExceptions::empty();
    for (i, s) in spec.slurm.iter().enumerate() {
        exceptions.extend_from_json(&slurm_json(fx, s), i % 2 == 0)
            .map_err(|e| format!("exceptions: {e}"))?;
        for v in &s.pa { view.origin_universe.push(v.to_real()) }
        for (k, a, i) in &s.ka {
            view.key_universe.push(RouterKey::new(fx.ski(*k), Asn::from_u32(*a), fx.key_info(*i)));
        }
    }

    let mut metrics = Metrics::new();
    for t in &fx.tals { metrics.tals.push(TalMetrics::new(t.tal.info().clone())) }
    let snapshot: PayloadSnapshot = report.into_snapshot(&exceptions, &mut metrics);

    let mut served = Served { origins: vec![], keys: vec![], aspas: vec![], unsorted: vec![] };
    let origins: Vec<RouteOrigin> = snapshot.origins().map(|(o, _)| o).collect();
    for w in origins.windows(2) {
        if w[0] >= w[1] { served.unsorted.push(format!("origins {:?} !< {:?}", w[0], w[1])) }
    }
    // identity is (prefix, resolved max length, AS): which of an implicit and an
    // explicit max length survives depends on the processing order and is not
    // observable through `Eq`
    served.origins = origins.iter().map(|o| {
        let v = AVrp::from_real(o);
        AVrp { max_len: Some(v.resolved() as u8), ..v }
    }).collect();
    let keys: Vec<&RouterKey> = snapshot.router_keys().map(|(k, _)| k).collect();
    for w in keys.windows(2) {
        if w[0] >= w[1] { served.unsorted.push("router keys out of order".into()) }
    }
    for k in keys {
        served.keys.push((
            fx.ski_index(k.key_identifier).ok_or("unknown SKI served")?, k.asn.into_u32(),
            fx.info_index(&k.key_info).ok_or("unknown key info served")?,
        ));
    }
    let aspas: Vec<_> = snapshot.aspas().map(|(a, _)| a).collect();
    for w in aspas.windows(2) {
        if w[0] >= w[1] { served.unsorted.push("aspas out of order".into()) }
    }
    for a in aspas {
        served.aspas.push((a.customer.into_u32(), a.providers.iter().map(|p| p.into_u32()).collect()));
    }
    Ok((served, view))
}

fn request_line(fx: &Fixture, comp: &str, spec: &Spec, view: &ModelView) -> String {
    let o = |x: Option<u8>| x.map(|v| v.to_string()).unwrap_or("-".into());
    let settings = format!("{} {} {} {} {}", spec.cfg.bgpsec as u8, spec.cfg.aspa as u8,
        o(spec.cfg.l4), o(spec.cfg.l6), &spec.cfg.policy[..1]);
    let on = |x: Option<u32>| x.map(|v| v.to_string()).unwrap_or("-".into());
    let mut pf = Vec::new(); let mut kf = Vec::new(); let mut pa = Vec::new(); let mut ka = Vec::new();
    for s in &spec.slurm {
        for (p, a) in &s.pf {
            pf.push(format!("{},{}", p.as_ref().map(|p| p.model().replace(',', ".")).unwrap_or("-".into()), on(*a)));
        }
        for (k, a) in &s.kf { kf.push(format!("{},{}", k.map(|k| k.to_string()).unwrap_or("-".into()), on(*a))) }
        for v in &s.pa { pa.push(v.model()) }
        for (k, a, i) in &s.ka { ka.push(format!("{k},{a},{i}")) }
    }
    // ranks in Rust's `Ord`
    let mut ou = view.origin_universe.clone();
    ou.sort();
    ou.dedup();
    let oranks = ou.iter().enumerate().map(|(r, x)| {
        let v = AVrp::from_real(x);
        format!("{r}={},{},{}", v.pfx.model(), v.resolved(), v.asn)
    }).collect::<Vec<_>>().join(" ");
    let mut ku = view.key_universe.clone();
    ku.sort();
    ku.dedup();
    let kranks = ku.iter().enumerate().map(|(r, k)| format!("{r}={},{},{}",
        fx.ski_index(k.key_identifier).unwrap_or(99), k.asn.into_u32(), fx.info_index(&k.key_info).unwrap_or(99)
    )).collect::<Vec<_>>().join(" ");
    format!("{comp} {settings}|{}|{}|{}/{}/{}/{}|{oranks}|{kranks}",
        view.certs.join(";"), view.points.join(";"),
        pf.join(" "), kf.join(" "), pa.join(" "), ka.join(" "))
}

// ------------------------------------------------------------------- oracle

/// A block `a/len` or `a-b` as an interval of family-width numbers.
fn block_interval(s: &str) -> Option<(u128, u128)> {
    if s.contains('/') {
        let p = APrefix::parse_relaxed(s)?;
        Some((p.min_addr(), p.max_addr()))
    } else {
        let (a, b) = s.split_once('-')?;
        let a: std::net::IpAddr = a.parse().ok()?;
        let b: std::net::IpAddr = b.parse().ok()?;
        let num = |x: std::net::IpAddr| match x {
            std::net::IpAddr::V4(x) => u32::from(x) as u128,
            std::net::IpAddr::V6(x) => u128::from(x),
        };
        Some((num(a), num(b)))
    }
}

/// The maximal intervals of a list of blocks.
fn merge_intervals(blocks: &[String]) -> Option<Vec<(u128, u128)>> {
    let mut iv: Vec<(u128, u128)> = blocks.iter().map(|s| block_interval(s)).collect::<Option<_>>()?;
    if iv.iter().any(|(a, b)| a > b) { return None }
    iv.sort();
    let mut res: Vec<(u128, u128)> = Vec::new();
    for (lo, hi) in iv {
        match res.last_mut() {
            Some(last) if last.1 == u128::MAX || lo <= last.1 + 1 => { if hi > last.1 { last.1 = hi } }
            _ => res.push((lo, hi)),
        }
    }
    Some(res)
}

/// Canonical form: maximal intervals, written as a prefix where possible.
fn canonical_blocks(v4: bool, blocks: &[String]) -> Option<Vec<String>> {
    let w = APrefix::fam_len(v4) as u32;
    Some(merge_intervals(blocks)?.into_iter().map(|(lo, hi)| {
        let size_m1 = hi - lo;                       // size - 1
        let pow2 = size_m1 & size_m1.wrapping_add(1) == 0;  // size is a power of two
        if pow2 && lo & size_m1 == 0 {
            let host_bits = 128 - size_m1.leading_zeros();
            format!("{}/{}", addr_text(v4, lo), w - host_bits)
        } else {
            format!("{}-{}", addr_text(v4, lo), addr_text(v4, hi))
        }
    }).collect())
}

/// The maximal intervals of a resource set, without whole-family ones.
fn merged_without_whole(blocks: &[String], v4: bool) -> Vec<(u128, u128)> {
    let res = merge_intervals(blocks).unwrap_or_default();
    let top = if v4 { u32::MAX as u128 } else { u128::MAX };
    res.into_iter().filter(|iv| *iv != (0, top)).collect()
}

fn is_unsafe(spec: &Spec, p: &APrefix) -> bool {
    let (lo, hi) = (p.min_addr(), p.max_addr());
    spec.rejected.iter().any(|r| {
        merged_without_whole(if p.v4 { &r.v4 } else { &r.v6 }, p.v4).iter()
            .any(|(a, b)| *a <= hi && *b >= lo)
    })
}

struct Expected {
    origins: BTreeSet<(APrefix, usize, u32)>,
    keys: BTreeSet<(usize, u32, usize)>,
    aspas: BTreeMap<u32, Vec<u32>>,
}

fn expected(spec: &Spec) -> Expected {
    let mut origins = BTreeSet::new();
    for p in &spec.points { for r in &p.roas { for (pfx, max) in &r.addrs {
        let limit = if pfx.v4 { spec.cfg.l4 } else { spec.cfg.l6 };
        if let Some(l) = limit { if pfx.len() > l as usize { continue } }
        if spec.cfg.policy == "reject" && is_unsafe(spec, pfx) { continue }
        let dropped = spec.slurm.iter().any(|s| s.pf.iter().any(|(fp, fa)| {
            (fp.is_some() || fa.is_some())
                && fp.as_ref().map(|fp| fp.covers(pfx)).unwrap_or(true)
                && fa.map(|fa| fa == r.asn).unwrap_or(true)
        }));
        if dropped { continue }
        origins.insert(AVrp { pfx: pfx.clone(), max_len: *max, asn: r.asn }.key());
    }}}
    for s in &spec.slurm { for v in &s.pa { origins.insert(v.key()); } }
    let mut keys = BTreeSet::new();
    if spec.cfg.bgpsec {
        for p in &spec.points { for r in &p.routers { for (lo, hi) in &r.asns { for asn in *lo..=*hi {
            let dropped = spec.slurm.iter().any(|s| s.kf.iter().any(|(fk, fa)| {
                (fk.is_some() || fa.is_some())
                    && fk.map(|fk| fk == r.key).unwrap_or(true)
                    && fa.map(|fa| fa == asn).unwrap_or(true)
            }));
            if !dropped { keys.insert((r.key, asn, r.key)); }
        }}}}
    }
    for s in &spec.slurm { for k in &s.ka { keys.insert(*k); } }
    let mut aspas: BTreeMap<u32, BTreeSet<u32>> = BTreeMap::new();
    if spec.cfg.aspa {
        for p in &spec.points { for a in &p.aspas {
            aspas.entry(a.customer).or_default().extend(a.providers.iter().copied());
        }}
    }
    let aspas = aspas.into_iter().filter(|(_, p)| p.len() <= MAX_PROVIDERS)
        .map(|(c, p)| (c, p.into_iter().collect())).collect();
    Expected { origins, keys, aspas }
}

fn oracle_c09(ctx: &mut Ctx, input: &Value, spec: &Spec, served: &Served) {
    let exp = expected(spec);
    let obs = served.to_json();
    let got: BTreeSet<_> = served.origins.iter().map(|v| v.key()).collect();
    if got.len() != served.origins.len() {
        ctx.oracle_fail("duplicate-origin", "a route origin is served twice", input, obs.clone());
    }
    if got != exp.origins {
        let extra: Vec<_> = got.difference(&exp.origins).map(|k| format!("{}-{} AS{}", k.0.text(), k.1, k.2)).collect();
        let missing: Vec<_> = exp.origins.difference(&got).map(|k| format!("{}-{} AS{}", k.0.text(), k.1, k.2)).collect();
        let class = if !extra.is_empty() && !missing.is_empty() { "origins-differ" }
            else if !extra.is_empty() { "origin-served-but-not-in-expression" } else { "origin-missing" };
        ctx.oracle_fail(class, &format!("served origins differ from the documented set: extra {extra:?} missing {missing:?}"),
            input, obs.clone());
    }
    let gk: BTreeSet<_> = served.keys.iter().cloned().collect();
    if gk.len() != served.keys.len() {
        ctx.oracle_fail("duplicate-router-key", "a router key is served twice", input, obs.clone());
    }
    if gk != exp.keys {
        let class = if !spec.cfg.bgpsec && gk.iter().any(|k| !spec.slurm.iter().any(|s| s.ka.contains(k))) {
            "router-key-while-disabled" } else { "router-keys-differ" };
        ctx.oracle_fail(class, "served router keys differ from the documented set", input, obs.clone());
    }
    let ga: BTreeMap<u32, Vec<u32>> = served.aspas.iter().cloned().collect();
    if ga.len() != served.aspas.len() {
        ctx.oracle_fail("duplicate-aspa-customer", "two ASPAs for one customer", input, obs.clone());
    }
    if ga != exp.aspas {
        let class = if !spec.cfg.aspa && !ga.is_empty() { "aspa-while-disabled" }
            else if ga.values().any(|p| p.len() > MAX_PROVIDERS) { "aspa-too-large-served" }
            else if ga.len() != exp.aspas.len() { "aspa-customers-differ" } else { "aspa-providers-not-union" };
        ctx.oracle_fail(class, "served ASPAs are not the per-customer unions of the validated ASPAs",
            input, obs.clone());
    }
    if !served.unsorted.is_empty() {
        ctx.oracle_fail("not-sorted", "snapshot is not strictly sorted", input, obs);
    }
}

/// C08 proper: the unsafe filter alone.
fn oracle_c08(ctx: &mut Ctx, input: &Value, spec: &Spec, served: &Served) {
    let obs = served.to_json();
    let asserted: BTreeSet<_> = spec.slurm.iter().flat_map(|s| s.pa.iter().map(|v| v.key())).collect();
    let got: BTreeSet<_> = served.origins.iter().map(|v| v.key()).collect();
    if spec.cfg.policy == "reject" {
        for v in &served.origins {
            if !asserted.contains(&v.key()) && is_unsafe(spec, &v.pfx) {
                ctx.oracle_fail("unsafe-vrp-served",
                    &format!("{} overlaps the resources of a rejected CA but is served under 'reject'", v.pfx.text()),
                    input, obs.clone());
                break
            }
        }
    }
    // Nothing else is removed by this filter: compare with the expression
    // evaluated without it (`accept`), restricted to safe prefixes.
    let mut relaxed = spec.clone();
    relaxed.cfg.policy = "accept".into();
    let all = expected(&relaxed).origins;
    for k in &all {
        let removed_ok = spec.cfg.policy == "reject" && is_unsafe(spec, &k.0) && !asserted.contains(k);
        if !removed_ok && !got.contains(k) {
            let class = if spec.cfg.policy == "reject" { "safe-vrp-removed" } else { "vrp-removed-without-reject" };
            ctx.oracle_fail(class,
                &format!("{} AS{} is not served although the unsafe filter must not remove it", k.0.text(), k.2),
                input, obs.clone());
            break
        }
    }
}

// ---------------------------------------------------------------- generator

fn lim_choices(v4: bool) -> Vec<Option<u8>> {
    if v4 { vec![None, None, Some(24), Some(32), Some(31), Some(16), Some(0)] }
    else { vec![None, None, Some(48), Some(128), Some(127), Some(32), Some(33), Some(64)] }
}

struct Anchors { v4: APrefix, v6: APrefix }

fn near_lengths(limit: Option<u8>, v4: bool) -> Vec<usize> {
    let fam = APrefix::fam_len(v4);
    let mut res = vec![fam, fam - 1];
    if let Some(l) = limit {
        for d in [-1i32, 0, 1] {
            let x = l as i32 + d;
            if x >= 0 && x as usize <= fam { res.push(x as usize) }
        }
    }
    if !v4 { res.extend([32, 33]) }
    res
}

fn gen_prefix(rng: &mut Rng, an: &Anchors, cfg: &Cfg) -> APrefix {
    let v4 = rng.chance(1, 2);
    let a = if v4 { &an.v4 } else { &an.v6 };
    let fam = APrefix::fam_len(v4);
    match rng.below(8) {
        0 => a.clone(),
        1 => a.truncate(rng.below(a.len() as u64 + 1) as usize),
        2 | 3 => {
            let l = *rng.pick(&near_lengths(if v4 { cfg.l4 } else { cfg.l6 }, v4));
            if l >= a.len() { a.extend(rng, l) } else { a.truncate(l) }
        }
        4 => { let l = a.len() + rng.below((fam - a.len()) as u64 + 1) as usize; a.extend(rng, l) }
        5 => if a.len() > 0 { a.flip(a.len() - 1) } else { a.clone() },
        6 => if a.len() > 1 { let l = 1 + rng.below(a.len() as u64 - 1) as usize; a.truncate(l + 1).flip(l) } else { a.clone() },
        _ => { let l = rng.below(fam as u64 + 1) as usize; APrefix::random(rng, v4, l) }
    }
}

fn gen_max(rng: &mut Rng, p: &APrefix) -> Option<u8> {
    let fam = APrefix::fam_len(p.v4);
    match rng.below(4) {
        0 => None,
        1 => Some(p.len() as u8),
        2 => Some(fam as u8),
        _ => Some((p.len() + rng.below((fam - p.len()) as u64 + 1) as usize) as u8),
    }
}

fn addr_text(v4: bool, x: u128) -> String {
    if v4 { std::net::Ipv4Addr::from(x as u32).to_string() } else { std::net::Ipv6Addr::from(x).to_string() }
}

/// A rejected block positioned relative to `p`.
fn gen_block(rng: &mut Rng, p: &APrefix) -> String {
    let fam = APrefix::fam_len(p.v4);
    let top = if p.v4 { u32::MAX as u128 } else { u128::MAX };
    let (lo, hi) = (p.min_addr(), p.max_addr());
    let range = |a: u128, b: u128| format!("{}-{}", addr_text(p.v4, a), addr_text(p.v4, b));
    match rng.below(12) {
        0 => p.text(),                                                        // equal
        1 => p.truncate(rng.below(p.len() as u64 + 1) as usize).text(),       // covering
        2 => { let l = p.len() + rng.below((fam - p.len()) as u64 + 1) as usize; p.extend(rng, l).text() } // nested
        3 => if p.len() > 0 { p.flip(p.len() - 1).text() } else { p.text() }, // the adjacent sibling
        4 => if lo > 0 { range(lo.saturating_sub(1 + rng.below(16) as u128), lo - 1) } else { p.text() }, // ends right before
        5 => if hi < top { range(hi + 1, (hi + 1).saturating_add(rng.below(16) as u128).min(top)) } else { p.text() }, // starts right after
        6 => if lo > 0 { range(lo.saturating_sub(1 + rng.below(16) as u128), lo) } else { p.text() },      // touches first address
        7 => if hi < top { range(hi, (hi + 1).saturating_add(rng.below(16) as u128).min(top)) } else { p.text() }, // touches last address
        8 => APrefix { v4: p.v4, bits: vec![] }.text(),                       // whole family
        9 => range(lo, hi),                                                   // the prefix as a range
        10 => if top - hi > 2 { range(lo.saturating_add(1), hi.saturating_add(1)) } else { p.text() },
        _ => { let l = rng.below(fam as u64 + 1) as usize; APrefix::random(rng, p.v4, l).text() }
    }
}

const ROA_ASNS: [u32; 3] = [64496, 64497, 0];
const CUSTOMERS: [u32; 3] = [65000, 65001, 65002];

fn gen_spec(rng: &mut Rng, i: usize, focus_unsafe: bool) -> Value {
    let cfg = Cfg {
        bgpsec: rng.chance(2, 3), aspa: rng.chance(2, 3),
        l4: if focus_unsafe { None } else { *rng.pick(&lim_choices(true)) },
        l6: if focus_unsafe { None } else { *rng.pick(&lim_choices(false)) },
        policy: ["reject", "warn", "accept"][if focus_unsafe { i % 3 } else { rng.below(3) as usize }].into(),
    };
    let an = Anchors {
        v4: { let l = 8 + rng.below(17) as usize; APrefix::random(rng, true, l) },
        v6: { let l = 16 + rng.below(33) as usize; APrefix::random(rng, false, l) },
    };
    let mut seen: Vec<(APrefix, Option<u8>, u32)> = Vec::new();
    let npoints = 1 + rng.below(4) as usize;
    let mut points = Vec::new();
    for _ in 0..npoints {
        let mut roas = Vec::new();
        for _ in 0..rng.below(4) {
            let asn = *rng.pick(&ROA_ASNS);
            let mut addrs = Vec::new();
            for _ in 0..1 + rng.below(4) {
                let (p, m) = if !seen.is_empty() && rng.chance(1, 4) {
                    // a duplicate (same AS or not; explicit vs implicit max length)
                    let (p, m, _) = rng.pick(&seen).clone();
                    let m = match (m, rng.below(3)) {
                        (None, 0) => Some(p.len() as u8),
                        (Some(x), 0) if x as usize == p.len() => None,
                        (m, _) => m
                    };
                    (p, m)
                } else { let p = gen_prefix(rng, &an, &cfg); let m = gen_max(rng, &p); (p, m) };
                seen.push((p.clone(), m, asn));
                addrs.push(json!([p.text(), m]));
            }
            roas.push(json!({"asn": asn, "addrs": addrs}));
        }
        let mut routers = Vec::new();
        if !focus_unsafe {
            for _ in 0..rng.below(3) {
                let lo = 64500 + rng.below(4) as u32;
                let mut asns = vec![json!([lo, lo + rng.below(3) as u32])];
                if rng.chance(1, 3) { asns.push(json!([64510, 64510])) }
                routers.push(json!({"key": rng.below(ROUTER_KEYS as u64), "asns": asns}));
            }
        }
        let mut aspas = Vec::new();
        if !focus_unsafe {
            for _ in 0..rng.below(3) {
                let c = *rng.pick(&CUSTOMERS);
                let mut p: Vec<u32> = (0..1 + rng.below(5)).map(|_| 1 + rng.below(12) as u32).collect();
                p.sort(); p.dedup();
                aspas.push(json!({"c": c, "p": p}));
            }
        }
        points.push(json!({"tal": rng.below(2), "child": rng.chance(1, 3), "roas": roas,
            "routers": routers, "aspas": aspas}));
    }
    // Provider sets around the encoding limit for customer 65100: 1..4 objects
    // drawn from a small menu (so the signed 16k-provider objects are built once
    // and reused), the union crossing 16380 after the 1st+2nd object, after a
    // later one, only with the last, or never; small and large tails. Objects
    // are spread over the points in generation order; other orders come from
    // the permuted re-runs.
    if !focus_unsafe && i % 23 == 7 {
        let b = 100_000u32;
        let big: [(u32, u32); 3] = [(b, b + 16377), (b, b + 16378), (b, b + 16379)];   // 16378, 16379, 16380
        let half: [(u32, u32); 3] = [(b, b + 8999), (b + 8000, b + 16500), (b + 9000, b + 16379)];
        let tails: [Vec<u32>; 6] = [
            vec![b + 16380], vec![b + 16381], vec![b + 16380, b + 16381], vec![b + 5], vec![5], vec![200_000, 200_001],
        ];
        let r = |x: (u32, u32)| json!([[x.0, x.1]]);
        let t = |rng: &mut Rng| json!(rng.pick(&tails).clone());
        let objs: Vec<Value> = match rng.below(10) {
            0 => vec![r(*rng.pick(&big))],
            1 => vec![r(*rng.pick(&big)), t(rng)],
            // overflow (possibly) with 1st+2nd, then more objects follow
            2 => vec![r(big[2]), t(rng), t(rng)],
            3 => vec![r(*rng.pick(&big)), t(rng), t(rng), t(rng)],
            // small objects first, the big one in the middle or last
            4 => vec![t(rng), r(*rng.pick(&big)), t(rng)],
            5 => vec![t(rng), t(rng), r(*rng.pick(&big))],
            // two large halves (union 16501 / 16380 / 16500) and small tails
            6 => vec![r(half[0]), r(half[1]), t(rng)],
            7 => vec![r(half[0]), r(half[2]), t(rng), t(rng)],
            8 => vec![t(rng), r(half[0]), r(half[1]), t(rng)],
            // never overflows: inside tails only
            _ => vec![r(big[0]), json!([b + 5]), json!([b + 7, b + 9]), json!([b + 16377])],
        };
        let k = points.len();
        for o in objs {
            let at = rng.below(k as u64) as usize;
            points[at]["aspas"].as_array_mut().unwrap().push(json!({"c": 65100, "p": o}));
        }
    }
    // The same item three or four times (router certificate, ROA address with
    // implicit/explicit max length) spread over the points.
    if !focus_unsafe && i % 11 == 3 {
        let k = points.len();
        let router = json!({"key": rng.below(ROUTER_KEYS as u64), "asns": [[64500 + rng.below(3), 64503]]});
        let (p, m, asn) = if seen.is_empty() {
            let p = gen_prefix(rng, &an, &cfg); let m = gen_max(rng, &p); (p, m, 64496)
        } else { rng.pick(&seen).clone() };
        for j in 0..3 + rng.below(2) {
            let at = rng.below(k as u64) as usize;
            points[at]["routers"].as_array_mut().unwrap().push(router.clone());
            let m = match (m, j % 2) { (None, 1) => Some(p.len() as u8), (Some(x), 1) if x as usize == p.len() => None, (m, _) => m };
            let at = rng.below(k as u64) as usize;
            points[at]["roas"].as_array_mut().unwrap().push(json!({"asn": asn, "addrs": [[p.text(), m]]}));
        }
    }
    let mut rejected = Vec::new();
    let nrej = if focus_unsafe { 1 + rng.below(2) } else { rng.below(3) };
    for _ in 0..nrej {
        let mut v4 = Vec::new(); let mut v6 = Vec::new();
        for _ in 0..rng.below(4) {
            let base = if !seen.is_empty() && rng.chance(2, 3) { rng.pick(&seen).0.clone() }
                else if rng.chance(1, 2) { an.v4.clone() } else { an.v6.clone() };
            let b = gen_block(rng, &base);
            if base.v4 { v4.push(b) } else { v6.push(b) }
        }
        if rng.chance(1, 12) { v4.push("0.0.0.0/1".into()); v4.push("128.0.0.0/1".into()) }
        if rng.chance(1, 12) { v6.push("::/1".into()); v6.push("8000::/1".into()) }
        rejected.push(json!({"tal": rng.below(2), "v4": v4, "v6": v6}));
    }
    let mut slurm = Vec::new();
    let nfiles = if focus_unsafe { rng.below(5) / 4 } else { rng.below(3) };
    for _ in 0..nfiles {
        let mut pf = Vec::new();
        for _ in 0..rng.below(3) {
            let p = if rng.chance(3, 4) {
                let base = if !seen.is_empty() && rng.chance(1, 2) { rng.pick(&seen).0.clone() } else { gen_prefix(rng, &an, &cfg) };
                let l = rng.below(base.len() as u64 + 1) as usize;
                Some(if rng.chance(1, 2) { base } else { base.truncate(l) }.text())
            } else { None };
            let a = if rng.chance(1, 2) { Some(*rng.pick(&ROA_ASNS)) } else { None };
            pf.push(json!({"p": p, "a": a}));
        }
        let mut kf = Vec::new();
        for _ in 0..rng.below(2) {
            kf.push(json!({"ski": if rng.chance(1, 2) { Some(rng.below(ROUTER_KEYS as u64)) } else { None },
                "a": if rng.chance(1, 2) { Some(64500 + rng.below(5)) } else { None }}));
        }
        let mut pa = Vec::new();
        for _ in 0..rng.below(3) {
            let v = if !seen.is_empty() && rng.chance(1, 2) {
                let (p, m, a) = rng.pick(&seen).clone();
                AVrp { pfx: p, max_len: m, asn: a }
            } else {
                let p = gen_prefix(rng, &an, &cfg);
                let m = gen_max(rng, &p);
                AVrp { pfx: p, max_len: m, asn: *rng.pick(&ROA_ASNS) }
            };
            pa.push(v.to_json());
        }
        let mut ka = Vec::new();
        for _ in 0..rng.below(2) {
            let k = rng.below(ROUTER_KEYS as u64);
            ka.push(json!({"ski": k, "a": 64500 + rng.below(5),
                "key": if rng.chance(2, 3) { k } else { rng.below(ROUTER_KEYS as u64) }}));
        }
        slurm.push(json!({"pf": pf, "kf": kf, "pa": pa, "ka": ka}));
    }
    json!({
        "cfg": {"bgpsec": cfg.bgpsec, "aspa": cfg.aspa, "l4": cfg.l4, "l6": cfg.l6, "unsafe": cfg.policy},
        "rejected": rejected, "points": points, "slurm": slurm, "perm": rng.next() % 1_000_000,
    })
}

// --------------------------------------------------------------------- run

fn run_inputs(ctx: &mut Ctx, comp: &str, inputs: Vec<Value>) {
    let fx = match Fixture::new() {
        Ok(fx) => fx,
        Err(e) => { ctx.extra("fixture-error", json!(e)); panic!("cannot build RPKI fixture: {e}") }
    };
    for input in inputs {
        let spec = match Spec::from_json(&input) { Some(s) => s, None => { ctx.count("malformed-input"); continue } };
        let (served, view) = match run_real(&fx, &spec, None) {
            Ok(x) => x,
            Err(e) => {
                ctx.case_oracle_only(&input, &e);
                ctx.oracle_fail("run-failed", &e, &input, json!(e));
                continue
            }
        };
        ctx.case(&input, &request_line(&fx, comp, &spec, &view), &served.line());
        if comp == "c09" { oracle_c09(ctx, &input, &spec, &served) } else {
            oracle_c08(ctx, &input, &spec, &served)
        }
        // order independence: the same payload in other processing orders (more of
        // them when some key receives three or more contributions)
        let mut per_customer: BTreeMap<u32, usize> = BTreeMap::new();
        for p in &spec.points { for a in &p.aspas { *per_customer.entry(a.customer).or_default() += 1 } }
        let orders = if per_customer.values().any(|n| *n >= 3) { 8 } else { 1 };
        if orders > 1 { ctx.count("three-or-more-aspas-for-a-customer") }
        let mut rng = Rng(input["perm"].as_u64().unwrap_or(1) ^ 0xabcdef);
        for _ in 0..orders {
            match run_real(&fx, &spec, Some(&mut rng)) {
                Ok((again, _)) => if again != served {
                    ctx.oracle_fail("order-dependent", "another processing order of the same payload gives another snapshot",
                        &input, json!({"first": served.to_json(), "permuted": again.to_json()}));
                    break
                }
                Err(e) => { ctx.oracle_fail("run-failed", &e, &input, json!(e)); break }
            }
        }

        // statistics
        let exp_all = { let mut s = spec.clone(); s.cfg.policy = "accept".into(); expected(&s).origins };
        let n_unsafe = exp_all.iter().filter(|k| is_unsafe(&spec, &k.0)).count();
        let total_roa: usize = spec.points.iter().map(|p| p.roas.iter().map(|r| r.addrs.len()).sum::<usize>()).sum();
        let over_limit = spec.points.iter().flat_map(|p| p.roas.iter()).flat_map(|r| r.addrs.iter()).filter(|(p, _)| {
            (if p.v4 { spec.cfg.l4 } else { spec.cfg.l6 }).map(|l| p.len() > l as usize).unwrap_or(false)
        }).count();
        let at_limit = spec.points.iter().flat_map(|p| p.roas.iter()).flat_map(|r| r.addrs.iter()).filter(|(p, _)| {
            (if p.v4 { spec.cfg.l4 } else { spec.cfg.l6 }).map(|l| p.len() == l as usize).unwrap_or(false)
        }).count();
        let merged = per_customer.values().filter(|n| **n > 1).count();
        let mut union_sizes: BTreeMap<u32, BTreeSet<u32>> = BTreeMap::new();
        for p in &spec.points { for a in &p.aspas { union_sizes.entry(a.customer).or_default().extend(a.providers.iter()) } }
        for s in union_sizes.values() {
            if s.len() >= MAX_PROVIDERS - 1 { ctx.count(&format!("aspa-union-size:{}", s.len())) }
        }
        if over_limit > 0 { ctx.count("has-origin-over-limit") }
        if at_limit > 0 { ctx.count("has-origin-at-limit") }
        if n_unsafe > 0 { ctx.count(&format!("has-unsafe-origin:{}", spec.cfg.policy)) }
        if merged > 0 { ctx.count("has-merged-aspa") }
        if total_roa > served.origins.len() { ctx.count("some-origin-not-served-or-duplicate") }
        let dup = total_roa > spec.points.iter().flat_map(|p| p.roas.iter())
            .flat_map(|r| r.addrs.iter().map(move |(p, m)| AVrp { pfx: p.clone(), max_len: *m, asn: r.asn }.key()))
            .collect::<BTreeSet<_>>().len();
        if dup { ctx.count("has-duplicate-origin") }
        let filt = spec.slurm.iter().map(|s| s.pf.len()).sum::<usize>();
        let asrt = spec.slurm.iter().map(|s| s.pa.len()).sum::<usize>();
        ctx.count(&format!("policy:{}", spec.cfg.policy));
        ctx.nontrivial(format!("{}/{}/{}/{}/{}/{}/{}/{}/{}", spec.cfg.policy, spec.points.len().min(3),
            served.origins.len().min(6), (n_unsafe > 0) as u8, (over_limit > 0) as u8, filt.min(2), asrt.min(2),
            served.keys.len().min(3), served.aspas.len().min(3)));
    }
}

pub fn run_c09(ctx: &mut Ctx) {
    ctx.rule = "validation runs of 1..4 publication points (2 TALs, TA or child CA) with 0..3 ROAs of 1..4 \
        addresses built around one IPv4 and one IPv6 anchor prefix (equal, covering, nested, siblings, \
        lengths at limit-1/limit/limit+1, /31 /32 /33 /127 /128, duplicates across points and TALs with \
        implicit vs explicit max length), router certificates (4 keys, AS blocks), ASPAs (3 customers, \
        provider sets 1..5; every 23rd case customer 65100 with 1..4 objects from a fixed menu of 16378/16379/16380-provider and half-size sets plus small tails, the union crossing 16380 after the 1st+2nd object, later, only with the last, or never; every 11th case the same router certificate and the same ROA address 3..4 times across points), 0..2 \
        rejected CA certificates with blocks positioned relative to the VRPs, 0..2 SLURM files with \
        overlapping prefix/BGPsec filters and assertions (also asserting filtered or unsafe VRPs), every \
        option combination; all objects are real (ROA/ASPA contents from rpki's builders, signed \
        certificates), fed through ProcessRun/ProcessPubPoint into a real ValidationReport and \
        into_snapshot with real LocalExceptions; each case is run again in a permuted order (8 orders when a customer has three or more ASPA objects). \
        non-trivial = every case; distinct by (policy, #points, #served origins<=6, has-unsafe, \
        has-over-limit, #filters<=2, #assertions<=2, #keys<=3, #aspas<=3)".into();
    let inputs = match ctx.replay_inputs() {
        Some(i) => i,
        None => {
            let mut res = ctx.corpus("C09");
            let n = ctx.budget(1500, 60_000);
            let mut rng = ctx.rng.fork();
            for i in 0..n { res.push(gen_spec(&mut rng, i, false)) }
            res
        }
    };
    run_inputs(ctx, "c09", inputs);
}

pub fn run_c08(ctx: &mut Ctx) {
    ctx.rule = "validation runs with 1..2 rejected CA certificates whose blocks are placed relative to the \
        VRPs of unrelated publication points: equal, covering, nested, the adjacent sibling, ranges ending \
        right before / starting right after / touching the first or last address, the prefix as a range, \
        shifted by one, whole family (as /0 and as two halves), random; IPv4 and IPv6; policy cycles \
        reject/warn/accept. non-trivial = every case; distinct as for C09".into();
    let inputs = match ctx.replay_inputs() {
        Some(i) => i,
        None => {
            let mut res = ctx.corpus("C08");
            let n = ctx.budget(1500, 60_000);
            let mut rng = ctx.rng.fork();
            for i in 0..n { res.push(gen_spec(&mut rng, i, true)) }
            res
        }
    };
    run_inputs(ctx, "c08", inputs);
}
