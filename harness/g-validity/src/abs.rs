//! Naive prefixes: an address family and a string of bits. Everything the
//! oracles compute is computed on these, never with `rpki`'s bit tricks.

use std::net::{IpAddr, Ipv4Addr, Ipv6Addr};
use std::str::FromStr;
use rpki::resources::addr::{MaxLenPrefix, Prefix};
use rpki::resources::Asn;
use rpki::rtr::payload::RouteOrigin;
use rvcore::Rng;

#[derive(Clone, Debug, PartialEq, Eq, PartialOrd, Ord, Hash)]
pub struct APrefix {
    pub v4: bool,
    pub bits: Vec<bool>,
}

impl APrefix {
    pub fn fam_len(v4: bool) -> usize { if v4 { 32 } else { 128 } }

    pub fn len(&self) -> usize { self.bits.len() }

    /// `self` covers `other`: same family, not longer, and `other` starts
    /// with the bits of `self`.
    pub fn covers(&self, other: &APrefix) -> bool {
        self.v4 == other.v4
            && self.bits.len() <= other.bits.len()
            && other.bits[..self.bits.len()] == self.bits[..]
    }

    /// The two prefixes share at least one address.
    pub fn overlaps(&self, other: &APrefix) -> bool {
        self.covers(other) || other.covers(self)
    }

    fn octets(&self) -> Vec<u8> {
        let n = Self::fam_len(self.v4) / 8;
        let mut res = vec![0u8; n];
        for (i, b) in self.bits.iter().enumerate() {
            if *b { res[i / 8] |= 0x80 >> (i % 8) }
        }
        res
    }

    pub fn addr(&self) -> IpAddr {
        let o = self.octets();
        if self.v4 {
            IpAddr::V4(Ipv4Addr::new(o[0], o[1], o[2], o[3]))
        }
        else {
            let mut a = [0u8; 16];
            a.copy_from_slice(&o);
            IpAddr::V6(Ipv6Addr::from(a))
        }
    }

    /// The address as a number with `width` bits.
    pub fn min_addr(&self) -> u128 {
        let mut res = 0u128;
        let w = Self::fam_len(self.v4);
        for i in 0..w {
            res = (res << 1) | (self.bits.get(i).copied().unwrap_or(false) as u128);
        }
        res
    }

    pub fn max_addr(&self) -> u128 {
        let mut res = 0u128;
        let w = Self::fam_len(self.v4);
        for i in 0..w {
            res = (res << 1) | (self.bits.get(i).copied().unwrap_or(true) as u128);
        }
        res
    }

    /// Canonical text, e.g. `10.0.0.0/8`.
    pub fn text(&self) -> String { format!("{}/{}", self.addr(), self.bits.len()) }

    /// Parses `addr/len`, dropping host bits (like `from_str_relaxed`).
    pub fn parse_relaxed(s: &str) -> Option<APrefix> {
        let (addr, len) = s.split_once('/')?;
        let len: usize = len.parse().ok()?;
        let addr = IpAddr::from_str(addr).ok()?;
        let (v4, octets): (bool, Vec<u8>) = match addr {
            IpAddr::V4(a) => (true, a.octets().to_vec()),
            IpAddr::V6(a) => (false, a.octets().to_vec()),
        };
        if len > Self::fam_len(v4) { return None }
        let bits = (0..len).map(|i| octets[i / 8] & (0x80 >> (i % 8)) != 0).collect();
        Some(APrefix { v4, bits })
    }

    /// Whether `s` has no host bits set.
    pub fn is_strict(s: &str) -> bool {
        Self::parse_relaxed(s).map(|p| {
            let (addr, _) = s.split_once('/').unwrap();
            IpAddr::from_str(addr).ok() == Some(p.addr())
        }).unwrap_or(false)
    }

    pub fn to_real(&self) -> Prefix {
        Prefix::new(self.addr(), self.bits.len() as u8).expect("valid prefix")
    }

    pub fn from_real(p: Prefix) -> APrefix {
        let text = format!("{}/{}", p.addr(), p.len());
        let res = Self::parse_relaxed(&text).expect("real prefix parses");
        assert_eq!(res.v4, p.is_v4());
        res
    }

    /// The `Bits` representation: the address in the top bits of a `u128`.
    pub fn model_bits(&self) -> u128 {
        if self.v4 { self.min_addr() << 96 } else { self.min_addr() }
    }

    /// `<fam>,<len>,<bits>` for the model.
    pub fn model(&self) -> String {
        format!("{},{},{}", if self.v4 { 4 } else { 6 }, self.bits.len(), self.model_bits())
    }

    pub fn random(rng: &mut Rng, v4: bool, len: usize) -> APrefix {
        APrefix { v4, bits: (0..len).map(|_| rng.chance(1, 2)).collect() }
    }

    /// The first `len` bits.
    pub fn truncate(&self, len: usize) -> APrefix {
        APrefix { v4: self.v4, bits: self.bits[..len.min(self.bits.len())].to_vec() }
    }

    /// Extended to `len` bits with random bits.
    pub fn extend(&self, rng: &mut Rng, len: usize) -> APrefix {
        let mut bits = self.bits.clone();
        while bits.len() < len { bits.push(rng.chance(1, 2)) }
        APrefix { v4: self.v4, bits }
    }

    /// The same bits with bit `i` flipped.
    pub fn flip(&self, i: usize) -> APrefix {
        let mut bits = self.bits.clone();
        bits[i] = !bits[i];
        APrefix { v4: self.v4, bits }
    }

    /// The same leading bits in the other family (as far as they fit).
    pub fn other_family(&self) -> APrefix {
        let v4 = !self.v4;
        let n = self.bits.len().min(Self::fam_len(v4));
        APrefix { v4, bits: self.bits[..n].to_vec() }
    }
}

/// A VRP: prefix, optional max length, AS number.
#[derive(Clone, Debug, PartialEq, Eq, PartialOrd, Ord, Hash)]
pub struct AVrp {
    pub pfx: APrefix,
    pub max_len: Option<u8>,
    pub asn: u32,
}

impl AVrp {
    pub fn resolved(&self) -> usize {
        self.max_len.map(|m| m as usize).unwrap_or(self.pfx.len())
    }

    /// Identity as `RouteOrigin`'s `Eq` sees it.
    pub fn key(&self) -> (APrefix, usize, u32) {
        (self.pfx.clone(), self.resolved(), self.asn)
    }

    pub fn to_real(&self) -> RouteOrigin {
        RouteOrigin::new(
            MaxLenPrefix::new(self.pfx.to_real(), self.max_len).expect("valid max len"),
            Asn::from_u32(self.asn)
        )
    }

    pub fn from_real(o: &RouteOrigin) -> AVrp {
        AVrp {
            pfx: APrefix::from_real(o.prefix.prefix()),
            max_len: o.prefix.max_len(),
            asn: o.asn.into_u32(),
        }
    }

    pub fn to_json(&self) -> serde_json::Value {
        serde_json::json!([self.pfx.text(), self.max_len, self.asn])
    }

    pub fn from_json(v: &serde_json::Value) -> Option<AVrp> {
        let pfx = APrefix::parse_relaxed(v.get(0)?.as_str()?)?;
        let max_len = match v.get(1)? {
            serde_json::Value::Null => None,
            m => Some(m.as_u64()? as u8)
        };
        if let Some(m) = max_len {
            if (m as usize) < pfx.len() || (m as usize) > APrefix::fam_len(pfx.v4) { return None }
        }
        Some(AVrp { pfx, max_len, asn: v.get(2)?.as_u64()? as u32 })
    }

    /// `<fam>,<len>,<bits>,<maxlen or ->,<asn>` for the model.
    pub fn model(&self) -> String {
        format!("{},{},{}", self.pfx.model(),
            self.max_len.map(|m| m.to_string()).unwrap_or("-".into()), self.asn)
    }

    /// `<fam>.<len>.<bits>.<resolved>.<asn>`: how both sides print an item.
    pub fn item(&self) -> String {
        format!("{}.{}.{}.{}.{}", if self.pfx.v4 { 4 } else { 6 }, self.pfx.len(),
            self.pfx.model_bits(), self.resolved(), self.asn)
    }
}
