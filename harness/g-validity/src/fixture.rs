//! Real RPKI objects for driving `ValidationReport` / `PubPointProcessor`
//! through their public API: two trust anchors with a child CA each, an EE
//! certificate (from a real signed ROA), router certificates, ASPA
//! attestations and CA certificates with chosen resources.

use std::collections::HashMap;
use std::str::FromStr;
use std::sync::{Arc, Mutex};
use rpki::crypto::PublicKey;
use rpki::repository::aspa::{AsProviderAttestation, Aspa, AspaBuilder};
use rpki::repository::cert::{Cert, ExtendedKeyUsage, KeyUsage, Overclaim, ResourceCert, TbsCert};
use rpki::repository::resources::{Asn, IpBlock, Prefix as ResPrefix};
use rpki::repository::roa::{Roa, RoaBuilder, RoaIpAddress, RouteOriginAttestation};
use rpki::repository::sigobj::SignedObjectBuilder;
use rpki::repository::tal::{Tal, TalUri};
use rpki::repository::x509::{Time, Validity};
use rpki::rtr::pdu::RouterKeyInfo;
use rpki::crypto::KeyIdentifier;
use rpki::uri;
use routinator::engine::CaCert;
use crate::keys::{PoolSigner, SignKey};

/// Pool keys used here (the CA range of the shared pool).
const TA_KEYS: [usize; 2] = [20, 21];
const CHILD_KEYS: [usize; 2] = [22, 23];
const REJECTED_KEY: usize = 24;
pub const ROUTER_KEYS: usize = 4;

fn rsync(s: &str) -> uri::Rsync { uri::Rsync::from_str(s).expect("rsync uri") }

fn validity() -> Validity {
    // 2020-01-01 .. 2120-01-01
    Validity::new(Time::utc(2020, 1, 1, 0, 0, 0), Time::utc(2120, 1, 1, 0, 0, 0))
}

pub struct TalFx {
    pub tal: Tal,
    pub tal_uri: TalUri,
    pub ta: Arc<CaCert>,
    pub ta_rc: ResourceCert,
    pub child: Arc<CaCert>,
    pub ee: ResourceCert,
    pub key: usize,
    pub name: String,
}

pub struct Fixture {
    pub signer: PoolSigner,
    pub tals: Vec<TalFx>,
    pub router_public: Vec<PublicKey>,
    aspa_cache: Mutex<HashMap<(u32, Vec<u32>), AsProviderAttestation>>,
    roa_cache: Mutex<HashMap<(u32, Vec<(String, Option<u8>)>), RouteOriginAttestation>>,
    router_cache: Mutex<HashMap<(usize, usize, Vec<(u32, u32)>), Cert>>,
}

impl Fixture {
    pub fn new() -> Result<Self, String> {
        let signer = PoolSigner::new();
        let mut tals = Vec::new();
        for t in 0..2 {
            tals.push(Self::make_tal(&signer, t)?);
        }
        let router_public = (0..ROUTER_KEYS).map(|i| signer.pool().router_public(i)).collect();
        Ok(Fixture {
            signer, tals, router_public,
            aspa_cache: Mutex::new(HashMap::new()),
            roa_cache: Mutex::new(HashMap::new()),
            router_cache: Mutex::new(HashMap::new()),
        })
    }

    fn make_tal(signer: &PoolSigner, t: usize) -> Result<TalFx, String> {
        let key = TA_KEYS[t];
        let name = format!("ta{t}");
        let public = signer.pool().public(key);
        let base = format!("rsync://ta{t}.example/repo/");
        let ta_uri = format!("rsync://ta{t}.example/ta/ta.cer");
        let mut tal_text = format!("{ta_uri}\n\n");
        tal_text.push_str(&rpki::util::base64::Xml.encode(public.to_info_bytes().as_ref()));
        tal_text.push('\n');
        let tal = Tal::read_named(name.clone(), &mut tal_text.as_bytes())
            .map_err(|e| format!("tal: {e}"))?;
        let mut cert = TbsCert::new(
            1u64.into(), public.to_subject_name(), validity(), None,
            public.clone(), KeyUsage::Ca, Overclaim::Refuse,
        );
        cert.set_basic_ca(Some(true));
        cert.set_ca_repository(Some(rsync(&base)));
        cert.set_rpki_manifest(Some(rsync(&format!("{base}ta.mft"))));
        cert.build_v4_resource_blocks(|b| b.push(ResPrefix::new(std::net::Ipv4Addr::new(0, 0, 0, 0), 0)));
        cert.build_v6_resource_blocks(|b| b.push(ResPrefix::new(std::net::Ipv6Addr::from(0u128), 0)));
        cert.build_as_resource_blocks(|b| b.push((Asn::MIN, Asn::MAX)));
        let cert = cert.into_cert(signer, &SignKey::honest(key)).map_err(|e| format!("sign ta: {e}"))?;
        let ta_rc = cert.validate_ta(tal.info().clone(), false).map_err(|e| format!("validate ta: {e}"))?;
        let tal_uri = TalUri::from_string(ta_uri.clone()).map_err(|e| format!("tal uri: {e}"))?;
        let ta = CaCert::root(ta_rc.clone(), tal_uri.clone(), t).map_err(|_| "CaCert::root")?;

        // child CA with all resources
        let child_pub = signer.pool().public(CHILD_KEYS[t]);
        let child_base = format!("rsync://ta{t}.example/repo/child/");
        let mut cc = TbsCert::new(
            2u64.into(), public.to_subject_name(), validity(), None,
            child_pub, KeyUsage::Ca, Overclaim::Refuse,
        );
        cc.set_basic_ca(Some(true));
        cc.set_authority_key_identifier(Some(public.key_identifier()));
        cc.set_crl_uri(Some(rsync(&format!("{base}ta.crl"))));
        cc.set_ca_issuer(Some(rsync(&ta_uri)));
        cc.set_ca_repository(Some(rsync(&child_base)));
        cc.set_rpki_manifest(Some(rsync(&format!("{child_base}child.mft"))));
        cc.build_v4_resource_blocks(|b| b.push(ResPrefix::new(std::net::Ipv4Addr::new(0, 0, 0, 0), 0)));
        cc.build_v6_resource_blocks(|b| b.push(ResPrefix::new(std::net::Ipv6Addr::from(0u128), 0)));
        cc.build_as_resource_blocks(|b| b.push((Asn::MIN, Asn::MAX)));
        let cc = cc.into_cert(signer, &SignKey::honest(key)).map_err(|e| format!("sign child: {e}"))?;
        let cc_rc = cc.validate_ca(&ta_rc, false).map_err(|e| format!("validate child: {e}"))?;
        let child = CaCert::chain(&ta, rsync(&format!("{base}child.cer")), cc_rc, 32)
            .map_err(|_| "CaCert::chain")?;

        // an EE certificate: taken from a real signed ROA under the TA
        let mut roa = RoaBuilder::new(Asn::from_u32(64496));
        roa.push_v4(RoaIpAddress::new(ResPrefix::new(std::net::Ipv4Addr::new(192, 0, 2, 0), 24), None));
        let sigobj = SignedObjectBuilder::new(
            3u64.into(), validity(), rsync(&format!("{base}ta.crl")), rsync(&ta_uri),
            rsync(&format!("{base}object.roa")),
        );
        let roa = roa.finalize(sigobj, signer, &SignKey::honest(key)).map_err(|e| format!("sign roa: {e}"))?;
        // (the builder's in-memory content is not usable: decode the encoded object)
        let roa = Roa::decode(roa.to_captured().into_bytes(), false).map_err(|e| format!("decode roa: {e}"))?;
        let (ee, _) = roa.process(&ta_rc, false, |_| Ok(())).map_err(|e| format!("validate roa: {e}"))?;
        Ok(TalFx { tal, tal_uri, ta, ta_rc, child, ee, key, name })
    }

    /// A CA certificate issued by trust anchor `t` with the given address
    /// blocks (`a/len` or `a-b`).
    pub fn ca_with_resources(&self, t: usize, v4: &[String], v6: &[String]) -> Result<Arc<CaCert>, String> {
        let fx = &self.tals[t];
        let issuer = self.signer.pool().public(fx.key);
        let public = self.signer.pool().public(REJECTED_KEY);
        let base = format!("rsync://ta{t}.example/repo/rejected/");
        let mut cert = TbsCert::new(
            77u64.into(), issuer.to_subject_name(), validity(), None,
            public, KeyUsage::Ca, Overclaim::Refuse,
        );
        cert.set_basic_ca(Some(true));
        cert.set_authority_key_identifier(Some(issuer.key_identifier()));
        cert.set_crl_uri(Some(rsync(&format!("rsync://ta{t}.example/repo/ta.crl"))));
        cert.set_ca_issuer(Some(rsync(&format!("rsync://ta{t}.example/ta/ta.cer"))));
        cert.set_ca_repository(Some(rsync(&base)));
        cert.set_rpki_manifest(Some(rsync(&format!("{base}rejected.mft"))));
        let v4b: Vec<IpBlock> = v4.iter().map(|s| IpBlock::from_v4_str(s).map_err(|_| format!("v4 block {s}")))
            .collect::<Result<_, _>>()?;
        let v6b: Vec<IpBlock> = v6.iter().map(|s| IpBlock::from_v6_str(s).map_err(|_| format!("v6 block {s}")))
            .collect::<Result<_, _>>()?;
        if !v4b.is_empty() { cert.build_v4_resource_blocks(|b| for x in &v4b { b.push(*x) }) }
        if !v6b.is_empty() { cert.build_v6_resource_blocks(|b| for x in &v6b { b.push(*x) }) }
        if v4b.is_empty() && v6b.is_empty() {
            cert.build_as_resource_blocks(|b| b.push((Asn::from_u32(64000), Asn::from_u32(64000))));
        }
        let cert = cert.into_cert(&self.signer, &SignKey::honest(fx.key)).map_err(|e| format!("sign ca: {e}"))?;
        let rc = cert.validate_ca(&fx.ta_rc, false).map_err(|e| format!("validate ca: {e}"))?;
        CaCert::chain(&fx.ta, rsync(&format!("rsync://ta{t}.example/repo/rejected.cer")), rc, 32)
            .map_err(|_| "CaCert::chain".to_string())
    }

    /// A router certificate for router key `key` and the AS blocks.
    pub fn router_cert(&self, t: usize, key: usize, asns: &[(u32, u32)]) -> Result<Cert, String> {
        let cache_key = (t, key, asns.to_vec());
        if let Some(c) = self.router_cache.lock().unwrap().get(&cache_key) { return Ok(c.clone()) }
        let fx = &self.tals[t];
        let issuer = self.signer.pool().public(fx.key);
        let mut cert = TbsCert::new(
            88u64.into(), issuer.to_subject_name(), validity(), None,
            self.router_public[key].clone(), KeyUsage::Ee, Overclaim::Refuse,
        );
        cert.set_authority_key_identifier(Some(issuer.key_identifier()));
        cert.set_crl_uri(Some(rsync(&format!("rsync://ta{t}.example/repo/ta.crl"))));
        cert.set_ca_issuer(Some(rsync(&format!("rsync://ta{t}.example/ta/ta.cer"))));
        cert.set_extended_key_usage(Some(ExtendedKeyUsage::create_router()));
        cert.build_as_resource_blocks(|b| {
            for (lo, hi) in asns { b.push((Asn::from_u32(*lo), Asn::from_u32(*hi))) }
        });
        let cert = cert.into_cert(&self.signer, &SignKey::honest(fx.key)).map_err(|e| format!("sign router: {e}"))?;
        self.router_cache.lock().unwrap().insert(cache_key, cert.clone());
        Ok(cert)
    }

    /// The content of a real signed ASPA object.
    pub fn aspa(&self, customer: u32, providers: &[u32]) -> Result<AsProviderAttestation, String> {
        let cache_key = (customer, providers.to_vec());
        if let Some(a) = self.aspa_cache.lock().unwrap().get(&cache_key) { return Ok(a.clone()) }
        let fx = &self.tals[0];
        let builder = AspaBuilder::new(
            Asn::from_u32(customer), providers.iter().map(|p| Asn::from_u32(*p)).collect::<Vec<_>>()
        ).map_err(|_| "duplicate provider".to_string())?;
        let sigobj = SignedObjectBuilder::new(
            99u64.into(), validity(), rsync("rsync://ta0.example/repo/ta.crl"),
            rsync("rsync://ta0.example/ta/ta.cer"), rsync("rsync://ta0.example/repo/object.asa"),
        );
        let aspa = builder.finalize(sigobj, &self.signer, &SignKey::honest(fx.key))
            .map_err(|e| format!("sign aspa: {e}"))?;
        // (as for ROAs: the builder's in-memory content does not iterate correctly)
        let aspa = Aspa::decode(aspa.to_captured().into_bytes(), false).map_err(|e| format!("decode aspa: {e}"))?;
        let att = aspa.content().clone();
        let mut cache = self.aspa_cache.lock().unwrap();
        if cache.len() > 4000 { cache.clear() }
        cache.insert(cache_key, att.clone());
        Ok(att)
    }

    /// The content of a real signed and re-decoded ROA object. (`RoaBuilder::
    /// to_attestation` yields a value whose iterators panic, so the object is
    /// encoded and decoded like one fetched from a repository.)
    pub fn roa(&self, asn: u32, addrs: &[(String, Option<u8>)]) -> Result<RouteOriginAttestation, String> {
        let cache_key = (asn, addrs.to_vec());
        if let Some(a) = self.roa_cache.lock().unwrap().get(&cache_key) { return Ok(a.clone()) }
        let fx = &self.tals[0];
        let mut b = RoaBuilder::new(Asn::from_u32(asn));
        for (p, max) in addrs {
            if p.contains(':') {
                b.push_v6(RoaIpAddress::new(ResPrefix::from_v6_str(p).map_err(|_| format!("v6 prefix {p}"))?, *max))
            } else {
                b.push_v4(RoaIpAddress::new(ResPrefix::from_v4_str(p).map_err(|_| format!("v4 prefix {p}"))?, *max))
            }
        }
        let sigobj = SignedObjectBuilder::new(
            98u64.into(), validity(), rsync("rsync://ta0.example/repo/ta.crl"),
            rsync("rsync://ta0.example/ta/ta.cer"), rsync("rsync://ta0.example/repo/object.roa"),
        );
        let roa = b.finalize(sigobj, &self.signer, &SignKey::honest(fx.key)).map_err(|e| format!("sign roa: {e}"))?;
        let roa = Roa::decode(roa.to_captured().into_bytes(), false).map_err(|e| format!("decode roa: {e}"))?;
        let att = roa.content().clone();
        let mut cache = self.roa_cache.lock().unwrap();
        if cache.len() > 20000 { cache.clear() }
        cache.insert(cache_key, att.clone());
        Ok(att)
    }

    pub fn ski(&self, key: usize) -> KeyIdentifier { self.router_public[key].key_identifier() }

    pub fn key_info(&self, key: usize) -> RouterKeyInfo {
        RouterKeyInfo::new(self.router_public[key].to_info_bytes()).expect("router key info")
    }

    pub fn ski_index(&self, ski: KeyIdentifier) -> Option<usize> {
        (0..ROUTER_KEYS).find(|i| self.ski(*i) == ski)
    }

    pub fn info_index(&self, info: &RouterKeyInfo) -> Option<usize> {
        (0..ROUTER_KEYS).find(|i| self.key_info(*i) == *info)
    }
}
