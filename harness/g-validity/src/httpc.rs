//! The real HTTP listener on a loopback port plus a minimal HTTP/1.1 client.

use std::io::{Read, Write};
use std::net::{SocketAddr, TcpListener, TcpStream};
use std::path::PathBuf;
use std::sync::Arc;
use std::time::Duration;
use routinator::config::Config;
use routinator::metrics::RtrServerMetrics;
use routinator::payload::SharedHistory;
use rpki::rtr::server::NotifySender;

pub struct HttpFixture {
    _rt: tokio::runtime::Runtime,
    pub addr: SocketAddr,
    pub history: SharedHistory,
    pub config: Config,
}

pub fn base_config() -> Config {
    Config::default_with_paths(
        PathBuf::from("/nonexistent/routinator.conf"),
        PathBuf::from("/nonexistent/cache"),
    )
}

impl HttpFixture {
    /// Starts routinator's own `http_listener` on a free loopback port.
    pub fn start() -> Result<Self, String> {
        let rt = tokio::runtime::Builder::new_multi_thread()
            .worker_threads(2).enable_all().build()
            .map_err(|e| format!("runtime: {e}"))?;
        let mut last = String::new();
        for _ in 0..20 {
            // Find a free port: bind port 0, note the port, release it.
            let port = {
                let probe = TcpListener::bind("127.0.0.1:0").map_err(|e| format!("bind: {e}"))?;
                probe.local_addr().map_err(|e| format!("addr: {e}"))?.port()
            };
            let addr: SocketAddr = format!("127.0.0.1:{port}").parse().unwrap();
            let mut config = base_config();
            config.http_listen = vec![addr];
            let history = SharedHistory::from_config(&config);
            let listener = {
                let _guard = rt.enter();
                routinator::http::http_listener(
                    history.clone(), Arc::new(RtrServerMetrics::new(false)), None,
                    &config, NotifySender::new(),
                )
            };
            match listener {
                Ok(fut) => {
                    rt.spawn(fut);
                    // wait until it accepts
                    for _ in 0..200 {
                        if TcpStream::connect_timeout(&addr, Duration::from_millis(200)).is_ok() {
                            return Ok(HttpFixture { _rt: rt, addr, history, config })
                        }
                        std::thread::sleep(Duration::from_millis(10));
                    }
                    last = "listener does not accept".into();
                }
                Err(_) => { last = format!("http_listener failed for {addr}") }
            }
        }
        Err(last)
    }

    pub fn request(
        &self, method: &str, target: &str, body: Option<(&str, &[u8])>
    ) -> Result<(u16, Vec<u8>), String> {
        // Transport problems (a loaded machine) are retried and reported with a
        // `transport:` prefix so that they are never mistaken for an answer.
        let mut last = String::new();
        for attempt in 0..4 {
            match request(self.addr, method, target, body) {
                Ok(res) => return Ok(res),
                Err(e) => last = e,
            }
            std::thread::sleep(Duration::from_millis(50 << attempt));
        }
        Err(format!("transport: {last}"))
    }
}

fn find(hay: &[u8], needle: &[u8]) -> Option<usize> {
    hay.windows(needle.len()).position(|w| w == needle)
}

pub fn request(
    addr: SocketAddr, method: &str, target: &str, body: Option<(&str, &[u8])>
) -> Result<(u16, Vec<u8>), String> {
    let mut sock = TcpStream::connect_timeout(&addr, Duration::from_secs(5))
        .map_err(|e| format!("connect: {e}"))?;
    sock.set_read_timeout(Some(Duration::from_secs(20))).ok();
    let mut req = format!("{method} {target} HTTP/1.1\r\nHost: localhost\r\nConnection: close\r\n");
    if let Some((ctype, data)) = body {
        req.push_str(&format!("Content-Type: {ctype}\r\nContent-Length: {}\r\n", data.len()));
    }
    req.push_str("\r\n");
    let mut bytes = req.into_bytes();
    if let Some((_, data)) = body { bytes.extend_from_slice(data) }
    sock.write_all(&bytes).map_err(|e| format!("write: {e}"))?;
    let mut resp = Vec::new();
    sock.read_to_end(&mut resp).map_err(|e| format!("read: {e}"))?;
    let head_end = find(&resp, b"\r\n\r\n").ok_or("no header end")?;
    let head = String::from_utf8_lossy(&resp[..head_end]).to_string();
    let status: u16 = head.split_whitespace().nth(1).and_then(|s| s.parse().ok())
        .ok_or("no status")?;
    let raw = &resp[head_end + 4..];
    let chunked = head.lines().any(|l| {
        let l = l.to_ascii_lowercase();
        l.starts_with("transfer-encoding:") && l.contains("chunked")
    });
    if !chunked {
        return Ok((status, raw.to_vec()))
    }
    let mut out = Vec::new();
    let mut pos = 0;
    loop {
        let line_end = find(&raw[pos..], b"\r\n").ok_or("bad chunk")? + pos;
        let size_str = String::from_utf8_lossy(&raw[pos..line_end]).to_string();
        let size = usize::from_str_radix(size_str.split(';').next().unwrap().trim(), 16)
            .map_err(|_| "bad chunk size")?;
        pos = line_end + 2;
        if size == 0 { break }
        if pos + size > raw.len() { return Err("short chunk".into()) }
        out.extend_from_slice(&raw[pos..pos + size]);
        pos += size + 2;
    }
    Ok((status, out))
}
