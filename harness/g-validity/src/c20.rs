//! C20: `RouteValidity::new/state/reason` and the glue around it (JSON
//! output, request list parsers of the `validate` command, the HTTP validity
//! end points) against the Lean model, with the RFC 6811 classification
//! recomputed naively on bit strings as the oracle.

use std::io::Cursor;
use std::str::FromStr;
use std::sync::Arc;
use rpki::resources::addr::Prefix;
use rpki::resources::Asn;
use routinator::metrics::Metrics;
use routinator::payload::{PayloadInfo, PayloadSnapshot, ValidationReport};
use routinator::slurm::{ExceptionInfo, LocalExceptions};
use routinator::validity::{RequestList, RouteValidity};
use serde_json::{json, Value};
use rvcore::{Ctx, Rng};
use crate::abs::{APrefix, AVrp};
use crate::httpc::{base_config, HttpFixture};

const VIAS: [&str; 7] = [
    "direct", "json", "plain-list", "json-list", "http-path", "http-query", "http-post"
];

/// What the implementation reported for one route, in model vocabulary.
#[derive(Clone, Debug, Default)]
struct Observed {
    route: Option<(String, String)>, // echoed (prefix, asn) if the output has them
    state: String,
    reason: Option<String>,
    desc: String,
    matched: Vec<AVrp>,
    bad_asn: Vec<AVrp>,
    bad_len: Vec<AVrp>,
}

impl Observed {
    fn line(&self) -> String {
        let items = |l: &[AVrp]| l.iter().map(|v| v.item()).collect::<Vec<_>>().join(",");
        format!("{} reason={} desc={} M={} A={} L={}",
            self.state, self.reason.as_deref().unwrap_or("-"), self.desc,
            items(&self.matched), items(&self.bad_asn), items(&self.bad_len))
    }
    fn to_json(&self) -> Value {
        let items = |l: &[AVrp]| l.iter().map(|v| v.to_json()).collect::<Vec<_>>();
        json!({"route": self.route, "state": self.state, "reason": self.reason, "desc": self.desc,
            "matched": items(&self.matched), "unmatched_as": items(&self.bad_asn),
            "unmatched_length": items(&self.bad_len)})
    }
}

fn desc_tag(text: &str) -> &'static str {
    if text == "At least one VRP Matches the Route Prefix" { "valid" }
    else if text.starts_with("At least one VRP Covers the Route Prefix, but no VRP ASN") { "as" }
    else if text.starts_with("At least one VRP Covers the Route Prefix, but the Route Prefix length") { "length" }
    else if text == "No VRP Covers the Route Prefix" { "not-found" }
    else { "?" }
}

fn observe_direct(rv: &RouteValidity) -> Observed {
    let list = |l: &[(rpki::rtr::payload::RouteOrigin, &PayloadInfo)]| {
        l.iter().map(|x| AVrp::from_real(&x.0)).collect::<Vec<_>>()
    };
    Observed {
        route: Some((format!("{}", rv.prefix()), format!("{}", rv.asn()))),
        state: rv.state().to_string(),
        reason: rv.reason().map(|s| s.to_string()),
        desc: desc_tag(rv.description()).into(),
        matched: list(rv.matched()), bad_asn: list(rv.bad_asn()), bad_len: list(rv.bad_len()),
    }
}

/// Reads one `validated_route` JSON object.
fn observe_json(v: &Value) -> Result<Observed, String> {
    let route = v.get("route").ok_or("no route")?;
    let validity = v.get("validity").ok_or("no validity")?;
    let vrps = validity.get("VRPs").ok_or("no VRPs")?;
    let list = |key: &str| -> Result<Vec<AVrp>, String> {
        let arr = vrps.get(key).and_then(|a| a.as_array()).ok_or(format!("no {key}"))?;
        arr.iter().map(|item| {
            let asn = item.get("asn").and_then(|a| a.as_str()).ok_or("vrp asn")?;
            let asn = asn.strip_prefix("AS").ok_or("vrp asn prefix")?.parse::<u32>()
                .map_err(|_| "vrp asn number")?;
            let pfx = item.get("prefix").and_then(|a| a.as_str()).ok_or("vrp prefix")?;
            if !APrefix::is_strict(pfx) { return Err(format!("vrp prefix {pfx} not canonical")) }
            let pfx = APrefix::parse_relaxed(pfx).ok_or("vrp prefix parse")?;
            let max = item.get("max_length").and_then(|a| a.as_str()).ok_or("vrp max_length")?
                .parse::<u8>().map_err(|_| "vrp max_length number")?;
            if (max as usize) < pfx.len() { return Err("max_length < len".into()) }
            Ok(AVrp { pfx, max_len: Some(max), asn })
        }).collect()
    };
    Ok(Observed {
        route: Some((
            route.get("prefix").and_then(|a| a.as_str()).ok_or("route prefix")?.to_string(),
            route.get("origin_asn").and_then(|a| a.as_str()).ok_or("route asn")?.to_string(),
        )),
        state: validity.get("state").and_then(|a| a.as_str()).ok_or("state")?.to_string(),
        reason: match validity.get("reason") {
            None => None,
            Some(r) => Some(r.as_str().ok_or("reason")?.to_string())
        },
        desc: desc_tag(validity.get("description").and_then(|a| a.as_str()).ok_or("description")?).into(),
        matched: list("matched")?, bad_asn: list("unmatched_as")?, bad_len: list("unmatched_length")?,
    })
}

fn info() -> PayloadInfo { PayloadInfo::from(Arc::new(ExceptionInfo::default())) }

/// A SLURM file asserting exactly these VRPs.
pub fn slurm_assertions(vrps: &[AVrp]) -> String {
    json!({
        "slurmVersion": 1,
        "validationOutputFilters": {"prefixFilters": [], "bgpsecFilters": []},
        "locallyAddedAssertions": {
            "prefixAssertions": vrps.iter().map(|v| {
                let mut o = json!({"asn": v.asn, "prefix": v.pfx.text()});
                if let Some(m) = v.max_len { o["maxPrefixLength"] = json!(m) }
                o
            }).collect::<Vec<_>>(),
            "bgpsecAssertions": []
        }
    }).to_string()
}

fn percent(s: &str) -> String {
    s.bytes().map(|b| match b {
        b'/' => "%2F".to_string(), b':' => "%3A".to_string(), _ => (b as char).to_string()
    }).collect()
}

// ---------------------------------------------------------------- generator

fn pick_len(rng: &mut Rng, v4: bool) -> usize {
    let fam = APrefix::fam_len(v4);
    let bounds: &[usize] = if v4 { &[0, 1, 8, 16, 24, 31, 32] }
        else { &[0, 1, 31, 32, 33, 48, 64, 127, 128] };
    if rng.chance(2, 3) { *rng.pick(bounds) } else { rng.below(fam as u64 + 1) as usize }
}

fn pick_max(rng: &mut Rng, v4: bool, l: usize, route_len: usize) -> Option<u8> {
    let fam = APrefix::fam_len(v4);
    let mut opts: Vec<Option<u8>> = vec![None, Some(l as u8), Some(fam as u8)];
    for m in [route_len.wrapping_sub(1), route_len, route_len + 1] {
        if m >= l && m <= fam { opts.push(Some(m as u8)); opts.push(Some(m as u8)) }
    }
    *rng.pick(&opts)
}

const ASNS: [u32; 5] = [64496, 64497, 0, u32::MAX, 65000];

fn gen_case(rng: &mut Rng, i: usize) -> Value {
    let v4 = rng.chance(1, 2);
    let fam = APrefix::fam_len(v4);
    let rl = pick_len(rng, v4);
    let route = APrefix::random(rng, v4, rl);
    let rasn = *rng.pick(&ASNS);
    let n = match rng.below(8) { 0 => 0, 1 => 1, _ => 1 + rng.below(8) as usize };
    let mut vrps: Vec<AVrp> = Vec::new();
    for _ in 0..n {
        let pfx = match rng.below(10) {
            0 | 1 | 2 => route.truncate(rng.below(rl as u64 + 1) as usize),      // covering
            3 => route.clone(),                                                   // equal
            4 => if rl < fam {                                                    // more specific
                let l = rl + 1 + rng.below((fam - rl) as u64) as usize;
                { let to = if rng.chance(1, 2) { rl + 1 } else { l }; route.extend(rng, to) }
            } else { route.clone() },
            5 | 6 => if rl > 0 {                                                  // sibling / differs in one bit
                let l = 1 + rng.below(rl as u64) as usize;
                route.truncate(l).flip(if rng.chance(1, 2) { l - 1 } else { rng.below(l as u64) as usize })
            } else { route.clone() },
            7 => route.truncate(rng.below(rl as u64 + 1) as usize).other_family(), // other family, same bits
            8 => route.truncate(0),                                               // whole family
            _ => { let l = pick_len(rng, v4); APrefix::random(rng, v4, l) }
        };
        let max_len = pick_max(rng, pfx.v4, pfx.len(), rl.min(APrefix::fam_len(pfx.v4)));
        let asn = if rng.chance(1, 2) { rasn } else { *rng.pick(&ASNS) };
        let v = AVrp { pfx, max_len, asn };
        if !vrps.iter().any(|x| x.key() == v.key()) { vrps.push(v) }
    }
    let via = VIAS[i % VIAS.len()];
    let relaxed_ok = matches!(via, "direct" | "json" | "http-path" | "http-query");
    let mut routes = Vec::new();
    let text = |rng: &mut Rng, p: &APrefix| {
        // now and then an address with host bits set where the glue drops them
        if relaxed_ok && p.len() < fam && rng.chance(1, 4) {
            format!("{}/{}", p.extend(rng, fam).addr(), p.len())
        } else { p.text() }
    };
    let asn_text = |rng: &mut Rng, a: u32| {
        match rng.below(3) { 0 => format!("AS{a}"), 1 => format!("as{a}"), _ => a.to_string() }
    };
    routes.push(json!([text(rng, &route), asn_text(rng, rasn)]));
    let extra = if matches!(via, "plain-list" | "json-list" | "http-post") { 1 + rng.below(3) } else { rng.below(2) };
    for _ in 0..extra {
        let p = match rng.below(4) {
            0 => route.clone(),
            1 => if rl < fam { route.extend(rng, rl + 1) } else { route.clone() },
            2 => if rl > 0 { route.truncate(rl - 1) } else { route.clone() },
            _ => if let Some(v) = vrps.first() {
                let l = v.resolved();
                if v.pfx.v4 == v4 && l >= v.pfx.len() { v.pfx.extend(rng, l) } else { route.clone() }
            } else { route.clone() }
        };
        let a = if rng.chance(1, 2) { rasn } else { *rng.pick(&ASNS) };
        routes.push(json!([text(rng, &p), asn_text(rng, a)]));
    }
    json!({
        "via": via,
        "vrps": vrps.iter().map(|v| v.to_json()).collect::<Vec<_>>(),
        "routes": routes,
        "variant": rng.below(4),
    })
}

/// All route prefixes of up to 3 bits against every single VRP of up to 3
/// bits with every max length up to 4, same and different AS.
fn exhaustive_small(v4: bool) -> Vec<Value> {
    let mut all = Vec::new();
    for l in 0..=3usize {
        for x in 0..(1u32 << l) {
            all.push(APrefix { v4, bits: (0..l).map(|i| x & (1 << (l - 1 - i)) != 0).collect() });
        }
    }
    let mut res = Vec::new();
    for v in &all {
        let mut maxes: Vec<Option<u8>> = vec![None];
        for m in v.len()..=4 { maxes.push(Some(m as u8)) }
        for m in maxes {
            let routes: Vec<Value> = all.iter().flat_map(|r| {
                [json!([r.text(), "AS1"]), json!([r.text(), "AS2"])]
            }).collect();
            res.push(json!({
                "via": "direct", "variant": 0,
                "vrps": [AVrp { pfx: v.clone(), max_len: m, asn: 1 }.to_json()],
                "routes": routes,
            }));
        }
    }
    res
}

// ------------------------------------------------------------------- oracle

struct Expected {
    state: &'static str,
    matched: Vec<AVrp>,
    bad_asn: Vec<AVrp>,
    bad_len: Vec<AVrp>,
}

/// RFC 6811 on bit strings.
fn classify(route: &APrefix, asn: u32, set: &[AVrp]) -> Expected {
    let covering: Vec<&AVrp> = set.iter().filter(|v| v.pfx.covers(route)).collect();
    let matched: Vec<AVrp> = covering.iter().filter(|v| {
        route.len() <= v.resolved() && v.asn == asn
    }).map(|v| (*v).clone()).collect();
    let bad_len: Vec<AVrp> = covering.iter().filter(|v| route.len() > v.resolved())
        .map(|v| (*v).clone()).collect();
    let bad_asn: Vec<AVrp> = covering.iter().filter(|v| {
        route.len() <= v.resolved() && v.asn != asn
    }).map(|v| (*v).clone()).collect();
    let state = if !matched.is_empty() { "valid" }
        else if !covering.is_empty() { "invalid" } else { "not-found" };
    Expected { state, matched, bad_asn, bad_len }
}

fn keys(l: &[AVrp]) -> Vec<(APrefix, usize, u32)> {
    let mut k: Vec<_> = l.iter().map(|v| v.key()).collect();
    k.sort();
    k
}

fn oracle(
    ctx: &mut Ctx, input: &Value, route: &APrefix, asn: u32, set: &[AVrp], obs: &Observed
) {
    let exp = classify(route, asn, set);
    let o = obs.to_json();
    if obs.state != exp.state {
        ctx.oracle_fail(&format!("state-{}-expected-{}", obs.state, exp.state),
            "reported state differs from the RFC 6811 classification", input, o.clone());
    }
    if keys(&obs.matched) != keys(&exp.matched) {
        ctx.oracle_fail("matched-list", "matched list is not the set of matching VRPs", input, o.clone());
    }
    if keys(&obs.bad_len) != keys(&exp.bad_len) {
        ctx.oracle_fail("unmatched-length-list",
            "unmatched_length is not the set of covering VRPs with a too short max length", input, o.clone());
    }
    if keys(&obs.bad_asn) != keys(&exp.bad_asn) {
        ctx.oracle_fail("unmatched-as-list",
            "unmatched_as is not the set of covering VRPs with sufficient max length and another AS",
            input, o.clone());
    }
    let want_reason = if exp.state != "invalid" { None }
        else if !exp.bad_asn.is_empty() { Some("as") } else { Some("length") };
    if obs.reason.as_deref() != want_reason {
        ctx.oracle_fail("reason", "reason does not follow the lists", input, o.clone());
    }
    let want_desc = match (exp.state, want_reason) {
        ("valid", _) => "valid", ("not-found", _) => "not-found",
        (_, Some("as")) => "as", _ => "length"
    };
    if obs.desc != want_desc {
        ctx.oracle_fail("description", "description does not follow the state", input, o.clone());
    }
    if let Some((p, a)) = obs.route.as_ref() {
        if *p != route.text() || *a != format!("AS{asn}") {
            ctx.oracle_fail("route-echo", "the reported route is not the requested one", input, o);
        }
    }
}

// --------------------------------------------------------------------- run

fn parse_asn(s: &str) -> Option<u32> {
    let t = if s.len() >= 2 && s[..2].eq_ignore_ascii_case("as") { &s[2..] } else { s };
    t.parse().ok()
}

struct Fixtures { http: Option<Result<HttpFixture, String>> }

fn run_input(ctx: &mut Ctx, fx: &mut Fixtures, input: &Value) {
    let via = input["via"].as_str().unwrap_or("direct").to_string();
    let variant = input["variant"].as_u64().unwrap_or(0);
    let vrps: Vec<AVrp> = match input["vrps"].as_array() {
        Some(a) => a.iter().filter_map(AVrp::from_json).collect(),
        None => return
    };
    let routes: Vec<(String, String)> = input["routes"].as_array().map(|a| a.iter().filter_map(|r| {
        Some((r.get(0)?.as_str()?.to_string(), r.get(1)?.as_str()?.to_string()))
    }).collect()).unwrap_or_default();
    if routes.is_empty() { return }
    let abs_routes: Vec<(APrefix, u32)> = match routes.iter().map(|(p, a)| {
        Some((APrefix::parse_relaxed(p)?, parse_asn(a)?))
    }).collect::<Option<Vec<_>>>() { Some(r) => r, None => return };

    // The data set.
    let config = base_config();
    let snapshot: Arc<PayloadSnapshot> = match via.as_str() {
        "direct" | "json" => Arc::new(PayloadSnapshot::new(
            vrps.iter().map(|v| (v.to_real(), info())), std::iter::empty(), std::iter::empty(), None
        )),
        "plain-list" | "json-list" => {
            // as the `validate` command: report + exceptions -> snapshot
            let exc = match LocalExceptions::from_json(&slurm_assertions(&vrps), false) {
                Ok(e) => e, Err(e) => { ctx.count(&format!("slurm-error:{e}")); return }
            };
            let mut metrics = Metrics::new();
            Arc::new(ValidationReport::new(&config).into_snapshot(&exc, &mut metrics))
        }
        _ => {
            if fx.http.is_none() { fx.http = Some(HttpFixture::start()) }
            let http = match fx.http.as_ref().unwrap() {
                Ok(h) => h,
                Err(e) => { ctx.count(&format!("http-unavailable:{e}")); return }
            };
            let exc = match LocalExceptions::from_json(&slurm_assertions(&vrps), false) {
                Ok(e) => e, Err(e) => { ctx.count(&format!("slurm-error:{e}")); return }
            };
            http.history.update(ValidationReport::new(&http.config), &exc, Metrics::new());
            let cur = http.history.read().current();
            cur.expect("history has a snapshot after update")
        }
    };
    let set: Vec<AVrp> = snapshot.origins().map(|(o, _)| AVrp::from_real(&o)).collect();
    let set_model = set.iter().map(|v| v.model()).collect::<Vec<_>>().join(";");

    // The implementation's answers, one per route.
    let observed: Result<Vec<Observed>, String> = (|| match via.as_str() {
        "direct" => Ok(routes.iter().map(|(p, a)| {
            let prefix = Prefix::from_str_relaxed(p).expect("route prefix");
            let asn = Asn::from_str(a).expect("route asn");
            observe_direct(&RouteValidity::new(prefix, asn, &snapshot))
        }).collect()),
        "json" => routes.iter().map(|(p, a)| {
            let prefix = Prefix::from_str_relaxed(p).expect("route prefix");
            let asn = Asn::from_str(a).expect("route asn");
            let bytes = RouteValidity::new(prefix, asn, &snapshot).into_json(&snapshot);
            let v: Value = serde_json::from_slice(&bytes).map_err(|e| format!("invalid JSON: {e}"))?;
            observe_json(v.get("validated_route").ok_or("no validated_route")?)
        }).collect(),
        "plain-list" | "json-list" | "http-post" => {
            let list_json = json!({"routes": abs_routes.iter().zip(routes.iter()).map(|((p, a), (_, at))| {
                // prefixes must be strict here; ASNs in any accepted spelling
                let asn = match variant { 0 => json!(a), 1 => json!(at), _ => json!(format!("AS{a}")) };
                json!({"prefix": p.text(), "asn": asn})
            }).collect::<Vec<_>>()}).to_string();
            let out: Vec<u8> = if via == "http-post" {
                let http = fx.http.as_ref().unwrap().as_ref().unwrap();
                let ctype = if variant % 2 == 0 { "application/json" } else { "Application/JSON" };
                let (status, body) = http.request("POST", "/validity", Some((ctype, list_json.as_bytes())))?;
                if status != 200 { return Err(format!("POST status {status}: {}", String::from_utf8_lossy(&body))) }
                body
            } else {
                let requests = if via == "json-list" {
                    RequestList::from_json_reader(&mut Cursor::new(list_json.as_bytes()))
                        .map_err(|e| format!("request list: {e}"))?
                } else {
                    let text: String = abs_routes.iter().map(|(p, a)| match variant {
                        0 => format!("{} => {}\n", p.text(), a),
                        1 => format!("  {}   =>\tAS{} # comment => x\n\n", p.text(), a),
                        _ => format!("{} => AS{}\n", p.text(), a),
                    }).collect();
                    RequestList::from_plain_reader(Cursor::new(text.as_bytes()))
                        .map_err(|e| format!("request list: {e}"))?
                };
                let result = requests.validity(&snapshot);
                // plain output: `prefix => asn: state`
                let mut plain = Vec::new();
                result.write_plain(&mut plain).map_err(|e| e.to_string())?;
                let plain = String::from_utf8_lossy(&plain).to_string();
                let states: Vec<String> = result.iter_state().map(|(_, _, s)| s.to_string()).collect();
                let plain_states: Vec<String> = plain.lines().map(|l| {
                    l.rsplit_once(": ").map(|x| x.1.to_string()).unwrap_or_default()
                }).collect();
                if states != plain_states { return Err(format!("plain output {plain:?} vs states {states:?}")) }
                let mut out = Vec::new();
                result.write_json(&mut out).map_err(|e| e.to_string())?;
                // the plain states must be the JSON states (checked below via PLAIN marker)
                let v: Value = serde_json::from_slice(&out).map_err(|e| format!("invalid JSON: {e}"))?;
                let arr = v.get("validated_routes").and_then(|a| a.as_array()).ok_or("no validated_routes")?;
                for (item, st) in arr.iter().zip(states.iter()) {
                    if item["validity"]["state"].as_str() != Some(st.as_str()) {
                        return Err("plain state differs from JSON state".into())
                    }
                }
                out
            };
            let v: Value = serde_json::from_slice(&out).map_err(|e| format!("invalid JSON: {e}"))?;
            let arr = v.get("validated_routes").and_then(|a| a.as_array()).ok_or("no validated_routes")?;
            if arr.len() != routes.len() { return Err(format!("{} results for {} routes", arr.len(), routes.len())) }
            arr.iter().map(observe_json).collect()
        }
        "http-path" | "http-query" => {
            let http = fx.http.as_ref().unwrap().as_ref().unwrap();
            routes.iter().map(|(p, a)| {
                let target = if via == "http-path" {
                    format!("/api/v1/validity/{a}/{p}")
                } else if variant % 2 == 0 {
                    format!("/validity?asn={a}&prefix={}", percent(p))
                } else {
                    format!("/validity?prefix={p}&asn={a}")
                };
                let (status, body) = http.request("GET", &target, None)?;
                if status != 200 { return Err(format!("GET {target} status {status}")) }
                let v: Value = serde_json::from_slice(&body).map_err(|e| format!("invalid JSON: {e}"))?;
                observe_json(v.get("validated_route").ok_or("no validated_route")?)
            }).collect()
        }
        other => Err(format!("unknown via {other}"))
    })();

    let observed = match observed {
        Ok(o) => o,
        Err(e) if e.starts_with("transport:") => {
            ctx.count("http-transport-error");
            return
        }
        Err(e) => {
            // The glue refused or garbled a well-formed request: the route's
            // state was not reported at all.
            ctx.case_oracle_only(input, &e);
            ctx.oracle_fail(&format!("no-answer-{via}"), &e, input, json!(e));
            return
        }
    };
    for (((route, asn), obs), idx) in abs_routes.iter().zip(observed.iter()).zip(0..) {
        let mut one = input.clone();
        if routes.len() > 1 { one["route_index"] = json!(idx) }
        let op = format!("c20 {}|{}|{}", route.model(), asn, set_model);
        ctx.case(&one, &op, &obs.line());
        oracle(ctx, &one, route, *asn, &set, obs);
        ctx.count(&format!("state:{}", obs.state));
        ctx.count(&format!("via:{via}"));
        if let Some(r) = obs.reason.as_ref() { ctx.count(&format!("reason:{r}")) }
        if !obs.bad_len.is_empty() && obs.bad_len.iter().any(|v| v.asn != *asn) {
            ctx.count("badlen-with-other-as");
        }
        if set.iter().any(|v| v.pfx.covers(route) && v.resolved() == route.len()) {
            ctx.count("boundary:len=maxlen");
        }
        if set.iter().any(|v| v.pfx.covers(route) && v.resolved() + 1 == route.len()) {
            ctx.count("boundary:len=maxlen+1");
        }
        if set.iter().any(|v| v.pfx.v4 != route.v4) { ctx.count("other-family-vrp") }
        ctx.nontrivial(format!("{}/{}/{}/{}{}{}/{}", via, if route.v4 { 4 } else { 6 }, obs.state,
            obs.matched.len().min(2), obs.bad_asn.len().min(2), obs.bad_len.len().min(2),
            match route.len() { 0 => "0", 1 => "1", 31 => "31", 32 => "32", 33 => "33", 127 => "127", 128 => "128", _ => "x" }));
    }
}

pub fn run_c20(ctx: &mut Ctx) {
    ctx.rule = "data sets of 0..9 VRPs built around the route (covering, equal, more specific, one bit \
        off, same bits in the other family, whole family, random; max length none / len / route len-1,\
        +0,+1 / family max; AS equal or not) and 1..4 routes per data set, through 7 paths: \
        RouteValidity::new, its JSON, RequestList plain/JSON parsers + write_json/write_plain (the \
        validate command), GET /api/v1/validity/AS/prefix, GET /validity?asn&prefix, POST /validity on \
        the real http_listener; plus every route prefix of <= 3 bits against every single VRP of <= 3 \
        bits with every max length <= 4 (both families). non-trivial = every evaluated route; distinct \
        by (path, family, state, list sizes capped at 2, boundary length class)".into();
    let mut fx = Fixtures { http: None };
    let inputs: Vec<Value> = match ctx.replay_inputs() {
        Some(inputs) => inputs,
        None => {
            let mut res = ctx.corpus("C20");
            res.extend(exhaustive_small(true));
            res.extend(exhaustive_small(false));
            let n = ctx.budget(2500, 120_000);
            let mut rng = ctx.rng.fork();
            for i in 0..n { res.push(gen_case(&mut rng, i)) }
            res
        }
    };
    for input in inputs {
        run_input(ctx, &mut fx, &input);
    }
}
