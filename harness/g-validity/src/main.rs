//! Group "validity": C20 (route origin validation), C09 (snapshot
//! composition), C08 (unsafe-VRP filter).
mod abs;
mod c20;
mod fixture;
mod httpc;
mod keys;
mod snap;

fn run(name: &str, ctx: &mut rvcore::Ctx) -> bool {
    match name {
        "c20" => c20::run_c20(ctx),
        "c09" => snap::run_c09(ctx),
        "c08" => snap::run_c08(ctx),
        _ => return false
    }
    true
}

fn main() { rvcore::main_with(run, rvcore::no_special) }
