//! Group "codec": C27 (corrupt data never crashes), C28 (records read back as written).
mod alloc;
mod text;
mod records;
mod gen;
mod c27;
mod c28;

#[global_allocator]
static ALLOCATOR: alloc::Counting = alloc::Counting;

fn run(name: &str, ctx: &mut rvcore::Ctx) -> bool {
    // Panics of the code under test are caught and reported per case.
    std::panic::set_hook(Box::new(|_| {}));
    match name {
        "c27" => c27::run_c27(ctx),
        "c28" => c28::run_c28(ctx),
        _ => return false
    }
    true
}

fn special(name: &str, args: &[String]) -> Option<i32> {
    match name {
        "c27-child" => Some(c27::child_main(args)),
        _ => None
    }
}

fn main() { rvcore::main_with(run, special) }
