//! C27: corrupt local data never crashes Routinator.
//!
//! The parent generates the cases (valid encodings truncated at every point,
//! single-byte changes, boundary values in every length/count/tag field,
//! crafted archive chains, arbitrary bytes), writes them to a file and lets a
//! child process (this binary in `c27-child` mode) run them through the real
//! readers with an address-space limit, a per-case alarm and the counting
//! allocator. The child reports `B <i>` before and `R <i> <json>` after each
//! case; if it dies, the case after the last `B` is to blame and the parent
//! restarts it behind that case.

use std::io::{BufRead, Write};
use std::path::{Path, PathBuf};
use std::sync::Arc;
use std::time::Instant;
use routinator::collector::RrdpArchive;
use routinator::store::{Store, StoredPoint};
use routinator::Config;
use rpki::uri;
use serde_json::{json, Value};
use rvcore::{Ctx, Rng};
use crate::alloc;
use crate::gen;
use crate::records::{decode_measured, Rec, KINDS};
use crate::text::*;

const MIB: usize = 1 << 20;
/// The wall clock while `StoredPoint::open` runs (it stamps `LastAttempt` headers).
const FAKE_NOW: i64 = 1_700_000_000;
/// Seconds a single case may take.
const CASE_SECONDS: u32 = 6;
/// After this many dead children per reader the remaining cases of that reader are skipped
/// (the failures found are reported; the run stays within its time budget).
const MAX_DEATHS_PER_READER: usize = 8;
/// Address-space limit of the child.
const CHILD_AS_LIMIT: u64 = 3 << 30;

//------------ Sparse byte strings -------------------------------------------

/// `{"len": n, "chunks": [[offset, "hex"], …]}` — everything else is zero.
fn to_sparse(data: &[u8]) -> Value {
    let mut chunks = Vec::new();
    let mut i = 0;
    while i < data.len() {
        if data[i] == 0 { i += 1; continue }
        // extend the chunk until a run of 16 zeros (or the end)
        let start = i;
        let mut end = i + 1;
        let mut zeros = 0;
        let mut j = i + 1;
        while j < data.len() && zeros < 16 {
            if data[j] == 0 { zeros += 1 } else { zeros = 0; end = j + 1 }
            j += 1;
        }
        chunks.push(json!([start, hex(&data[start..end])]));
        i = end;
    }
    json!({"len": data.len(), "chunks": chunks})
}

fn from_sparse(v: &Value) -> Option<Vec<u8>> {
    if let Some(s) = v.as_str() { return unhex(s) }
    let len = v["len"].as_u64()? as usize;
    if len > 64 * MIB { return None }
    let mut data = vec![0u8; len];
    for c in v["chunks"].as_array()? {
        let off = c[0].as_u64()? as usize;
        let bytes = unhex(c[1].as_str()?)?;
        if off + bytes.len() > len { return None }
        data[off..off + bytes.len()].copy_from_slice(&bytes);
    }
    Some(data)
}

/// The text form for the model driver: `<len>:<offset>=<hex>,…`.
fn sparse_text(v: &Value) -> String {
    let v = match v {
        Value::String(s) => to_sparse(&unhex(s).unwrap_or_default()),
        other => other.clone(),
    };
    let chunks: Vec<String> = v["chunks"].as_array().map(|l| l.iter().map(|c| {
        format!("{}={}", c[0].as_u64().unwrap_or(0), c[1].as_str().unwrap_or("."))
    }).collect()).unwrap_or_default();
    format!("{}:{}", v["len"].as_u64().unwrap_or(0), chunks.join(","))
}

//------------ Child side ----------------------------------------------------

struct Measured<T> {
    value: Result<T, String>,
    max_alloc: usize,
    zeroed: bool,
    ms: u128,
}

fn measure<T>(f: impl FnOnce() -> T) -> Measured<T> {
    let start = Instant::now();
    alloc::reset();
    let value = rvcore::catch(std::panic::AssertUnwindSafe(f));
    let (max_alloc, zeroed) = alloc::stop();
    Measured { value, max_alloc, zeroed, ms: start.elapsed().as_millis() }
}

fn test_config(dir: &Path) -> Config {
    Config::default_with_paths(dir.join("routinator.conf"), dir.join("cache"))
}

fn test_manifest_uri() -> uri::Rsync { uri::Rsync::from_slice(b"rsync://new.example/m/new.mft").unwrap() }
fn test_notify() -> uri::Https { uri::Https::from_slice(b"https://new.example/n.xml").unwrap() }

fn show_point(point: &mut StoredPoint) -> (String, usize, String) {
    let h = Rec::Header(point.verif_header().clone()).canonical().show();
    let m = point.manifest().map(|m| Rec::Manifest(m.clone()).canonical().show());
    // iterate the objects to the end or the first error
    let mut n = 0;
    let mut end = "end";
    for item in point.by_ref() {
        match item {
            Ok(_) => n += 1,
            Err(err) => { end = if err.is_eof() { "eof" } else if err.is_fatal() { "fatal" } else { "format" }; break }
        }
        if n > 1_000_000 { end = "endless"; break }
    }
    (format!("H[{}] M[{}]", h, m.unwrap_or_else(|| "~".into())), n, end.into())
}

/// Runs one case; returns the result object.
fn run_case(case: &Value, dir: &Path) -> Value {
    let t = case["t"].as_str().unwrap_or("");
    let Some(data) = from_sparse(&case["data"]) else { return json!({"skip": "unparsable"}) };
    match t {
        "rec" => {
            let kind = case["kind"].as_str().unwrap_or("");
            if !KINDS.contains(&kind) { return json!({"skip": "kind"}) }
            // Only the real reader is measured (a panic leaves the outer measurement).
            let m = measure(|| { let (_, o, a) = decode_measured(kind, &data); (o, a) });
            let (max_alloc, zeroed) = match m.value.as_ref() {
                Ok((_, a)) => *a,
                Err(_) => (m.max_alloc, m.zeroed),
            };
            json!({
                "shown": m.value.as_ref().ok().map(|(o, _)| o.show(kind)),
                "class": m.value.as_ref().ok().map(|(o, _)| o.class()),
                "panic": m.value.as_ref().err(),
                "max_alloc": max_alloc, "zeroed": zeroed, "ms": m.ms as u64,
            })
        }
        "open" => {
            let path = dir.join("point.bin");
            std::fs::write(&path, &data).expect("write case file");
            rvcore::clock::set(FAKE_NOW, 0);
            let (muri, notify) = (test_manifest_uri(), test_notify());
            let m = measure(|| {
                match StoredPoint::verif_open(path.clone(), &muri, Some(&notify)) {
                    Err(_) => "failed".to_string(),
                    Ok(mut point) => {
                        let is_new = point.is_new();
                        let has_manifest = point.manifest().is_some();
                        let (shown, n, end) = show_point(&mut point);
                        if is_new { "recreated".into() }
                        else if has_manifest { format!("loaded {shown} objects={n} end={end}") }
                        else { format!("attempt {shown}") }
                    }
                }
            });
            let after = std::fs::read(&path).ok();
            json!({
                "shown": m.value.as_ref().ok(), "panic": m.value.as_ref().err(),
                "max_alloc": m.max_alloc, "zeroed": m.zeroed, "ms": m.ms as u64,
                "file_after": after.map(|a| hex(&a[..a.len().min(200)])),
            })
        }
        "quiet" => {
            let path = dir.join("point.bin");
            std::fs::write(&path, &data).expect("write case file");
            let m = measure(|| {
                match StoredPoint::load_quietly(path.clone()) {
                    None => "none".to_string(),
                    Some(mut point) => {
                        let (shown, n, end) = show_point(&mut point);
                        format!("some {shown} objects={n} end={end}")
                    }
                }
            });
            json!({
                "shown": m.value.as_ref().ok(), "panic": m.value.as_ref().err(),
                "max_alloc": m.max_alloc, "zeroed": m.zeroed, "ms": m.ms as u64,
            })
        }
        "status" => {
            let cache = dir.join("cache").join("stored");
            std::fs::create_dir_all(&cache).expect("create dir");
            std::fs::write(cache.join("status.bin"), &data).expect("write case file");
            let config = test_config(dir);
            let m = measure(|| {
                let store = match Store::new(&config) { Ok(s) => s, Err(_) => return "store-failed".to_string() };
                match store.status() {
                    Ok(Some(s)) => format!("ok last_update={}", show_time(s.last_update)),
                    Ok(None) => "missing".into(),
                    Err(_) => "failed".into(),
                }
            });
            json!({
                "shown": m.value.as_ref().ok(), "panic": m.value.as_ref().err(),
                "max_alloc": m.max_alloc, "zeroed": m.zeroed, "ms": m.ms as u64,
            })
        }
        "archive" => {
            let path = Arc::new(dir.join("archive.bin"));
            let probe = case["probe"].as_str().and_then(unhex)
                .and_then(|u| uri::Rsync::from_slice(&u).ok());
            let mut calls = serde_json::Map::new();
            let mut worst = (0usize, false);
            let mut panic: Option<String> = None;
            let mut ms = 0u64;
            let mut run = |name: &str, f: &mut dyn FnMut() -> String| {
                // `archive_err` deletes a corrupt file: start from the case's bytes every time
                std::fs::write(path.as_ref(), &data).expect("write case file");
                let m = measure(|| f());
                if m.max_alloc > worst.0 { worst = (m.max_alloc, m.zeroed) }
                ms += m.ms as u64;
                let exists = path.exists();
                match m.value {
                    Ok(s) => { calls.insert(name.into(), json!(format!("{s}{}", if exists { "" } else { " deleted" }))); }
                    Err(p) => {
                        calls.insert(name.into(), json!(format!("panic: {p}")));
                        if panic.is_none() { panic = Some(format!("{name}: {p}")) }
                    }
                }
            };
            let rf = |e: routinator::error::RunFailed| if e.is_fatal() { "fatal".to_string() } else { "retry".to_string() };
            run("verify", &mut || match RrdpArchive::verify(path.as_ref()) {
                Ok(stats) => format!("ok objects={} empties={}", stats.object_count, stats.empty_count),
                Err(routinator::utils::archive::OpenError::NotFound) => "notfound".into(),
                Err(routinator::utils::archive::OpenError::Archive(routinator::utils::archive::ArchiveError::Corrupt(_))) => "corrupt".into(),
                Err(routinator::utils::archive::OpenError::Archive(routinator::utils::archive::ArchiveError::Io(_))) => "io".into(),
            });
            run("state", &mut || match RrdpArchive::open(path.clone()) {
                Err(e) => format!("open-{}", rf(e)),
                Ok(archive) => match archive.load_state() {
                    Ok(state) => format!("ok serial={} deltas={}", state.serial, state.delta_state.len()),
                    Err(e) => rf(e),
                }
            });
            run("objects", &mut || match RrdpArchive::open(path.clone()) {
                Err(e) => format!("open-{}", rf(e)),
                Ok(archive) => match archive.objects() {
                    Err(e) => rf(e),
                    Ok(iter) => {
                        let mut n = 0u64;
                        let mut bytes = 0u64;
                        let mut res = None;
                        for item in iter {
                            match item {
                                Ok((_, data)) => { n += 1; bytes += data.len() as u64 }
                                Err(e) => { res = Some(rf(e)); break }
                            }
                        }
                        match res { Some(e) => format!("{e} after={n}"), None => format!("ok n={n} bytes={bytes}") }
                    }
                }
            });
            if let Some(probe) = probe.as_ref() {
                run("load", &mut || match RrdpArchive::open(path.clone()) {
                    Err(e) => format!("open-{}", rf(e)),
                    Ok(archive) => match archive.load_object(probe) {
                        Ok(Some(data)) => format!("some len={}", data.len()),
                        Ok(None) => "none".into(),
                        Err(e) => rf(e),
                    }
                });
            }
            // What an update does to the (corrupt) archive: a short script of writes.
            let objs: Vec<(uri::Rsync, rpki::rrdp::Hash)> = case["objs"].as_array().map(|l| l.iter().filter_map(|o| {
                let u = uri::Rsync::from_slice(&unhex(o[0].as_str()?)?).ok()?;
                let h: [u8; 32] = unhex(o[1].as_str()?)?.as_slice().try_into().ok()?;
                Some((u, rpki::rrdp::Hash::from(h)))
            }).collect()).unwrap_or_default();
            if case.get("objs").is_some() {
                run("write", &mut || write_script(path.clone(), &objs));
            }
            drop(run);
            json!({
                "calls": calls, "panic": panic,
                "max_alloc": worst.0, "zeroed": worst.1, "ms": ms,
            })
        }
        _ => json!({"skip": "type"})
    }
}

/// Publishes, updates and deletes objects of sizes around the page and header boundaries in
/// the archive at `path`, then updates the state and verifies. One word per step.
fn write_script(path: Arc<PathBuf>, objs: &[(uri::Rsync, rpki::rrdp::Hash)]) -> String {
    use routinator::utils::archive::{ArchiveError, PublishError};
    let mut archive = match RrdpArchive::try_open(path.clone()) {
        Ok(Some(a)) => a,
        Ok(None) => return "open-notfound".into(),
        Err(e) => return format!("open-{}", if e.is_fatal() { "fatal" } else { "retry" }),
    };
    let aerr = |e: &ArchiveError| match e { ArchiveError::Corrupt(_) => "corrupt", ArchiveError::Io(_) => "io" };
    let mut steps = Vec::new();
    // object sizes: header 33 + name + meta 32 + data, rounded up to 256
    let new_uri = |i: usize| uri::Rsync::from_slice(format!("rsync://a.example/m/new{i}.roa").as_bytes()).unwrap();
    let overhead = 33 + 32 + new_uri(0).as_slice().len();
    let lens = [0usize, 256 - overhead, 256 - overhead, 256 - overhead + 1, 512 - overhead, 100, 512 - overhead - 33, 300];
    for (i, len) in lens.iter().enumerate() {
        let content = vec![i as u8; *len];
        steps.push(format!("p{}={}", i, match archive.publish_object(&new_uri(i), &content) {
            Ok(()) => "ok",
            Err(PublishError::AlreadyExists) => "exists",
            Err(PublishError::Archive(ref e)) => aerr(e),
        }));
        // existing objects: grow (must move), same size, delete
        if let Some((u, h)) = objs.get(i) {
            use routinator::collector::verif_codec::AccessError;
            let res = match i % 3 {
                0 => archive.update_object(u, *h, &vec![0xab; 700]),
                1 => archive.update_object(u, *h, &[1, 2, 3]),
                _ => archive.delete_object(u, *h),
            };
            steps.push(format!("{}{}={}", ["g", "u", "d"][i % 3], i, match res {
                Ok(()) => "ok",
                Err(AccessError::NotFound) => "notfound",
                Err(AccessError::HashMismatch) => "mismatch",
                Err(AccessError::Archive(ref e)) => aerr(e),
            }));
        }
    }
    if let Some(Rec::State(state)) = Fields::parse(
        "rpki_notify=68747470733a2f2f612f6e2e786d6c;session=000102030405060708090a0b0c0d0e0f;serial=78;\
         updated_ts=1700000000;best_before_ts=1700003600;last_modified_ts=~;etag=2261;delta_state=.".replace(' ', "").as_str()
    ).and_then(|f| Rec::build("state", &f)) {
        steps.push(format!("s={}", match archive.update_state(&state) {
            Ok(()) => "ok", Err(e) => if e.is_fatal() { "fatal" } else { "retry" }
        }));
    }
    drop(archive);
    steps.push(format!("v={}", match RrdpArchive::verify(path.as_ref()) {
        Ok(_) => "ok",
        Err(routinator::utils::archive::OpenError::NotFound) => "notfound",
        Err(routinator::utils::archive::OpenError::Archive(ref e)) => aerr(e),
    }));
    steps.join(" ")
}

/// `rv-codec c27-child <cases.jsonl> <results> <start index> <byte offset of that case>`
pub fn child_main(args: &[String]) -> i32 {
    use nix::sys::resource::{setrlimit, Resource};
    use std::io::{Seek, SeekFrom};
    if args.len() < 4 { return 2 }
    let start: usize = args[2].parse().unwrap_or(0);
    let offset: u64 = args[3].parse().unwrap_or(0);
    // readers that have already killed several children are not tried again
    let capped: Vec<&str> = args.get(4).map(|s| s.split(',').filter(|l| !l.is_empty()).collect()).unwrap_or_default();
    let mut file = std::fs::File::open(&args[0]).expect("open cases");
    file.seek(SeekFrom::Start(offset)).expect("seek");
    let cases = std::io::BufReader::new(file);
    let mut out = std::fs::OpenOptions::new().append(true).create(true).open(&args[1]).expect("open results");
    {
        use std::os::fd::AsRawFd;
        alloc::set_note_fd(out.as_raw_fd());
    }
    let _ = setrlimit(Resource::RLIMIT_AS, CHILD_AS_LIMIT, CHILD_AS_LIMIT);
    let _ = setrlimit(Resource::RLIMIT_CORE, 0, 0);
    std::panic::set_hook(Box::new(|_| {}));
    // A memory file system if there is one: thousands of small files are written.
    let dir = tempfile::tempdir_in("/dev/shm").or_else(|_| tempfile::tempdir()).expect("tempdir");
    for (k, line) in cases.lines().enumerate() {
        let line = line.expect("read case");
        let i = start + k;
        let case: Value = serde_json::from_str(&line).expect("parse case");
        if capped.contains(&case_label(&case).as_str()) {
            writeln!(out, "R {i} {}", json!({"skip": "capped"})).expect("write");
            continue
        }
        writeln!(out, "B {i}").expect("write");
        nix::unistd::alarm::set(CASE_SECONDS);
        let res = run_case(&case, dir.path());
        nix::unistd::alarm::cancel();
        writeln!(out, "R {i} {res}").expect("write");
    }
    0
}

//------------ Parent side: running the child ----------------------------------

/// Runs all cases in child processes; returns one result per case
/// (`{"died": "signal …", "note": …}` for a case that killed its child).
fn run_in_child(out_dir: &Path, cases: &[Value]) -> Vec<Value> {
    let cases_path = out_dir.join("c27-cases.jsonl");
    let results_path = out_dir.join("c27-results.txt");
    let mut offsets = Vec::with_capacity(cases.len());
    {
        let mut f = std::io::BufWriter::new(std::fs::File::create(&cases_path).expect("create cases"));
        let mut pos = 0u64;
        for c in cases {
            let line = c.to_string();
            offsets.push(pos);
            pos += line.len() as u64 + 1;
            writeln!(f, "{line}").expect("write case")
        }
    }
    let _ = std::fs::remove_file(&results_path);
    let exe = std::env::current_exe().expect("current exe");
    let mut results: Vec<Option<Value>> = vec![None; cases.len()];
    let mut start = 0;
    let mut restarts = 0;
    let mut deaths: std::collections::BTreeMap<String, usize> = Default::default();
    while start < cases.len() {
        let capped: Vec<String> = deaths.iter().filter(|(_, n)| **n >= MAX_DEATHS_PER_READER)
            .map(|(l, _)| l.clone()).collect();
        let _ = std::fs::remove_file(&results_path);
        let status = std::process::Command::new(&exe)
            .arg("c27-child").arg(&cases_path).arg(&results_path).arg(start.to_string())
            .arg(offsets[start].to_string())
            .arg(capped.join(","))
            .stdout(std::process::Stdio::null())
            .status().expect("spawn child");
        let mut last_begun: Option<usize> = None;
        let mut note: Option<String> = None;
        if let Ok(f) = std::fs::File::open(&results_path) {
            for line in std::io::BufReader::new(f).lines() {
                let Ok(line) = line else { break };
                if let Some(rest) = line.strip_prefix("B ") {
                    last_begun = rest.trim().parse().ok();
                    note = None;
                }
                else if let Some(rest) = line.strip_prefix("R ") {
                    if let Some((i, json)) = rest.split_once(' ') {
                        if let (Ok(i), Ok(v)) = (i.parse::<usize>(), serde_json::from_str::<Value>(json)) {
                            if i < results.len() { results[i] = Some(v) }
                        }
                    }
                }
                else if let Some(rest) = line.strip_prefix("A ") {
                    note = Some(rest.trim().to_string());
                }
            }
        }
        if status.success() { break }
        // The child died: blame the case it had begun.
        use std::os::unix::process::ExitStatusExt;
        let how = match status.signal() {
            Some(14) => "timeout".to_string(),
            Some(6) => "abort".to_string(),
            Some(s) => format!("signal-{s}"),
            None => format!("exit-{}", status.code().unwrap_or(-1)),
        };
        let culprit = match last_begun {
            Some(i) if results[i].is_none() => i,
            _ => {
                // died outside a case: give up on the rest
                for r in results.iter_mut().skip(start) {
                    if r.is_none() { *r = Some(json!({"died": format!("child-broken-{how}")})) }
                }
                break
            }
        };
        results[culprit] = Some(json!({"died": how, "note": note}));
        *deaths.entry(case_label(&cases[culprit])).or_insert(0) += 1;
        start = culprit + 1;
        restarts += 1;
        if restarts > 5000 { break }
    }
    results.into_iter().map(|r| r.unwrap_or_else(|| json!({"died": "not-run"}))).collect()
}

//------------ Generators ----------------------------------------------------

fn valid_record(rng: &mut Rng, kind: &str, i: usize) -> Vec<u8> {
    loop {
        let f = gen::record(rng, kind, i, true);
        if let Some(rec) = Rec::build(kind, &f) {
            if let Ok(enc) = rec.encode() { return enc }
        }
    }
}

fn be(n: u64, k: usize) -> Vec<u8> { n.to_be_bytes()[8 - k..].to_vec() }

const LEN_VALUES: [u64; 14] = [
    0, 1, 2, 7, 0xff, 0x100, 0xffff, 0x1_0000, 0x7fff_ffff, 0x8000_0000, 0xffff_fffe, 0xffff_ffff,
    0x40_0000, 0x1000_0000,
];
const LEN64_VALUES: [u64; 12] = [
    0x1_0000_0000, 0x2_0000_0000, 0x40_0000_0000, 1 << 40, 1 << 47, 1 << 56, 1 << 60, (1 << 63) - 1,
    1 << 63, u64::MAX - 1, u64::MAX, 0x0100_0000_0000_0001,
];

/// Offsets and widths of the length / count fields of a valid encoding, found
/// by re-encoding (the harness knows the layout of what it generated).
fn length_fields(kind: &str, data: &[u8]) -> Vec<(usize, usize)> {
    let mut res = Vec::new();
    let rd = |pos: usize, k: usize| -> Option<u64> {
        let s = data.get(pos..pos + k)?;
        Some(s.iter().fold(0u64, |a, b| (a << 8) | *b as u64))
    };
    let mut pos = 0;
    let mut uri = |pos: &mut usize, res: &mut Vec<(usize, usize)>| -> Option<()> {
        let n = rd(*pos, 4)?; res.push((*pos, 4)); *pos += 4 + n as usize; Some(())
    };
    let mut walk = || -> Option<()> {
        match kind {
            "header" => {
                pos += 1;
                uri(&mut pos, &mut res)?;
                uri(&mut pos, &mut res)?;
            }
            "manifest" => {
                pos += 8 + 20 + 8;
                uri(&mut pos, &mut res)?;
                let n = rd(pos, 8)?; res.push((pos, 8)); pos += 8 + n as usize;
                uri(&mut pos, &mut res)?;
                let _ = rd(pos, 8)?; res.push((pos, 8));
            }
            "object" => {
                uri(&mut pos, &mut res)?;
                let tag = rd(pos, 1)?; pos += 1 + if tag == 1 { 32 } else { 0 };
                let _ = rd(pos, 8)?; res.push((pos, 8));
            }
            "state" => {
                pos += 1;
                uri(&mut pos, &mut res)?;
                pos += 16 + 8 + 8 + 8;
                let tag = rd(pos, 1)?; pos += 1 + if tag == 1 { 8 } else { 0 };
                let n = rd(pos, 8)?; res.push((pos, 8)); pos += 8 + if n == u64::MAX { 0 } else { n as usize };
                let _ = rd(pos, 8)?; res.push((pos, 8));
            }
            _ => {}
        }
        Some(())
    };
    let _ = walk();
    res
}

fn record_cases(rng: &mut Rng, n_random: usize, res: &mut Vec<Value>) {
    for (ki, kind) in KINDS.iter().enumerate() {
        // Two valid encodings per kind (all options present / absent), small payloads.
        for variant in 0..4 {
            let base = valid_record(rng, kind, variant + 4 * ki);
            if base.len() > 1500 && variant > 0 { continue }
            // every truncation point
            let step = if base.len() > 600 { base.len() / 300 + 1 } else { 1 };
            for cut in (0..base.len()).step_by(step) {
                res.push(json!({"t": "rec", "kind": kind, "data": hex(&base[..cut]), "how": "truncate"}));
            }
            // every length / count field: boundary values
            for (pos, k) in length_fields(kind, &base) {
                let values: Vec<u64> = if k == 4 { LEN_VALUES.to_vec() }
                    else { LEN_VALUES.iter().chain(LEN64_VALUES.iter()).copied().collect() };
                for v in values {
                    let mut d = base.clone();
                    d[pos..pos + k].copy_from_slice(&be(v, k));
                    res.push(json!({"t": "rec", "kind": kind, "data": hex(&d), "how": "length-field"}));
                    // the same with nothing behind the field
                    d.truncate(pos + k);
                    res.push(json!({"t": "rec", "kind": kind, "data": hex(&d), "how": "length-field-at-end"}));
                }
            }
            // every single byte of the first 80: a few other values
            for pos in 0..base.len().min(80) {
                for v in [0u8, 1, 2, 0x7f, 0x80, 0xff] {
                    if base[pos] == v { continue }
                    let mut d = base.clone();
                    d[pos] = v;
                    res.push(json!({"t": "rec", "kind": kind, "data": hex(&d), "how": "byte"}));
                }
            }
        }
        // random flips of valid encodings and arbitrary bytes
        for i in 0..n_random {
            let mut d = if i % 3 == 0 {
                (0..rng.below(120)).map(|_| rng.next() as u8).collect::<Vec<u8>>()
            } else {
                valid_record(rng, kind, i)
            };
            if i % 3 != 0 {
                for _ in 0..rng.range(1, 3) {
                    if d.is_empty() { break }
                    let p = rng.below(d.len() as u64) as usize;
                    match rng.below(3) {
                        0 => d[p] ^= 1 << rng.below(8),
                        1 => d[p] = rng.next() as u8,
                        _ => { d.truncate(p) }
                    }
                }
            }
            else if !d.is_empty() && rng.chance(1, 2) {
                // plausible start: right version octet
                d[0] = match *kind { "header" => 2, "state" => 1, _ => 0 };
            }
            res.push(json!({"t": "rec", "kind": kind, "data": hex(&d), "how": "random"}));
        }
    }
}

fn point_file(rng: &mut Rng, success: bool, n_objects: usize) -> Vec<u8> {
    let mut h = gen::record(rng, "header", 1, true);
    h.set("update_status", format!("{}{}", if success { "S" } else { "A" }, gen::time_text(rng, true)));
    let mut data = Rec::build("header", &h).expect("header").encode().expect("encode");
    if success {
        let mut m;
        loop {
            m = gen::record(rng, "manifest", 0, true);
            if m.get("manifest").map(|s| s.len()).unwrap_or(0) < 600 && m.get("crl").map(|s| s.len()).unwrap_or(0) < 600 { break }
        }
        data.extend(Rec::build("manifest", &m).expect("manifest").encode().expect("encode"));
        for i in 0..n_objects {
            let mut o;
            loop {
                o = gen::record(rng, "object", i, true);
                if o.get("content").map(|s| s.len()).unwrap_or(0) < 400 { break }
            }
            data.extend(Rec::build("object", &o).expect("object").encode().expect("encode"));
        }
    }
    data
}

fn file_cases(rng: &mut Rng, n_random: usize, res: &mut Vec<Value>) {
    for (success, n_obj) in [(true, 2usize), (true, 0), (false, 0)] {
        let base = point_file(rng, success, n_obj);
        let step = if base.len() > 500 { base.len() / 250 + 1 } else { 1 };
        for t in ["open", "quiet"] {
            for cut in (0..=base.len()).step_by(step) {
                res.push(json!({"t": t, "data": hex(&base[..cut]), "how": "truncate"}));
            }
            res.push(json!({"t": t, "data": hex(&base), "how": "valid"}));
            for pos in 0..base.len().min(60) {
                for v in [0u8, 1, 2, 3, 0x80, 0xff] {
                    if base[pos] == v { continue }
                    let mut d = base.clone();
                    d[pos] = v;
                    res.push(json!({"t": t, "data": hex(&d), "how": "byte"}));
                }
            }
        }
    }
    for i in 0..n_random {
        let mut d = point_file(rng, i % 4 != 0, i % 3);
        for _ in 0..rng.range(1, 3) {
            let p = rng.below(d.len() as u64) as usize;
            match rng.below(4) {
                0 => d[p] ^= 1 << rng.below(8),
                1 => d[p] = rng.next() as u8,
                2 => { d.truncate(p.max(1)) }
                _ => { let v = *rng.pick(&LEN64_VALUES); let b = v.to_be_bytes(); for (k, x) in b.iter().enumerate() { if p + k < d.len() { d[p + k] = *x } } }
            }
        }
        res.push(json!({"t": if i % 2 == 0 { "open" } else { "quiet" }, "data": hex(&d), "how": "random"}));
    }
    // status.bin
    let status = Rec::build("status", &Fields::parse("last_update=1700000000.0").unwrap()).unwrap().encode().unwrap();
    for cut in 0..=status.len() {
        res.push(json!({"t": "status", "data": hex(&status[..cut]), "how": "truncate"}));
    }
    for pos in 0..status.len() {
        for v in [0u8, 1, 0x7f, 0x80, 0xff] {
            let mut d = status.clone();
            d[pos] = v;
            res.push(json!({"t": "status", "data": hex(&d), "how": "byte"}));
        }
    }
    for _ in 0..n_random / 4 {
        let d: Vec<u8> = (0..rng.below(20)).map(|_| rng.next() as u8).collect();
        res.push(json!({"t": "status", "data": hex(&d), "how": "random"}));
    }
}

//--- Archives

const A_INDEX: usize = 6 + 16 + 8;             // magic, hash key, bucket count
const A_BUCKETS: usize = 1024;
const A_OBJECTS: usize = A_INDEX + 8 * (A_BUCKETS + 1);
const OBJ_HEADER: usize = 33;                   // size, next, is_empty, name_len, data_len

struct ArchiveInfo {
    /// The first few objects still in the archive: URI and hash of the content.
    objs: Vec<(Vec<u8>, Vec<u8>)>,
    data: Vec<u8>,
    /// Start positions of all blocks (objects and empties), in file order.
    blocks: Vec<usize>,
    /// Index slots (byte offsets) that are non-zero.
    slots: Vec<usize>,
    probe: Vec<u8>,
}

/// Builds a valid archive with the real code: objects, a state, some deleted
/// again (empty chain), some sharing a bucket chain.
fn build_archive(rng: &mut Rng, dir: &Path, n_objects: usize, n_deleted: usize) -> ArchiveInfo {
    let path = Arc::new(dir.join(format!("build-{}.bin", rng.next())));
    let mut archive = RrdpArchive::create(path.clone()).expect("create archive");
    let mut uris = Vec::new();
    for i in 0..n_objects {
        let u = uri::Rsync::from_slice(format!("rsync://a.example/m/o{i}.roa").as_bytes()).unwrap();
        let content: Vec<u8> = (0..rng.below(300)).map(|_| rng.next() as u8).collect();
        archive.publish_object(&u, &content).expect("publish");
        uris.push((u, content));
    }
    let sf = gen::record(rng, "state", 7, true);
    let Some(Rec::State(state)) = Rec::build("state", &sf) else { panic!("state") };
    archive.publish_state(&state).expect("publish state");
    for (u, content) in uris.iter().take(n_deleted) {
        archive.delete_object(u, rpki::rrdp::Hash::from_data(content)).expect("delete");
    }
    drop(archive);
    let data = std::fs::read(path.as_ref()).expect("read archive");
    let _ = std::fs::remove_file(path.as_ref());
    let mut blocks = Vec::new();
    let mut pos = A_OBJECTS;
    while pos + OBJ_HEADER <= data.len() {
        let size = u64::from_ne_bytes(data[pos..pos + 8].try_into().unwrap()) as usize;
        if size == 0 { break }
        blocks.push(pos);
        pos += size;
    }
    let slots = (0..=A_BUCKETS).map(|i| A_INDEX + 8 * i)
        .filter(|&p| data[p..p + 8].iter().any(|b| *b != 0)).collect();
    let probe = uris.last().map(|(u, _)| u.as_slice().to_vec()).unwrap_or_default();
    let objs = uris.iter().skip(n_deleted).take(8).map(|(u, c)| {
        (u.as_slice().to_vec(), rpki::rrdp::Hash::from_data(c).as_slice().to_vec())
    }).collect();
    ArchiveInfo { objs, data, blocks, slots, probe }
}

fn put(d: &mut [u8], pos: usize, v: u64) {
    if pos + 8 <= d.len() { d[pos..pos + 8].copy_from_slice(&v.to_ne_bytes()) }
}

fn archive_cases(rng: &mut Rng, dir: &Path, n_random: usize, res: &mut Vec<Value>) {
    let push = |res: &mut Vec<Value>, info: &ArchiveInfo, d: &[u8], how: &str| {
        // structural damage is also followed by a scripted sequence of writes
        let writes = matches!(how, "valid" | "block-size" | "empty-size" | "next-pointer" | "two-cycle"
            | "empty-chain-cycle" | "is-empty" | "name-len" | "data-len" | "index-slot" | "random");
        let mut case = json!({"t": "archive", "data": to_sparse(d), "probe": hex(&info.probe), "how": how});
        if writes {
            case["objs"] = json!(info.objs.iter().map(|(u, h)| json!([hex(u), hex(h)])).collect::<Vec<_>>());
        }
        res.push(case);
    };
    for (n_obj, n_del) in [(5usize, 2usize), (0, 0), (40, 0)] {
        let info = build_archive(rng, dir, n_obj, n_del);
        let base = &info.data;
        let len = base.len() as u64;
        push(res, &info, base, "valid");
        // truncations: every point in the file header, sampled elsewhere, block boundaries
        let mut cuts: Vec<usize> = (0..=40).collect();
        cuts.extend((0..30).map(|_| rng.below(base.len() as u64) as usize));
        for b in &info.blocks { for d in [0usize, 1, 8, 16, 17, 25, 32, 33, 34, 100] { cuts.push(b + d) } }
        cuts.extend([A_OBJECTS - 8, A_OBJECTS - 1, A_OBJECTS, base.len() - 1]);
        cuts.sort(); cuts.dedup();
        for cut in cuts { if cut <= base.len() { push(res, &info, &base[..cut], "truncate") } }
        // bucket count
        for v in [0u64, 1, 2, 1023, 1025, 2048, 1 << 20, 1 << 32, 1 << 60, (1 << 61) - 1, 1 << 61, 1 << 63, u64::MAX] {
            let mut d = base.clone();
            put(&mut d, 22, v);
            push(res, &info, &d, "bucket-count");
        }
        // index slots
        let first_block = info.blocks.first().copied().unwrap_or(A_OBJECTS) as u64;
        let mut slots = info.slots.clone();
        slots.push(A_INDEX + 8 * A_BUCKETS);       // the empty bucket
        slots.push(A_INDEX);                        // bucket 0
        for slot in slots.iter().copied().take(12) {
            for v in [1u64, 30, A_INDEX as u64, slot as u64, first_block, first_block + 1, len - 1, len, len + 1, u64::MAX, 1 << 63] {
                let mut d = base.clone();
                put(&mut d, slot, v);
                push(res, &info, &d, "index-slot");
            }
        }
        // every bucket pointing at the same block
        if let Some(&b) = info.blocks.first() {
            let mut d = base.clone();
            for i in 0..A_BUCKETS { put(&mut d, A_INDEX + 8 * i, b as u64) }
            push(res, &info, &d, "all-buckets-one-block");
        }
        // block headers
        for (bi, &b) in info.blocks.iter().enumerate().take(8) {
            let other = info.blocks[(bi + 1) % info.blocks.len()] as u64;
            // next pointer: self cycle, two-cycle, out of file
            for v in [b as u64, other, len, len - 1, u64::MAX, 1, A_INDEX as u64] {
                let mut d = base.clone();
                put(&mut d, b + 8, v);
                push(res, &info, &d, "next-pointer");
            }
            // two-cycle proper: b -> other -> b
            let mut d = base.clone();
            put(&mut d, b + 8, other);
            put(&mut d, other as usize + 8, b as u64);
            push(res, &info, &d, "two-cycle");
            // the same blocks linked into the empty chain as a cycle
            let mut d = base.clone();
            put(&mut d, A_INDEX + 8 * A_BUCKETS, b as u64);
            put(&mut d, b + 8, b as u64);
            push(res, &info, &d, "empty-chain-cycle");
            for v in [0u64, 1, 32, 33, 255, 257, len, 1 << 40, 1 << 63, u64::MAX] {
                let mut d = base.clone();
                put(&mut d, b, v);
                push(res, &info, &d, "block-size");
            }
            for v in [0u8, 1, 2, 0xff] {
                let mut d = base.clone();
                d[b + 16] = v;
                push(res, &info, &d, "is-empty");
            }
            for field in [b + 17, b + 25] {
                for v in [0u64, 1, 255, 4096, len, len + 1, 1 << 31, 1 << 32, 1 << 47, 1 << 62, (1 << 63) - 1, 1 << 63, u64::MAX - 32, u64::MAX] {
                    let mut d = base.clone();
                    put(&mut d, field, v);
                    push(res, &info, &d, if field == b + 17 { "name-len" } else { "data-len" });
                }
            }
        }
        // empty blocks: sizes a few bytes off (not a multiple of the page size any more)
        for &b in &info.blocks {
            if base[b + 16] != 1 { continue }
            let size = u64::from_ne_bytes(base[b..b + 8].try_into().unwrap());
            for delta in [1i64, 5, 31, 32, 33, 34, 255, 256, -1, -33, -223, -224, -256] {
                let mut d = base.clone();
                put(&mut d, b, (size as i64 + delta).max(0) as u64);
                push(res, &info, &d, "empty-size");
            }
        }
        // the state object's content (the codec inside the archive)
        for &b in &info.blocks {
            let name_len = u64::from_ne_bytes(base[b + 17..b + 25].try_into().unwrap()) as usize;
            if base.get(b + OBJ_HEADER..b + OBJ_HEADER + name_len) == Some(b"state") {
                let content = b + OBJ_HEADER + name_len + 32;
                let data_len = u64::from_ne_bytes(base[b + 25..b + 33].try_into().unwrap()) as usize;
                for off in 0..data_len.min(48) {
                    for v in [0u8, 0xff] {
                        if base[content + off] == v { continue }
                        let mut d = base.clone();
                        d[content + off] = v;
                        push(res, &info, &d, "state-content");
                    }
                }
                // crafted map counts / lengths at the end of the state
                for back in [8usize, 16, 40, 48] {
                    if data_len < back { continue }
                    for v in LEN64_VALUES.iter().chain(LEN_VALUES.iter()) {
                        let mut d = base.clone();
                        d[content + data_len - back..content + data_len - back + 8].copy_from_slice(&v.to_be_bytes());
                        push(res, &info, &d, "state-length-field");
                    }
                }
            }
        }
        // random
        for _ in 0..n_random {
            let mut d = base.clone();
            for _ in 0..rng.range(1, 4) {
                let region = rng.below(4);
                let p = match region {
                    0 => rng.below(A_INDEX as u64) as usize,
                    1 => info.slots.get(rng.below(info.slots.len().max(1) as u64) as usize).copied().unwrap_or(A_INDEX) + rng.below(8) as usize,
                    2 => info.blocks.get(rng.below(info.blocks.len().max(1) as u64) as usize).copied().unwrap_or(A_OBJECTS) + rng.below(OBJ_HEADER as u64) as usize,
                    _ => rng.below(d.len() as u64) as usize,
                };
                if p < d.len() {
                    if rng.chance(1, 2) { d[p] ^= 1 << rng.below(8) } else { d[p] = rng.next() as u8 }
                }
            }
            push(res, &info, &d, "random");
        }
    }
    // not an archive at all
    for n in [0usize, 1, 5, 6, 7, 29, 30, 31, 100, 9000] {
        let d: Vec<u8> = (0..n).map(|_| rng.next() as u8).collect();
        res.push(json!({"t": "archive", "data": hex(&d), "probe": ".", "how": "garbage"}));
        let mut d2 = d.clone();
        for (i, b) in b"RTNR\x01C".iter().enumerate() { if i < d2.len() { d2[i] = *b } }
        res.push(json!({"t": "archive", "data": hex(&d2), "probe": ".", "how": "garbage-with-magic"}));
    }
}

//------------ The component --------------------------------------------------

fn data_len(case: &Value) -> usize {
    match &case["data"] {
        Value::String(s) => if s == "." { 0 } else { s.len() / 2 },
        v => v["len"].as_u64().unwrap_or(0) as usize,
    }
}

fn case_label(case: &Value) -> String {
    let t = case["t"].as_str().unwrap_or("?");
    match t {
        "rec" => format!("rec-{}", case["kind"].as_str().unwrap_or("?")),
        _ => t.to_string()
    }
}

pub fn run_c27(ctx: &mut Ctx) {
    ctx.rule = "valid encodings of the five record types, of stored-point files, of status.bin and of RRDP archives \
        (built with the real writers), then: every truncation point (sampled for long encodings), boundary values \
        (0 … 2^32-1 … 2^63 … 2^64-1) in every length/count field with and without data behind it, other values in \
        every leading byte, crafted archive structures (bucket count, index slots, next pointers forming cycles, \
        block sizes, name/data lengths, empty-chain cycles), random flips, arbitrary bytes; each through the real \
        readers (record read/parse, StoredPoint::open + iteration, load_quietly, Store::status, RrdpArchive::verify \
        / open+load_state / objects() / load_object) in a child process with RLIMIT_AS, a per-case alarm and a \
        counting allocator. non-trivial = (reader, mutation kind, outcome class)".into();
    let out_dir: PathBuf = ctx.out.clone();
    let cases: Vec<Value> = match ctx.replay_inputs() {
        Some(inputs) => inputs,
        None => {
            let mut res = ctx.corpus("C27");
            let mut rng = ctx.rng.fork();
            let n_random = ctx.budget(400, 40_000);
            record_cases(&mut rng, n_random, &mut res);
            file_cases(&mut rng, ctx.budget(300, 20_000), &mut res);
            let dir = tempfile::tempdir().expect("tempdir");
            archive_cases(&mut rng, dir.path(), ctx.budget(150, 8_000), &mut res);
            res
        }
    };
    let results = run_in_child(&out_dir, &cases);
    for (case, result) in cases.iter().zip(results.iter()) {
        let label = case_label(case);
        let how = case["how"].as_str().unwrap_or("corpus");
        let len = data_len(case);
        if let Some(why) = result["skip"].as_str() {
            ctx.count(if why == "capped" { "skipped:reader-killed-too-many-children" } else { "skipped:unparsable-input" });
            continue
        }
        // 1. the child died
        if let Some(died) = result["died"].as_str() {
            let note = result["note"].as_str().unwrap_or("");
            let class = if died == "abort" && !note.is_empty() {
                format!("abort-alloc-{}-{}", if note.ends_with('z') { "zeroed" } else { "plain" }, label)
            } else { format!("{died}-{label}") };
            ctx.case_oracle_only(case, &format!("died {died} {note}"));
            ctx.count(&format!("class:{label}:died"));
            ctx.oracle_fail(&class, &format!("the process died ({died}) reading {len} bytes; refused allocation: {note:?}"),
                            case, result.clone());
            continue
        }
        let max_alloc = result["max_alloc"].as_u64().unwrap_or(0) as usize;
        let zeroed = result["zeroed"].as_bool().unwrap_or(false);
        let panic = result["panic"].as_str();
        let t = case["t"].as_str().unwrap_or("");
        // 2. the model comparison (where there is a model) / bookkeeping
        let hexdata = || from_sparse(&case["data"]).map(|d| hex(&d)).unwrap_or_else(|| ".".into());
        if let Some(p) = panic {
            ctx.case_oracle_only(case, &format!("panic {p}"));
        }
        else {
            match t {
                "rec" => {
                    let kind = case["kind"].as_str().unwrap_or("");
                    let shown = result["shown"].as_str().unwrap_or("?");
                    ctx.case(case, &format!("c27 {}|{}|{}", kind, max_alloc, hexdata()), &format!("{shown} within=1"));
                    ctx.nontrivial(format!("{label}:{how}:{}", result["class"].as_str().unwrap_or("?")));
                    ctx.count(&format!("class:{label}:{}", result["class"].as_str().unwrap_or("?")));
                }
                "open" | "quiet" | "status" => {
                    let shown = result["shown"].as_str().unwrap_or("?");
                    // The model predicts the outcome class, the decoded header/manifest and how
                    // the iteration over the objects ends.
                    let modelled = shown.to_string();
                    let op = match t { "open" => "c27open", "quiet" => "c27quiet", _ => "c27status" };
                    ctx.case(case, &format!("{op} {}|{}|{}", max_alloc, FAKE_NOW, hexdata()), &modelled);
                    let class = shown.split(' ').next().unwrap_or("?").to_string();
                    ctx.nontrivial(format!("{label}:{how}:{class}"));
                    ctx.count(&format!("class:{label}:{class}"));
                }
                _ => {
                    // archive: the model predicts the outcome of every call
                    let call = |name: &str| result["calls"][name].as_str().map(|s| s.to_string());
                    let mut imp = format!(
                        "verify=[{}] state=[{}] objects=[{}]",
                        call("verify").unwrap_or_default(), call("state").unwrap_or_default(),
                        call("objects").unwrap_or_default()
                    );
                    if let Some(l) = call("load") { imp.push_str(&format!(" load=[{l}]")) }
                    let probe = case["probe"].as_str().unwrap_or(".");
                    ctx.case(case, &format!("c27archive {}|{}", probe, sparse_text(&case["data"])), &imp);
                    let sig: Vec<String> = result["calls"].as_object().map(|m| m.iter().map(|(k, v)| {
                        format!("{k}={}", v.as_str().unwrap_or("?").split(' ').next().unwrap_or("?"))
                    }).collect()).unwrap_or_default();
                    ctx.nontrivial(format!("{label}:{how}:{}", sig.join(",")));
                    for s in sig { ctx.count(&format!("class:archive:{s}")) }
                }
            }
        }
        // 3. the oracle
        if let Some(p) = panic {
            // a panic of the write script is a class of its own
            let label = if p.starts_with("write:") { format!("{label}-write") } else { label.clone() };
            let kind_of_panic =
                if p.contains("capacity overflow") { "capacity-overflow" }
                else if p.contains("divide by zero") || p.contains("remainder with a divisor of zero") { "division-by-zero" }
                else if p.contains("overflow") { "arithmetic-overflow" }
                else if p.contains("out of range") || p.contains("out of bounds") { "index" }
                else if p.contains("assertion failed") { "assertion" }
                else { "other" };
            ctx.oracle_fail(&format!("panic-{kind_of_panic}-{label}"), &format!("panic while reading {len} bytes: {p}"),
                            case, result.clone());
        }
        else if max_alloc > 2 * len + MIB {
            ctx.oracle_fail(
                &format!("alloc-{}-{label}", if zeroed { "zeroed" } else { "plain" }),
                &format!("a single allocation of {max_alloc} bytes while reading {len} bytes"),
                case, result.clone());
        }
        if result["ms"].as_u64().unwrap_or(0) > 4000 { ctx.count("observed:slow-case") }
    }
    ctx.extra("child_as_limit", json!(CHILD_AS_LIMIT));
}
