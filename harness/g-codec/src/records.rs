//! The five persisted record types, driven through routinator's real
//! `write`/`read` (`compose`/`parse`) functions.

use std::collections::HashMap;
use bytes::Bytes;
use routinator::collector::verif_codec::RepositoryState;
use routinator::store::{StoredManifest, StoredObject, StoredPointHeader, StoredStatus};
use routinator::utils::binio::ParseError;
use rpki::crypto::DigestAlgorithm;
use rpki::repository::manifest::ManifestHash;
use rpki::repository::x509::{Serial, Time};
use rpki::{rrdp, uri};
use uuid::Uuid;
use crate::text::*;

pub const KINDS: [&str; 5] = ["header", "manifest", "object", "status", "state"];

/// A real value of one of the record types.
pub enum Rec {
    Header(StoredPointHeader),
    Manifest(StoredManifest),
    Object(StoredObject),
    Status(StoredStatus),
    State(RepositoryState),
}

/// How a decode attempt ended, in the model's vocabulary.
#[derive(Clone, Debug, Eq, PartialEq)]
pub enum Outcome {
    Ok(Fields, Vec<u8>),
    /// `StoredObject::read` returned `Ok(None)`.
    NoneAtEof,
    Eof,
    Format,
    /// An I/O error other than EOF (cannot happen on a slice).
    Fatal(String),
}

impl Outcome {
    pub fn show(&self, kind: &str) -> String {
        match self {
            Outcome::Ok(f, rest) if kind == "object" => format!("ok some {} rest={}", f.show(), hex(rest)),
            Outcome::Ok(f, rest) => format!("ok {} rest={}", f.show(), hex(rest)),
            Outcome::NoneAtEof => "ok none".into(),
            Outcome::Eof => "err eof".into(),
            Outcome::Format => "err format".into(),
            Outcome::Fatal(s) => format!("err fatal {s}"),
        }
    }

    pub fn class(&self) -> &'static str {
        match self {
            Outcome::Ok(..) => "ok",
            Outcome::NoneAtEof => "none",
            Outcome::Eof => "eof",
            Outcome::Format => "format",
            Outcome::Fatal(_) => "fatal",
        }
    }
}

fn perr(err: ParseError) -> Outcome {
    if err.is_eof() { Outcome::Eof }
    else if err.is_fatal() { Outcome::Fatal(err.to_string()) }
    else { Outcome::Format }
}

fn ioerr(err: std::io::Error) -> Outcome {
    // `RepositoryState::parse` returns a plain io::Error (ParseError converted).
    perr(ParseError::from(err)).io_fix()
}

impl Outcome {
    /// An `io::Error` of kind `Other` is a format error that went through
    /// `From<ParseError> for io::Error`.
    fn io_fix(self) -> Self {
        match self {
            Outcome::Fatal(_) => Outcome::Format,
            other => other
        }
    }
}

fn serial(b: &[u8]) -> Option<Serial> {
    let arr: [u8; 20] = b.try_into().ok()?;
    Serial::from_array(arr).ok()
}

fn mft_hash(b: Option<Vec<u8>>) -> Option<ManifestHash> {
    b.map(|b| ManifestHash::new(Bytes::from(b), DigestAlgorithm::sha256()))
}

impl Rec {
    /// Builds the real value from its text form; `None` if the text does not
    /// denote a value of the Rust type (invalid URI, wrong array size, …).
    pub fn build(kind: &str, f: &Fields) -> Option<Rec> {
        Some(match kind {
            "header" => {
                let (success, time) = parse_status(f.get("update_status")?)?;
                Rec::Header(StoredPointHeader::verif_from_parts(
                    uri::Rsync::from_bytes(to_bytes(f.bytes("manifest_uri")?)).ok()?,
                    match f.opt_bytes("rpki_notify")? {
                        None => None,
                        Some(b) => Some(uri::Https::from_bytes(to_bytes(b)).ok()?),
                    },
                    success, time,
                ))
            }
            "manifest" => Rec::Manifest(StoredManifest {
                not_after: f.time("not_after")?,
                manifest_number: serial(&f.bytes("manifest_number")?)?,
                this_update: f.time("this_update")?,
                ca_repository: uri::Rsync::from_bytes(to_bytes(f.bytes("ca_repository")?)).ok()?,
                manifest: to_bytes(f.bytes("manifest")?),
                crl_uri: uri::Rsync::from_bytes(to_bytes(f.bytes("crl_uri")?)).ok()?,
                crl: to_bytes(f.bytes("crl")?),
            }),
            "object" => Rec::Object(StoredObject::new(
                uri::Rsync::from_bytes(to_bytes(f.bytes("uri")?)).ok()?,
                to_bytes(f.bytes("content")?),
                mft_hash(f.opt_bytes("hash")?),
            )),
            "status" => Rec::Status(StoredStatus::new(f.time("last_update")?)),
            "state" => {
                let mut delta_state = HashMap::new();
                for (k, h) in f.map("delta_state")? {
                    let arr: [u8; 32] = h.as_slice().try_into().ok()?;
                    if delta_state.insert(k, rrdp::Hash::from(arr)).is_some() { return None }
                }
                Rec::State(RepositoryState {
                    rpki_notify: uri::Https::from_bytes(to_bytes(f.bytes("rpki_notify")?)).ok()?,
                    session: Uuid::from_bytes(f.bytes("session")?.as_slice().try_into().ok()?),
                    serial: f.u64("serial")?,
                    updated_ts: f.i64("updated_ts")?,
                    best_before_ts: f.i64("best_before_ts")?,
                    last_modified_ts: f.opt_i64("last_modified_ts")?,
                    etag: f.opt_bytes("etag")?.map(Bytes::from),
                    delta_state,
                })
            }
            _ => return None
        })
    }

    /// The text form of the value. For the map of a `RepositoryState` the
    /// order is the HashMap's iteration order — the order `compose` emits.
    pub fn fields(&self) -> Fields {
        let mut f = Fields::default();
        match self {
            Rec::Header(h) => {
                let (m, n, success, time) = h.verif_parts();
                f.set("manifest_uri", hex(m.as_slice()));
                f.set("rpki_notify", show_opt_bytes(n.map(|n| n.as_slice())));
                f.set("update_status", show_status(success, time));
            }
            Rec::Manifest(m) => {
                f.set("not_after", show_time(m.not_after));
                f.set("manifest_number", hex(&m.manifest_number.into_array()));
                f.set("this_update", show_time(m.this_update));
                f.set("ca_repository", hex(m.ca_repository.as_slice()));
                f.set("manifest", hex(&m.manifest));
                f.set("crl_uri", hex(m.crl_uri.as_slice()));
                f.set("crl", hex(&m.crl));
            }
            Rec::Object(o) => {
                f.set("uri", hex(o.uri.as_slice()));
                f.set("hash", show_opt_bytes(o.hash.as_ref().map(|h| h.as_slice())));
                f.set("content", hex(&o.content));
            }
            Rec::Status(s) => f.set("last_update", show_time(s.last_update)),
            Rec::State(s) => {
                f.set("rpki_notify", hex(s.rpki_notify.as_slice()));
                f.set("session", hex(s.session.as_bytes()));
                f.set("serial", s.serial.to_string());
                f.set("updated_ts", s.updated_ts.to_string());
                f.set("best_before_ts", s.best_before_ts.to_string());
                f.set("last_modified_ts", show_opt_i64(s.last_modified_ts));
                f.set("etag", show_opt_bytes(s.etag.as_deref()));
                let items: Vec<String> = s.delta_state.iter().map(|(k, h)| {
                    format!("{}:{}", k, hex(h.as_slice()))
                }).collect();
                f.set("delta_state", if items.is_empty() { ".".into() } else { items.join(",") });
            }
        }
        f
    }

    /// The same with the map sorted by key (for comparing decoded values).
    pub fn canonical(&self) -> Fields {
        let mut f = self.fields();
        if let Rec::State(s) = self {
            let mut items: Vec<_> = s.delta_state.iter().collect();
            items.sort_by_key(|(k, _)| **k);
            let items: Vec<String> = items.iter().map(|(k, h)| format!("{}:{}", k, hex(h.as_slice()))).collect();
            f.set("delta_state", if items.is_empty() { ".".into() } else { items.join(",") });
        }
        f
    }

    /// Runs the real `write`/`compose`.
    pub fn encode(&self) -> Result<Vec<u8>, String> {
        let mut buf = Vec::new();
        match self {
            Rec::Header(v) => v.write(&mut buf),
            Rec::Manifest(v) => v.write(&mut buf),
            Rec::Object(v) => v.write(&mut buf),
            Rec::Status(v) => v.write(&mut buf),
            Rec::State(v) => v.verif_compose(&mut buf),
        }.map_err(|e| e.to_string())?;
        Ok(buf)
    }

    /// Value equality as the Rust types define it (`PartialEq`); `StoredStatus`
    /// has none, its only field is compared.
    pub fn same(&self, other: &Rec) -> bool {
        match (self, other) {
            (Rec::Header(a), Rec::Header(b)) => a == b,
            (Rec::Manifest(a), Rec::Manifest(b)) => a == b,
            (Rec::Object(a), Rec::Object(b)) => a == b,
            (Rec::Status(a), Rec::Status(b)) => a.last_update == b.last_update,
            (Rec::State(a), Rec::State(b)) => a == b,
            _ => false
        }
    }

    /// The value with every time truncated to whole seconds (the formats'
    /// resolution); also says whether anything was truncated.
    pub fn truncated(&self) -> (Rec, bool) {
        fn tr(t: Time, changed: &mut bool) -> Time {
            if t.timestamp_subsec_nanos() != 0 { *changed = true }
            parse_time(&format!("{}.0", t.timestamp())).expect("whole-second time")
        }
        let mut changed = false;
        let res = match self {
            Rec::Header(h) => {
                let (m, n, success, time) = h.verif_parts();
                Rec::Header(StoredPointHeader::verif_from_parts(
                    m.clone(), n.cloned(), success, tr(time, &mut changed)
                ))
            }
            Rec::Manifest(m) => {
                let mut m = m.clone();
                m.not_after = tr(m.not_after, &mut changed);
                m.this_update = tr(m.this_update, &mut changed);
                Rec::Manifest(m)
            }
            Rec::Object(o) => Rec::Object(o.clone()),
            Rec::Status(s) => Rec::Status(StoredStatus::new(tr(s.last_update, &mut changed))),
            Rec::State(s) => Rec::State(s.clone()),
        };
        (res, changed)
    }
}

/// Runs the real `read`/`parse` on a byte slice.
pub fn decode(kind: &str, data: &[u8]) -> (Option<Rec>, Outcome) {
    let (rec, outcome, _) = decode_measured(kind, data);
    (rec, outcome)
}

/// A reader that hands out at most `chunk` bytes per `read` call (as `BufReader`, pipes and
/// sockets may): `Read::read` is allowed to return short counts.
pub struct ShortReader<'a> { pub data: &'a [u8], pub pos: usize, pub chunk: usize }

impl std::io::Read for ShortReader<'_> {
    fn read(&mut self, buf: &mut [u8]) -> std::io::Result<usize> {
        let n = buf.len().min(self.chunk).min(self.data.len() - self.pos);
        buf[..n].copy_from_slice(&self.data[self.pos..self.pos + n]);
        self.pos += n;
        Ok(n)
    }
}

/// Runs the real `read`/`parse` through a short-reading reader.
pub fn decode_short(kind: &str, data: &[u8], chunk: usize) -> (Option<Rec>, Outcome) {
    let mut r = ShortReader { data, pos: 0, chunk };
    let res: Result<Option<Rec>, Outcome> = match kind {
        "header" => StoredPointHeader::read(&mut r).map(|v| Some(Rec::Header(v))).map_err(perr),
        "manifest" => StoredManifest::read(&mut r).map(|v| Some(Rec::Manifest(v))).map_err(perr),
        "object" => StoredObject::read(&mut r).map(|v| v.map(Rec::Object)).map_err(perr),
        "status" => StoredStatus::read(&mut r).map(|v| Some(Rec::Status(v))).map_err(perr),
        "state" => RepositoryState::verif_parse(&mut r).map(|v| Some(Rec::State(v))).map_err(ioerr),
        _ => panic!("unknown record kind {kind}")
    };
    let rest = data[r.pos..].to_vec();
    match res {
        Ok(Some(rec)) => { let f = rec.canonical(); (Some(rec), Outcome::Ok(f, rest)) }
        Ok(None) => (None, Outcome::NoneAtEof),
        Err(o) => (None, o)
    }
}

/// The same; also returns the largest single allocation request made by the
/// real reader (and whether it was a zero-initialised one). Only the call of
/// the reader is measured, not the harness's own bookkeeping.
pub fn decode_measured(kind: &str, data: &[u8]) -> (Option<Rec>, Outcome, (usize, bool)) {
    let mut slice = data;
    crate::alloc::reset();
    let res: Result<Option<Rec>, Outcome> = match kind {
        "header" => StoredPointHeader::read(&mut slice).map(|v| Some(Rec::Header(v))).map_err(perr),
        "manifest" => StoredManifest::read(&mut slice).map(|v| Some(Rec::Manifest(v))).map_err(perr),
        "object" => StoredObject::read(&mut slice).map(|v| v.map(Rec::Object)).map_err(perr),
        "status" => StoredStatus::read(&mut slice).map(|v| Some(Rec::Status(v))).map_err(perr),
        "state" => RepositoryState::verif_parse(&mut slice).map(|v| Some(Rec::State(v))).map_err(ioerr),
        _ => panic!("unknown record kind {kind}")
    };
    let measured = crate::alloc::stop();
    let (rec, outcome) = match res {
        Ok(Some(rec)) => {
            // The decoded map is reported in the order of the encoding, which
            // the harness cannot see; report it sorted (the model's decoder
            // output is sorted by the driver as well).
            let f = rec.canonical();
            (Some(rec), Outcome::Ok(f, slice.to_vec()))
        }
        Ok(None) => (None, Outcome::NoneAtEof),
        Err(o) => (None, o)
    };
    (rec, outcome, measured)
}
