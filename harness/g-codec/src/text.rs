//! The canonical text form of field values shared with the Lean driver
//! (`Drv/Codec.lean`): integers decimal; byte strings hex (`.` = empty);
//! `~` = None; times `secs.nanos`; maps `key:hex,…` (`.` = empty); update
//! status `S<time>` / `A<time>`. Records are `name=value;…` sorted by name.

use std::collections::BTreeMap;
use bytes::Bytes;
use chrono::{TimeZone, Utc};
use rpki::repository::x509::Time;

pub fn hex(data: &[u8]) -> String {
    if data.is_empty() { return ".".into() }
    let mut res = String::with_capacity(data.len() * 2);
    for b in data {
        res.push(char::from_digit((b >> 4) as u32, 16).unwrap());
        res.push(char::from_digit((b & 15) as u32, 16).unwrap());
    }
    res
}

pub fn unhex(s: &str) -> Option<Vec<u8>> {
    if s == "." { return Some(Vec::new()) }
    if s.is_empty() || s.len() % 2 != 0 { return None }
    let b = s.as_bytes();
    let mut res = Vec::with_capacity(b.len() / 2);
    for i in (0..b.len()).step_by(2) {
        let hi = (b[i] as char).to_digit(16)?;
        let lo = (b[i + 1] as char).to_digit(16)?;
        if (b[i] as char).is_ascii_uppercase() || (b[i + 1] as char).is_ascii_uppercase() {
            return None
        }
        res.push((hi * 16 + lo) as u8);
    }
    Some(res)
}

/// A record in text form: field name → value text.
#[derive(Clone, Debug, Default, Eq, PartialEq)]
pub struct Fields(pub BTreeMap<String, String>);

impl Fields {
    pub fn parse(s: &str) -> Option<Self> {
        let mut res = BTreeMap::new();
        if s.is_empty() { return Some(Fields(res)) }
        for item in s.split(';') {
            let (name, value) = item.split_once('=')?;
            res.insert(name.to_string(), value.to_string());
        }
        Some(Fields(res))
    }

    pub fn set(&mut self, name: &str, value: String) {
        self.0.insert(name.into(), value);
    }

    pub fn get(&self, name: &str) -> Option<&str> {
        self.0.get(name).map(|s| s.as_str())
    }

    pub fn show(&self) -> String {
        self.0.iter().map(|(k, v)| format!("{k}={v}")).collect::<Vec<_>>().join(";")
    }

    pub fn bytes(&self, name: &str) -> Option<Vec<u8>> { unhex(self.get(name)?) }

    pub fn opt_bytes(&self, name: &str) -> Option<Option<Vec<u8>>> {
        let s = self.get(name)?;
        if s == "~" { Some(None) } else { unhex(s).map(Some) }
    }

    pub fn u64(&self, name: &str) -> Option<u64> { self.get(name)?.parse().ok() }
    pub fn i64(&self, name: &str) -> Option<i64> { self.get(name)?.parse().ok() }

    pub fn opt_i64(&self, name: &str) -> Option<Option<i64>> {
        let s = self.get(name)?;
        if s == "~" { Some(None) } else { s.parse().ok().map(Some) }
    }

    pub fn time(&self, name: &str) -> Option<Time> { parse_time(self.get(name)?) }

    pub fn map(&self, name: &str) -> Option<Vec<(u64, Vec<u8>)>> {
        let s = self.get(name)?;
        if s == "." { return Some(Vec::new()) }
        s.split(',').map(|item| {
            let (k, h) = item.split_once(':')?;
            Some((k.parse().ok()?, unhex(h)?))
        }).collect()
    }
}

pub fn parse_time(s: &str) -> Option<Time> {
    let (secs, nanos) = s.split_once('.')?;
    let secs: i64 = secs.parse().ok()?;
    let nanos: u32 = nanos.parse().ok()?;
    Some(Time::new(Utc.timestamp_opt(secs, nanos).single()?))
}

pub fn show_time(t: Time) -> String {
    format!("{}.{}", t.timestamp(), t.timestamp_subsec_nanos())
}

pub fn show_opt_bytes(b: Option<&[u8]>) -> String {
    match b { None => "~".into(), Some(b) => hex(b) }
}

pub fn show_opt_i64(v: Option<i64>) -> String {
    match v { None => "~".into(), Some(v) => v.to_string() }
}

pub fn show_status(success: bool, t: Time) -> String {
    format!("{}{}", if success { "S" } else { "A" }, show_time(t))
}

pub fn parse_status(s: &str) -> Option<(bool, Time)> {
    let success = match s.chars().next()? { 'S' => true, 'A' => false, _ => return None };
    Some((success, parse_time(&s[1..])?))
}

pub fn to_bytes(v: Vec<u8>) -> Bytes { Bytes::from(v) }
