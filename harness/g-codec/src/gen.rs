//! Generators of well-formed record values in text form (boundary-heavy).

use rvcore::Rng;
use crate::text::*;

pub const TS_MIN: i64 = -8_334_601_228_800;   // -262143-01-01T00:00:00Z
pub const TS_MAX: i64 = 8_210_266_876_799;    // +262142-12-31T23:59:59Z

const URI_CHARS: &[u8] = b"abcdefghijklmnopqrstuvwxyzABCDEFGHIJKLMNOPQRSTUVWXYZ0123456789-._~!$&'()*+,;=:%";

fn seg(rng: &mut Rng, max: u64) -> Vec<u8> {
    loop {
        let n = rng.range(1, max);
        let s: Vec<u8> = (0..n).map(|_| *rng.pick(URI_CHARS)).collect();
        if s != b"." && s != b".." { return s }
    }
}

fn scheme(rng: &mut Rng, s: &str) -> Vec<u8> {
    // The scheme is matched case-insensitively and stored as written.
    s.bytes().map(|b| if rng.chance(1, 8) { b.to_ascii_uppercase() } else { b }).collect()
}

pub fn rsync_uri(rng: &mut Rng) -> Vec<u8> {
    let mut u = scheme(rng, "rsync://");
    u.extend(seg(rng, 12));
    u.push(b'/');
    u.extend(seg(rng, 8));
    u.push(b'/');
    match rng.below(6) {
        0 => {}                                     // module directory itself
        1 => { u.extend(seg(rng, 200)); }            // one long segment
        _ => {
            for i in 0..rng.range(1, 4) {
                if i > 0 { u.push(b'/') }
                u.extend(seg(rng, 16));
            }
            if rng.chance(1, 4) { u.push(b'/') }    // trailing empty segment is allowed
        }
    }
    u
}

pub fn https_uri(rng: &mut Rng) -> Vec<u8> {
    let mut u = scheme(rng, "https://");
    match rng.below(8) {
        0 => {}                                     // "https://" alone is accepted
        1 => { u.extend(seg(rng, 300)); }
        _ => {
            u.extend(seg(rng, 20));
            for _ in 0..rng.below(4) {
                u.push(b'/');
                // empty and dot segments are fine in https URIs
                if rng.chance(1, 6) { if rng.chance(1, 2) { u.extend(b"..") } } else { u.extend(seg(rng, 12)) }
            }
        }
    }
    u
}

pub fn blob(rng: &mut Rng, quick: bool) -> Vec<u8> {
    // the thorough tier adds 64 KiB bodies, rarely (the request lines are hex)
    let big = !quick && rng.chance(1, 30);
    let n = match rng.below(12) {
        0 => 0, 1 => 1, 2 => 255, 3 => 256, 4 => 257,
        5 => if big { 65535 } else { 4095 },
        6 => if big { 65536 } else { 4096 },
        _ => rng.below(600),
    };
    let fill = rng.below(4);
    (0..n).map(|i| match fill { 0 => 0, 1 => 0xff, 2 => i as u8, _ => rng.next() as u8 }).collect()
}

pub fn time_text(rng: &mut Rng, whole: bool) -> String {
    let secs: i64 = match rng.below(14) {
        0 => TS_MIN, 1 => TS_MAX, 2 => 0, 3 => -1, 4 => 1,
        5 => 0x7fff_ffff, 6 => 0x8000_0000, 7 => 0xffff_ffff, 8 => 0x1_0000_0000,
        9 => -(rng.below(4_000_000_000) as i64),
        10 => TS_MIN + rng.below(1000) as i64, 11 => TS_MAX - rng.below(1000) as i64,
        _ => 1_000_000_000 + rng.below(1_000_000_000) as i64,
    };
    let nanos = if whole || rng.chance(3, 4) { 0 } else {
        *rng.pick(&[1u32, 500_000_000, 999_999_999])
    };
    format!("{secs}.{nanos}")
}

/// A wall-clock reading for the fake clock (the system clock cannot be before 1970).
pub fn now_text(rng: &mut Rng) -> String {
    let secs: i64 = match rng.below(8) {
        0 => 0, 1 => 1, 2 => 0x7fff_ffff, 3 => 0x8000_0000, 4 => 0xffff_ffff, 5 => 0x1_0000_0000,
        _ => 1_000_000_000 + rng.below(1_000_000_000) as i64,
    };
    let nanos = *rng.pick(&[0u32, 0, 1, 500_000_000, 999_999_999]);
    format!("{secs}.{nanos}")
}

pub fn i64_text(rng: &mut Rng) -> String {
    let v: i64 = match rng.below(12) {
        0 => 0, 1 => 1, 2 => -1, 3 => i64::MAX, 4 => i64::MIN, 5 => i64::MIN + 1,
        6 => 0x7fff_ffff, 7 => -0x8000_0000, 8 => 255, 9 => 256,
        _ => rng.next() as i64,
    };
    v.to_string()
}

pub fn u64_val(rng: &mut Rng) -> u64 {
    match rng.below(10) {
        0 => 0, 1 => 1, 2 => u64::MAX, 3 => u64::MAX - 1, 4 => 1 << 63, 5 => 0xffff_ffff,
        6 => 0x1_0000_0000, 7 => 255,
        _ => rng.next(),
    }
}

pub fn fixed(rng: &mut Rng, n: usize) -> Vec<u8> {
    match rng.below(5) {
        0 => vec![0; n],
        1 => vec![0xff; n],
        2 => (0..n).map(|i| i as u8).collect(),
        _ => (0..n).map(|_| rng.next() as u8).collect(),
    }
}

pub fn serial(rng: &mut Rng) -> Vec<u8> {
    let mut s = fixed(rng, 20);
    s[0] &= 0x7f;
    if rng.chance(1, 4) { for b in s.iter_mut().take(rng.below(20) as usize) { *b = 0 } }
    s
}

/// A record of the given kind; `i` cycles through the option patterns so
/// that every optional field is seen both absent and present.
pub fn record(rng: &mut Rng, kind: &str, i: usize, quick: bool) -> Fields {
    let mut f = Fields::default();
    match kind {
        "header" => {
            f.set("manifest_uri", hex(&rsync_uri(rng)));
            f.set("rpki_notify", if i % 2 == 0 { "~".into() } else { hex(&https_uri(rng)) });
            f.set("update_status", format!("{}{}", if (i / 2) % 2 == 0 { "S" } else { "A" }, time_text(rng, false)));
        }
        "manifest" => {
            f.set("not_after", time_text(rng, false));
            f.set("manifest_number", hex(&serial(rng)));
            f.set("this_update", time_text(rng, false));
            f.set("ca_repository", hex(&rsync_uri(rng)));
            f.set("manifest", hex(&blob(rng, quick)));
            f.set("crl_uri", hex(&rsync_uri(rng)));
            f.set("crl", hex(&blob(rng, quick)));
        }
        "object" => {
            f.set("uri", hex(&rsync_uri(rng)));
            f.set("hash", if i % 2 == 0 { "~".into() } else { hex(&fixed(rng, 32)) });
            f.set("content", hex(&blob(rng, quick)));
        }
        "status" => f.set("last_update", time_text(rng, false)),
        "state" => {
            f.set("rpki_notify", hex(&https_uri(rng)));
            f.set("session", hex(&fixed(rng, 16)));
            f.set("serial", u64_val(rng).to_string());
            f.set("updated_ts", i64_text(rng));
            f.set("best_before_ts", i64_text(rng));
            f.set("last_modified_ts", if i % 2 == 0 { "~".into() } else { i64_text(rng) });
            f.set("etag", if (i / 2) % 2 == 0 { "~".into() } else {
                let n = *rng.pick(&[0u64, 1, 2, 40, 300]);
                hex(&(0..n).map(|_| rng.next() as u8).collect::<Vec<_>>())
            });
            let n = match (i / 4) % 5 {
                0 => 0, 1 => 1, 2 => 2, 3 => rng.below(40),
                // beyond the 1024 pre-allocated entries only in the thorough tier, rarely
                _ => if !quick && rng.chance(1, 20) { 1500 } else { 120 }
            };
            let mut keys = std::collections::BTreeSet::new();
            while (keys.len() as u64) < n {
                keys.insert(if rng.chance(1, 3) { u64_val(rng) } else { rng.below(5000) });
            }
            let mut keys: Vec<u64> = keys.into_iter().collect();
            rng.shuffle(&mut keys);
            let items: Vec<String> = keys.iter().map(|k| format!("{}:{}", k, hex(&fixed(rng, 32)))).collect();
            f.set("delta_state", if items.is_empty() { ".".into() } else { items.join(",") });
        }
        _ => panic!("unknown kind {kind}")
    }
    f
}

/// A repository state whose `delta_state` has exactly `n` entries.
pub fn state_with_map(rng: &mut Rng, n: usize) -> Fields {
    let mut f = record(rng, "state", 3, true);
    let mut keys = std::collections::BTreeSet::new();
    while keys.len() < n {
        keys.insert(if rng.chance(1, 50) { u64_val(rng) } else { rng.below(4 * n as u64 + 16) });
    }
    let mut keys: Vec<u64> = keys.into_iter().collect();
    rng.shuffle(&mut keys);
    let items: Vec<String> = keys.iter().map(|k| {
        // cheap but distinct hashes
        let mut h = [0u8; 32];
        h[..8].copy_from_slice(&k.to_be_bytes());
        h[31] = rng.next() as u8;
        format!("{}:{}", k, hex(&h))
    }).collect();
    f.set("delta_state", if items.is_empty() { ".".into() } else { items.join(",") });
    f
}

/// Map sizes around every constant of the map codec (the pre-allocation cap 1024, the former
/// cap 65536) and a few thousand.
pub const MAP_SIZES: [usize; 12] = [1023, 1024, 1025, 1026, 2000, 2047, 2048, 2049, 5000, 65535, 65536, 65537];

pub fn trail(rng: &mut Rng) -> Vec<u8> {
    match rng.below(4) {
        0 => Vec::new(),
        1 => vec![rng.next() as u8],
        _ => (0..rng.below(24)).map(|_| rng.next() as u8).collect(),
    }
}
