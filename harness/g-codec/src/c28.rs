//! C28: every persisted record reads back as written.
//!
//! Slice level: a generated value of each record type goes through the real
//! `write`/`compose`, arbitrary bytes are appended, the real `read`/`parse`
//! runs on the result. The model (extracted layouts + hand-written
//! primitives) must produce the same encoding byte for byte and the same
//! decoding. File level: the real `StoredPoint` update / load path,
//! `Run::done` / `Store::status`, `RrdpArchive::publish_state` /
//! `update_state` / `load_state`.

use std::sync::Arc;
use routinator::collector::RrdpArchive;
use routinator::store::{Store, StoredManifest, StoredObject, StoredPoint};
use routinator::metrics::Metrics;
use routinator::Config;
use rpki::uri;
use serde_json::{json, Value};
use rvcore::Ctx;
use crate::records::{decode, Outcome, Rec, KINDS};
use crate::text::*;
use crate::gen;

fn field_kinds(f: &Fields) -> String {
    // signature of the option pattern: which optional fields are present
    f.0.iter().map(|(k, v)| format!("{}{}", &k[..1], if v == "~" { "-" } else if v == "." { "0" } else { "+" }))
        .collect::<Vec<_>>().join("")
}

fn slice_case(ctx: &mut Ctx, input: &Value) {
    let kind = input["rec"].as_str().unwrap_or("");
    let fields = input["fields"].as_str().unwrap_or("");
    let trail_hex = input["trail"].as_str().unwrap_or(".");
    let (Some(f), Some(trail)) = (Fields::parse(fields), unhex(trail_hex)) else {
        ctx.count("skipped:unparsable-input");
        return
    };
    if !KINDS.contains(&kind) { ctx.count("skipped:unknown-kind"); return }
    let Some(written) = Rec::build(kind, &f) else {
        ctx.count("skipped:not-a-value");
        return
    };
    // What goes to the model: the value as the real type holds it (the map
    // in the order `compose` will emit it).
    let shown = written.fields();
    let op = format!("c28 {}|{}|{}", kind, shown.show(), hex(&trail));
    let res = rvcore::catch(std::panic::AssertUnwindSafe(|| {
        let enc = written.encode()?;
        let mut data = enc.clone();
        data.extend_from_slice(&trail);
        let (rec, outcome) = decode(kind, &data);
        Ok::<_, String>((enc, rec, outcome))
    }));
    let (enc, rec, outcome) = match res {
        Ok(Ok(some)) => some,
        Ok(Err(err)) => {
            ctx.case(input, &op, "enc=none");
            ctx.oracle_fail(&format!("compose-error-{kind}"), &format!("compose failed: {err}"), input, json!(err));
            return
        }
        Err(panic) => {
            ctx.case(input, &op, "panic");
            ctx.oracle_fail(&format!("panic-{kind}"), &format!("panic: {panic}"), input, json!(panic));
            return
        }
    };
    // The model's duplicate-key check is quadratic: maps beyond a few thousand entries go
    // through the real code and the oracle only.
    let huge = shown.get("delta_state").map(|s| s.matches(',').count() > 6000).unwrap_or(false);
    if huge {
        ctx.case_oracle_only(input, &format!("enc={} bytes dec={}", enc.len(), outcome.class()));
        ctx.count("kind:state-huge-map");
    }
    else {
        let imp = format!("enc={} dec={}", hex(&enc), outcome.show(kind));
        ctx.case(input, &op, &imp);
    }
    ctx.count(&format!("kind:{kind}"));
    ctx.nontrivial(format!("{kind}:{}:{}", field_kinds(&shown), trail.len().min(2)));

    // Oracle: the decoded value equals the written one (at the formats'
    // one-second resolution) and exactly the written bytes were consumed.
    let (expected, truncated) = written.truncated();
    if truncated { ctx.count("observed:subsecond-part-dropped") }
    match (&rec, &outcome) {
        (Some(rec), Outcome::Ok(_, rest)) => {
            if !rec.same(&expected) {
                ctx.oracle_fail(
                    &format!("value-differs-{kind}"),
                    "decoded value is not equal to the written value",
                    input, json!({"written": expected.canonical().show(), "decoded": rec.canonical().show()})
                );
            }
            else if rec.canonical().show() != expected.canonical().show() {
                // Equal by PartialEq but not identical octets (host case): not
                // demanded by the property, only counted.
                ctx.count("observed:equal-but-not-identical");
            }
            if rest != &trail {
                ctx.oracle_fail(
                    &format!("consumed-differs-{kind}"),
                    "reading consumed more or fewer bytes than were written",
                    input, json!({"written_len": enc.len(), "left": hex(rest), "appended": hex(&trail)})
                );
            }
        }
        _ => {
            ctx.oracle_fail(
                &format!("unreadable-{kind}"),
                "a written record does not read back",
                input, json!({"outcome": outcome.show(kind), "enc": hex(&enc)})
            );
        }
    }
}

//------------ Big data blocks, short-reading readers -------------------------

/// A data block of `n` bytes without zero octets (a zero-filled gap cannot hide).
fn big_blob(n: usize, salt: u8) -> Vec<u8> {
    (0..n).map(|i| 1 + ((i * 31 + salt as usize) % 251) as u8).collect()
}

/// `{"big": "object"|"manifest", "size": n}`: a record with data blocks of `n` bytes, written
/// with the real writer; read back from a slice, through short-reading readers (1, 7, 4096
/// bytes per `read`) and — as part of a stored-point file — through the store's own
/// `BufReader<File>` (`open`/`update`/iterate, `load_quietly`/iterate).
fn big_case(ctx: &mut Ctx, input: &Value) {
    let kind = input["big"].as_str().unwrap_or("");
    let n = input["size"].as_u64().unwrap_or(0) as usize;
    if !(kind == "object" || kind == "manifest") || n > 4_000_000 { ctx.count("skipped:unparsable-input"); return }
    let uri = |s: &str| uri::Rsync::from_slice(s.as_bytes()).expect("uri");
    let manifest = StoredManifest {
        not_after: parse_time("1800000000.0").unwrap(),
        manifest_number: rpki::repository::x509::Serial::default(),
        this_update: parse_time("1700000000.0").unwrap(),
        ca_repository: uri("rsync://big.example/m/"),
        manifest: bytes::Bytes::from(if kind == "manifest" { big_blob(n, 3) } else { big_blob(300, 3) }),
        crl_uri: uri("rsync://big.example/m/big.crl"),
        crl: bytes::Bytes::from(if kind == "manifest" { big_blob(n + 1, 5) } else { big_blob(200, 5) }),
    };
    let objects = vec![
        StoredObject::new(uri("rsync://big.example/m/a.roa"), bytes::Bytes::from(big_blob(if kind == "object" { n } else { 50 }, 7)), None),
        StoredObject::new(uri("rsync://big.example/m/b.roa"), bytes::Bytes::from(big_blob(77, 9)), None),
    ];
    let written = if kind == "object" { Rec::Object(objects[0].clone()) } else { Rec::Manifest(manifest.clone()) };
    let mut problems: Vec<String> = Vec::new();
    let res = rvcore::catch(std::panic::AssertUnwindSafe(|| {
        let mut problems: Vec<String> = Vec::new();
        let enc = written.encode()?;
        let trail = [0xa5u8, 0x5a, 0x01];
        let mut data = enc.clone();
        data.extend_from_slice(&trail);
        let mut check = |how: String, got: (Option<Rec>, Outcome)| {
            match got {
                (Some(rec), Outcome::Ok(_, rest)) => {
                    if !rec.same(&written) { problems.push(format!("{how}: value differs")) }
                    if rest != trail { problems.push(format!("{how}: {} bytes left instead of {}", rest.len(), trail.len())) }
                }
                (_, o) => problems.push(format!("{how}: {}", o.class())),
            }
        };
        check("slice".into(), decode(kind, &data));
        for chunk in [1usize, 7, 4096] {
            check(format!("short-reads-{chunk}"), crate::records::decode_short(kind, &data, chunk));
        }
        // the real file path
        let dir = tempfile::tempdir().map_err(|e| e.to_string())?;
        let path = dir.path().join("point.bin");
        rvcore::clock::set(1_700_000_000, 0);
        let muri = uri("rsync://big.example/m/big.mft");
        let mut point = StoredPoint::verif_open(path.clone(), &muri, None).map_err(|_| "open failed".to_string())?;
        let mut iter = objects.iter();
        point.verif_update_in(dir.path(), manifest.clone(), || Ok(iter.next().cloned()))
            .map_err(|_| "update failed".to_string())?;
        let via_handle: Vec<_> = point.by_ref().collect();
        drop(point);
        let mut cmp = |how: &str, m: Option<&StoredManifest>, got: Vec<Result<StoredObject, routinator::utils::binio::ParseError>>| {
            if m != Some(&manifest) { problems.push(format!("{how}: manifest differs")) }
            if got.len() != objects.len() { problems.push(format!("{how}: {} objects instead of {}", got.len(), objects.len())) }
            for (a, b) in got.iter().zip(objects.iter()) {
                match a { Ok(a) if a == b => {}, Ok(_) => problems.push(format!("{how}: object differs")),
                          Err(e) => problems.push(format!("{how}: object unreadable: {e}")) }
            }
        };
        cmp("file-same-handle", Some(&manifest), via_handle);
        let mut opened = StoredPoint::verif_open(path.clone(), &muri, None).map_err(|_| "reopen failed".to_string())?;
        let m = opened.manifest().cloned();
        let got: Vec<_> = opened.by_ref().collect();
        cmp("file-open", m.as_ref(), got);
        let mut loaded = StoredPoint::load_quietly(path.clone()).ok_or_else(|| "load_quietly failed".to_string())?;
        let m = loaded.manifest().cloned();
        let got: Vec<_> = loaded.by_ref().collect();
        cmp("file-load-quietly", m.as_ref(), got);
        Ok::<_, String>(problems)
    }));
    match res {
        Ok(Ok(p)) => problems.extend(p),
        Ok(Err(e)) => problems.push(e),
        Err(panic) => problems.push(format!("panic: {panic}")),
    }
    ctx.case_oracle_only(input, &format!("{} problems", problems.len()));
    ctx.count("kind:big-block");
    ctx.nontrivial(format!("big:{kind}:{}", if n > 65536 { ">64K" } else { "<=64K" }));
    if !problems.is_empty() {
        ctx.oracle_fail(&format!("big-block-differs-{kind}"), &problems.join("; "), input, json!(problems));
    }
}

//------------ File level ----------------------------------------------------

fn objects_from(input: &Value) -> Option<Vec<Fields>> {
    input["objects"].as_array()?.iter().map(|o| Fields::parse(o.as_str()?)).collect()
}

/// `StoredPoint::open` (creates), `update`, drop; `load_quietly`, iterate.
fn point_file_case(ctx: &mut Ctx, input: &Value) {
    let (Some(hf), Some(mf), Some(ofs)) = (
        input["header"].as_str().and_then(Fields::parse),
        input["manifest"].as_str().and_then(Fields::parse),
        objects_from(input),
    ) else { ctx.count("skipped:unparsable-input"); return };
    let now = input["now"].as_str().unwrap_or("1700000000.0");
    let Some((now_s, now_n)) = now.split_once('.') else { ctx.count("skipped:unparsable-input"); return };
    let (now_s, now_n): (i64, i64) = (now_s.parse().unwrap_or(0), now_n.parse().unwrap_or(0));
    let (Some(Rec::Header(header)), Some(Rec::Manifest(manifest))) =
        (Rec::build("header", &hf), Rec::build("manifest", &mf))
    else { ctx.count("skipped:not-a-value"); return };
    let objects: Option<Vec<StoredObject>> = ofs.iter().map(|f| match Rec::build("object", f) {
        Some(Rec::Object(o)) => Some(o), _ => None
    }).collect();
    let Some(objects) = objects else { ctx.count("skipped:not-a-value"); return };
    let (manifest_uri, notify, _, _) = header.verif_parts();
    let (manifest_uri, notify): (uri::Rsync, Option<uri::Https>) = (manifest_uri.clone(), notify.cloned());

    let dir = tempfile::tempdir().expect("tempdir");
    let path = dir.path().join("point.bin");
    rvcore::clock::set(now_s, now_n);
    let res = rvcore::catch(std::panic::AssertUnwindSafe(|| {
        let mut point = StoredPoint::verif_open(path.clone(), &manifest_uri, notify.as_ref())
            .map_err(|_| "open failed".to_string())?;
        if !point.is_new() { return Err("fresh point is not new".to_string()) }
        let mut iter = objects.iter();
        point.verif_update_in(dir.path(), manifest.clone(), || Ok(iter.next().cloned()))
            .map_err(|_| "update failed".to_string())?;
        // The point is positioned at its first object now: read them through
        // the same handle, too.
        let via_handle: Vec<Result<StoredObject, String>> =
            point.by_ref().map(|r| r.map_err(|e| e.to_string())).collect();
        let mem_header = point.verif_header().clone();
        drop(point);
        let file = std::fs::read(&path).map_err(|e| e.to_string())?;
        let mut loaded = StoredPoint::load_quietly(path.clone())
            .ok_or_else(|| "load_quietly failed".to_string())?;
        let lh = loaded.verif_header().clone();
        let lm = loaded.manifest().cloned();
        let lo: Vec<Result<StoredObject, String>> =
            loaded.by_ref().map(|r| r.map_err(|e| e.to_string())).collect();
        Ok::<_, String>((file, mem_header, via_handle, lh, lm, lo))
    }));
    let (file, mem_header, via_handle, lh, lm, lo) = match res {
        Ok(Ok(some)) => some,
        Ok(Err(err)) => {
            ctx.case_oracle_only(input, &err);
            ctx.oracle_fail("pointfile-unreadable", &err, input, json!(err));
            return
        }
        Err(panic) => {
            ctx.case_oracle_only(input, "panic");
            ctx.oracle_fail("pointfile-panic", &panic, input, json!(panic));
            return
        }
    };
    // Model: decode the file the real code wrote.
    let show_obj = |o: &StoredObject| format!(" O[{}]", Rec::Object(o.clone()).canonical().show());
    let mut imp = format!(
        "ok H[{}] M[{}] n={}",
        Rec::Header(lh.clone()).canonical().show(),
        lm.as_ref().map(|m| Rec::Manifest(m.clone()).canonical().show()).unwrap_or_else(|| "~".into()),
        lo.len()
    );
    let mut all_ok = true;
    for o in &lo {
        match o { Ok(o) => imp.push_str(&show_obj(o)), Err(_) => { all_ok = false } }
    }
    if !all_ok { imp = "err".into() }
    ctx.case(input, &format!("c28file {}", hex(&file)), &imp);
    ctx.count("kind:pointfile");
    ctx.nontrivial(format!("pointfile:{}:{}", objects.len().min(3), notify.is_some()));

    // Oracle.
    let (expected_header, truncated) = Rec::Header(mem_header).truncated();
    if truncated { ctx.count("observed:subsecond-part-dropped") }
    let (expected_manifest, t2) = Rec::Manifest(manifest.clone()).truncated();
    if t2 { ctx.count("observed:subsecond-part-dropped") }
    let mut problems = Vec::new();
    if !Rec::Header(lh).same(&expected_header) { problems.push("header differs") }
    match lm {
        Some(m) => if !Rec::Manifest(m).same(&expected_manifest) { problems.push("manifest differs") },
        None => problems.push("manifest missing"),
    }
    for (name, got) in [("load_quietly", &lo), ("update handle", &via_handle)] {
        if got.len() != objects.len() {
            problems.push(if name == "load_quietly" { "object count differs (load_quietly)" } else { "object count differs (same handle)" });
            continue
        }
        for (a, b) in got.iter().zip(objects.iter()) {
            match a {
                Ok(a) if a == b => {}
                _ => { problems.push("object differs"); break }
            }
        }
    }
    if !problems.is_empty() {
        ctx.oracle_fail("pointfile-differs", &problems.join(", "), input, json!({"file": hex(&file), "impl": imp}));
    }
}

fn test_config(dir: &std::path::Path) -> Config {
    Config::default_with_paths(dir.join("routinator.conf"), dir.join("cache"))
}

/// `Run::done` writes `status.bin` with the current time, `Store::status` reads it.
fn status_file_case(ctx: &mut Ctx, input: &Value) {
    let now = input["now"].as_str().unwrap_or("1700000000.0");
    let Some(now_t) = parse_time(now) else { ctx.count("skipped:unparsable-input"); return };
    let dir = tempfile::tempdir().expect("tempdir");
    rvcore::clock::set(now_t.timestamp(), now_t.timestamp_subsec_nanos() as i64);
    let res = rvcore::catch(std::panic::AssertUnwindSafe(|| {
        let store = Store::new(&test_config(dir.path())).map_err(|_| "Store::new failed".to_string())?;
        let before = store.status().map_err(|_| "status failed before first run".to_string())?;
        if before.is_some() { return Err("status present before first run".to_string()) }
        let mut metrics = Metrics::new();
        store.start().done(&mut metrics);
        let status = store.status().map_err(|_| "status unreadable".to_string())?;
        let file = std::fs::read(dir.path().join("cache/stored/status.bin")).map_err(|e| e.to_string())?;
        Ok::<_, String>((status, file))
    }));
    match res {
        Ok(Ok((status, file))) => {
            let imp = match &status {
                Some(s) => format!("ok last_update={}", show_time(s.last_update)),
                None => "missing".into()
            };
            ctx.case(input, &format!("c27status 0|0|{}", hex(&file)), &imp);
            ctx.count("kind:statusfile");
            ctx.nontrivial(format!("statusfile:{}", now_t.timestamp_subsec_nanos() != 0));
            if now_t.timestamp_subsec_nanos() != 0 { ctx.count("observed:subsecond-part-dropped") }
            match status {
                Some(s) if s.last_update.timestamp() == now_t.timestamp()
                    && s.last_update.timestamp_subsec_nanos() == 0 => {}
                _ => ctx.oracle_fail("statusfile-differs", "status.bin does not read back the finish time",
                                     input, json!({"impl": imp, "file": hex(&file)}))
            }
        }
        Ok(Err(err)) => {
            ctx.case_oracle_only(input, &err);
            ctx.oracle_fail("statusfile-unreadable", &err, input, json!(err));
        }
        Err(panic) => {
            ctx.case_oracle_only(input, "panic");
            ctx.oracle_fail("statusfile-panic", &panic, input, json!(panic));
        }
    }
}

/// `RrdpArchive::create`, `publish_state`, (`update_state`), reopen, `load_state`.
fn state_file_case(ctx: &mut Ctx, input: &Value) {
    let states: Option<Vec<Fields>> = input["states"].as_array().and_then(|l| {
        l.iter().map(|s| Fields::parse(s.as_str()?)).collect()
    });
    let Some(states) = states else { ctx.count("skipped:unparsable-input"); return };
    let built: Option<Vec<_>> = states.iter().map(|f| match Rec::build("state", f) {
        Some(Rec::State(s)) => Some(s), _ => None
    }).collect();
    let Some(built) = built else { ctx.count("skipped:not-a-value"); return };
    if built.is_empty() { ctx.count("skipped:not-a-value"); return }
    let dir = tempfile::tempdir().expect("tempdir");
    let path = Arc::new(dir.path().join("repo.bin"));
    let res = rvcore::catch(std::panic::AssertUnwindSafe(|| {
        let mut archive = RrdpArchive::create(path.clone()).map_err(|_| "create failed".to_string())?;
        let mut loaded = Vec::new();
        for (i, state) in built.iter().enumerate() {
            if i == 0 { archive.publish_state(state).map_err(|_| "publish_state failed".to_string())? }
            else { archive.update_state(state).map_err(|_| "update_state failed".to_string())? }
            loaded.push(archive.load_state().map_err(|_| "load_state failed".to_string())?);
        }
        drop(archive);
        let archive = RrdpArchive::open(path.clone()).map_err(|_| "reopen failed".to_string())?;
        loaded.push(archive.load_state().map_err(|_| "load_state after reopen failed".to_string())?);
        Ok::<_, String>(loaded)
    }));
    match res {
        Ok(Ok(loaded)) => {
            let last = loaded.last().expect("non-empty");
            let imp = Rec::State(last.clone()).canonical().show();
            ctx.case_oracle_only(input, &imp);
            ctx.count("kind:statefile");
            ctx.nontrivial(format!("statefile:{}", built.len().min(3)));
            let mut expected: Vec<_> = built.iter().collect();
            expected.push(built.last().expect("non-empty"));
            if loaded.len() != expected.len() || loaded.iter().zip(expected).any(|(a, b)| a != b) {
                ctx.oracle_fail("statefile-differs", "the repository state does not read back from the archive",
                                input, json!({"impl": imp}));
            }
        }
        Ok(Err(err)) => {
            ctx.case_oracle_only(input, &err);
            ctx.oracle_fail("statefile-unreadable", &err, input, json!(err));
        }
        Err(panic) => {
            ctx.case_oracle_only(input, "panic");
            ctx.oracle_fail("statefile-panic", &panic, input, json!(panic));
        }
    }
}

/// The URI validators of the model against `rpki::uri`.
fn uri_case(ctx: &mut Ctx, input: &Value) {
    let Some(data) = input["uri"].as_str().and_then(unhex) else { ctx.count("skipped:unparsable-input"); return };
    let rsync = uri::Rsync::from_slice(&data).is_ok();
    let https = uri::Https::from_slice(&data).is_ok();
    ctx.case(input, &format!("c28uri {}", hex(&data)), &format!("rsync={} https={}", rsync as u8, https as u8));
    ctx.count("kind:uri");
    ctx.nontrivial(format!("uri:{}{}", rsync as u8, https as u8));
}

fn gen_uri_probe(rng: &mut rvcore::Rng) -> Vec<u8> {
    let mut u = if rng.chance(1, 2) { gen::rsync_uri(rng) } else { gen::https_uri(rng) };
    match rng.below(10) {
        0 => {}
        1 => { u.truncate(rng.below(u.len() as u64 + 1) as usize) }
        2 => { let i = rng.below(u.len() as u64) as usize; u[i] = *rng.pick(b" \"#<>?[\\]^`{|}\x00\x7f\x80@/."); }
        3 => { let i = rng.below(u.len() as u64 + 1) as usize; u.insert(i, b'/'); }
        4 => { let i = rng.below(u.len() as u64 + 1) as usize; for (k, b) in b"/../".iter().enumerate() { u.insert(i + k, *b) } }
        5 => { let i = rng.below(u.len() as u64 + 1) as usize; for (k, b) in b"/./".iter().enumerate() { u.insert(i + k, *b) } }
        6 => { u = [&b"rsync://"[..], &b"https://"[..], b"rsync:/", b"RSYNC://a/b/", b"rsync://a/b", b"rsync:///b/c", b"rsync://a//c", b"https:/", b"HTTPS://", b"http://a/b/c"][rng.below(10) as usize].to_vec() }
        7 => { u.push(b'/'); u.push(b'/') }
        8 => { u.extend_from_slice(b"/..") }
        _ => { let i = rng.below(u.len() as u64) as usize; u.remove(i); }
    }
    u
}

pub fn run_c28(ctx: &mut Ctx) {
    ctx.rule = "values of each persisted record type (StoredPointHeader, StoredManifest, StoredObject, StoredStatus, \
        RepositoryState) through the real write/read with random trailing bytes; boundary integers, times at \
        chrono's limits and with sub-second parts, URIs with mixed-case schemes / long segments / trailing slash, \
        byte strings of length 0,1,255,256,257,4095,4096 (thorough: also 65535,65536), data blocks of 65535, 65536, 65537, 100000, 200003 bytes read from a slice, through short-reading readers (1/7/4096 bytes per read) and through the store's BufReader<File>; maps of 0..120 (thorough: 1500) entries and of 1023,1024,1025,1026,2000,2047..2049,5000,65535..65537 entries; every optional \
        field cycled None/Some; plus whole stored-point files (open/update/load_quietly/iterate), status.bin \
        (Run::done/Store::status), RRDP state in an archive (publish/update/load_state), and the URI validators. \
        non-trivial = (record kind, pattern of absent/empty/present fields, trailing length class)".into();
    let quick = ctx.quick();
    let inputs: Vec<Value> = match ctx.replay_inputs() {
        Some(inputs) => inputs,
        None => {
            let mut res = ctx.corpus("C28");
            let n = ctx.budget(1000, 20_000);
            for kind in KINDS {
                for i in 0..n {
                    let mut rng = ctx.rng.fork();
                    let f = gen::record(&mut rng, kind, i, quick);
                    let trail = gen::trail(&mut rng);
                    res.push(json!({"rec": kind, "fields": f.show(), "trail": hex(&trail)}));
                }
            }
            // data blocks around 64 KiB and beyond, through short-reading readers and real files
            for kind in ["object", "manifest"] {
                for size in [65_535u64, 65_536, 65_537, 100_000, 200_003] {
                    res.push(json!({"big": kind, "size": size}));
                }
            }
            // maps around every size the map codec treats specially
            for (k, n) in gen::MAP_SIZES.iter().enumerate() {
                let mut rng = ctx.rng.fork();
                let f = gen::state_with_map(&mut rng, *n);
                let trail = if k % 2 == 0 { Vec::new() } else { gen::trail(&mut rng) };
                res.push(json!({"rec": "state", "fields": f.show(), "trail": hex(&trail)}));
            }
            for i in 0..ctx.budget(150, 3_000) {
                let mut rng = ctx.rng.fork();
                let mut h = gen::record(&mut rng, "header", i, quick);
                h.set("update_status", format!("A{}", gen::time_text(&mut rng, true)));
                let m = gen::record(&mut rng, "manifest", i, true);
                let n = [0u64, 1, 2, 5, 17][i % 5];
                let objs: Vec<String> = (0..n).map(|k| gen::record(&mut rng, "object", i + k as usize, true).show()).collect();
                let now = gen::now_text(&mut rng);
                res.push(json!({"file": "point", "header": h.show(), "manifest": m.show(), "objects": objs, "now": now}));
            }
            for _ in 0..ctx.budget(40, 1_000) {
                let mut rng = ctx.rng.fork();
                res.push(json!({"file": "status", "now": gen::now_text(&mut rng)}));
            }
            for i in 0..ctx.budget(60, 1_500) {
                let mut rng = ctx.rng.fork();
                let n = 1 + i % 3;
                let states: Vec<String> = (0..n).map(|k| gen::record(&mut rng, "state", i * 7 + k, true).show()).collect();
                res.push(json!({"file": "state", "states": states}));
            }
            for _ in 0..ctx.budget(1500, 100_000) {
                let mut rng = ctx.rng.fork();
                res.push(json!({"uri": hex(&gen_uri_probe(&mut rng))}));
            }
            res
        }
    };
    for input in inputs {
        if input.get("uri").is_some() { uri_case(ctx, &input) }
        else if input.get("big").is_some() { big_case(ctx, &input) }
        else {
            match input["file"].as_str() {
                Some("point") => point_file_case(ctx, &input),
                Some("status") => status_file_case(ctx, &input),
                Some("state") => state_file_case(ctx, &input),
                _ => slice_case(ctx, &input),
            }
        }
    }
    let _: Option<StoredManifest> = None;
}
