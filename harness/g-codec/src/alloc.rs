//! A counting global allocator: records the largest single request made
//! between `reset()` and `max()`, refuses absurd requests (as a machine with
//! limited memory would) and, when it refuses, leaves a note on the result
//! file descriptor so that the parent can tell why the child died.

use std::alloc::{GlobalAlloc, Layout, System};
use std::sync::atomic::{AtomicBool, AtomicI32, AtomicUsize, Ordering};

pub struct Counting;

static MAX: AtomicUsize = AtomicUsize::new(0);
static MAX_ZEROED: AtomicBool = AtomicBool::new(false);
static ACTIVE: AtomicBool = AtomicBool::new(false);
static NOTE_FD: AtomicI32 = AtomicI32::new(-1);

/// Requests above this size fail (1 GiB).
pub const REFUSE_ABOVE: usize = 1 << 30;

fn note(size: usize, zeroed: bool) {
    if ACTIVE.load(Ordering::Relaxed) {
        let mut cur = MAX.load(Ordering::Relaxed);
        while size > cur {
            match MAX.compare_exchange_weak(cur, size, Ordering::Relaxed, Ordering::Relaxed) {
                Ok(_) => { MAX_ZEROED.store(zeroed, Ordering::Relaxed); break }
                Err(now) => cur = now,
            }
        }
    }
}

fn refuse(size: usize, zeroed: bool) {
    // No allocation in here: format the note by hand.
    let fd = NOTE_FD.load(Ordering::Relaxed);
    if fd < 0 { return }
    let mut buf = [0u8; 40];
    let mut pos = buf.len();
    pos -= 1; buf[pos] = b'\n';
    pos -= 1; buf[pos] = if zeroed { b'z' } else { b'p' };
    pos -= 1; buf[pos] = b' ';
    let mut n = size;
    loop {
        pos -= 1; buf[pos] = b'0' + (n % 10) as u8;
        n /= 10;
        if n == 0 { break }
    }
    pos -= 1; buf[pos] = b' ';
    pos -= 1; buf[pos] = b'A';
    unsafe { nix::libc::write(fd, buf[pos..].as_ptr() as *const _, buf.len() - pos); }
}

unsafe impl GlobalAlloc for Counting {
    unsafe fn alloc(&self, layout: Layout) -> *mut u8 {
        note(layout.size(), false);
        if ACTIVE.load(Ordering::Relaxed) && layout.size() > REFUSE_ABOVE {
            refuse(layout.size(), false);
            return std::ptr::null_mut()
        }
        System.alloc(layout)
    }
    unsafe fn alloc_zeroed(&self, layout: Layout) -> *mut u8 {
        note(layout.size(), true);
        if ACTIVE.load(Ordering::Relaxed) && layout.size() > REFUSE_ABOVE {
            refuse(layout.size(), true);
            return std::ptr::null_mut()
        }
        System.alloc_zeroed(layout)
    }
    unsafe fn realloc(&self, ptr: *mut u8, layout: Layout, new_size: usize) -> *mut u8 {
        note(new_size, false);
        if ACTIVE.load(Ordering::Relaxed) && new_size > REFUSE_ABOVE {
            refuse(new_size, false);
            return std::ptr::null_mut()
        }
        System.realloc(ptr, layout, new_size)
    }
    unsafe fn dealloc(&self, ptr: *mut u8, layout: Layout) {
        System.dealloc(ptr, layout)
    }
}

/// Starts measuring.
pub fn reset() {
    MAX.store(0, Ordering::Relaxed);
    MAX_ZEROED.store(false, Ordering::Relaxed);
    ACTIVE.store(true, Ordering::Relaxed);
}

/// Stops measuring; returns the largest single request and whether it was a
/// zero-initialised one (`vec![0; n]`).
pub fn stop() -> (usize, bool) {
    ACTIVE.store(false, Ordering::Relaxed);
    (MAX.load(Ordering::Relaxed), MAX_ZEROED.load(Ordering::Relaxed))
}

pub fn set_note_fd(fd: i32) { NOTE_FD.store(fd, Ordering::Relaxed) }
