//! Shared pieces of the store-group components: the standard universe
//! (trust anchor `root` + child `kid`, the child in its own rsync module),
//! ground truth about fetched versions, intrinsic checks of stored points.

use std::collections::{BTreeMap, BTreeSet};
use rpki::repository::manifest::Manifest;
use rpkitest::build::{hex_encode, sha256, Meaning};
use rpkitest::gen::*;
use rpkitest::store::StoredPointDump;
use rpkitest::truth::{self, EffRes};
use rpkitest::*;
use serde_json::Value;

pub const TA_URI: &str = "rsync://rpki.test/repo/ta.cer";
pub const KID_MODULE: &str = "rpki.test/kids";

pub fn kid_res() -> Res {
    Res::v4(&["10.1.0.0/16"]).with_v6("2001:db8:1::/48").with_asn(65000, 65999)
}

/// TAL "ta" (key 0), CA "root" (key 0) in module `rpki.test/repo`, its
/// child "kid" (key 1) in module `rpki.test/kids`; no versions yet.
pub fn base_world() -> World {
    let mut world = World::default();
    world.tals.push(tal("ta", 0, &[TA_URI]));
    world.cas.push(ca("root", 0, "rpki.test/repo/root/", TA_URI));
    world.cas.push(ca("kid", 1, "rpki.test/kids/kid/", "rsync://rpki.test/repo/root/kid.cer"));
    world
}

pub fn ta_cert() -> TaFile { ta_file(TA_URI, "root", 0, Res::all()) }

pub fn kid_cert() -> ObjSpec { child_cert("kid.cer", 500, "kid", kid_res()) }

pub fn std_eff(ca: &str) -> EffRes {
    match ca {
        "root" => EffRes::listed(&Res::all()),
        _ => EffRes::listed(&kid_res()),
    }
}

pub fn to_json<T: serde::Serialize>(value: &T) -> Value {
    serde_json::to_value(value).expect("serialise")
}

/// Compares two decimal number strings.
pub fn cmp_dec(a: &str, b: &str) -> std::cmp::Ordering {
    let a = a.trim_start_matches('0');
    let b = b.trim_start_matches('0');
    a.len().cmp(&b.len()).then_with(|| a.cmp(b))
}

pub fn hex_to_dec(hex: &str) -> String {
    let mut digits: Vec<u8> = vec![0];
    for ch in hex.chars() {
        let mut carry = ch.to_digit(16).expect("hex digit");
        for d in digits.iter_mut() {
            let v = (*d as u32) * 16 + carry;
            *d = (v % 10) as u8;
            carry = v / 10;
        }
        while carry > 0 {
            digits.push((carry % 10) as u8);
            carry /= 10;
        }
    }
    digits.iter().rev().map(|d| (b'0' + d) as char).collect()
}

/// Ground truth derived from the description and the built bytes only.
pub struct Truth<'a> {
    pub builder: &'a Builder,
    pub world: &'a World,
    /// SHA-256 of manifest bytes → (CA name, version index).
    mfts: BTreeMap<Vec<u8>, (String, usize)>,
}

/// Why a fetched version must not replace the stored one.
pub type Verdict = Result<(), &'static str>;

impl<'a> Truth<'a> {
    pub fn new(builder: &'a Builder, world: &'a World) -> Self {
        let mut mfts = BTreeMap::new();
        for ca in &world.cas {
            for (idx, version) in ca.versions.iter().enumerate() {
                for file in builder.point_files(world, ca, version).files {
                    if matches!(file.meaning, Meaning::Mft { .. }) {
                        mfts.entry(sha256(&file.bytes)).or_insert((ca.name.clone(), idx));
                    }
                }
            }
        }
        Truth { builder, world, mfts }
    }

    /// The version of `ca` these manifest bytes are.
    pub fn version_of(&self, ca: &CaSpec, mft_bytes: &[u8]) -> Option<usize> {
        match self.mfts.get(&sha256(mft_bytes)) {
            Some((name, idx)) if *name == ca.name => Some(*idx),
            _ => None
        }
    }

    /// Does the manifest of `version` (with its CRL) validate at `now`?
    pub fn manifest_valid(
        &self, ca: &CaSpec, version: &PointVersion, now: i64, stale: Policy,
    ) -> Verdict {
        match &version.mft_fault {
            Fault::None => { }
            Fault::CrlUri(uri) if *uri == ca.crl_uri() => { }
            Fault::CrlUri(_) => return Err("manifest-crl-uri"),
            Fault::SigFlip | Fault::WrongKey(_) => return Err("manifest-signature"),
            Fault::Garbage => return Err("manifest-undecodable"),
        }
        if now < version.ee_not_before { return Err("manifest-ee-not-yet-valid") }
        if now > version.ee_not_after { return Err("manifest-ee-expired") }
        if version.this_update > now { return Err("manifest-premature") }
        if version.next_update < now && stale == Policy::Reject { return Err("manifest-stale") }
        let crl = &version.crl;
        if matches!(crl.publish, Publish::Unlisted) { return Err("crl-unlisted") }
        match crl.fault {
            Fault::None | Fault::CrlUri(_) => { }
            Fault::SigFlip | Fault::WrongKey(_) => return Err("crl-signature"),
            Fault::Garbage => return Err("crl-undecodable"),
        }
        if crl.next_update < now && stale == Policy::Reject { return Err("crl-stale") }
        if crl.revoked.contains(&version.ee_serial) { return Err("manifest-ee-revoked") }
        Ok(())
    }

    /// Is what the collector holds for `ca` (its local copy `local`) a
    /// version whose manifest validates and whose listed files are all
    /// present with the listed hash? Returns the version index too.
    pub fn fetched(
        &self, ca: &CaSpec, local: &BTreeMap<String, Vec<u8>>, now: i64, stale: Policy,
    ) -> (Option<usize>, Verdict) {
        let Some(mft) = local.get(&ca.mft_uri()) else { return (None, Err("no-manifest")) };
        let Some(idx) = self.version_of(ca, mft) else { return (None, Err("unknown-manifest")) };
        let version = &ca.versions[idx];
        if let Err(why) = self.manifest_valid(ca, version, now, stale) {
            return (Some(idx), Err(why))
        }
        for (name, hash) in self.builder.point_files(self.world, ca, version).entries {
            match local.get(&ca.obj_uri(&name)) {
                None => return (Some(idx), Err("listed-file-missing")),
                Some(bytes) if sha256(bytes) != hash => return (Some(idx), Err("listed-file-hash")),
                Some(_) => { }
            }
        }
        (Some(idx), Ok(()))
    }

    /// Ground-truth payload of a version of a CA of the standard universe.
    pub fn version_payload(
        &self, ca: &str, version: usize, now: i64, opts: &EngineOpts,
    ) -> BTreeSet<String> {
        let spec = self.world.ca(ca).expect("CA");
        truth::version_payload(
            spec, &std_eff(ca), &spec.versions[version], now,
            opts.enable_aspa, opts.enable_bgpsec
        ).into_iter().collect()
    }

    /// Every payload string any version of `ca` could contribute.
    pub fn payload_universe(&self, ca: &str) -> BTreeSet<String> {
        let spec = self.world.ca(ca).expect("CA");
        let mut res = BTreeSet::new();
        for version in &spec.versions {
            for obj in &version.objects {
                res.extend(truth::obj_payload(obj));
                if let Publish::Replace(other) = &obj.publish {
                    res.extend(truth::obj_payload(other));
                }
            }
        }
        res
    }
}

/// Intrinsic completeness of a stored point, decided with the rpki crate's
/// manifest decoder only: the stored objects are exactly the files the
/// stored manifest lists, each with the listed hash, and the stored CRL is
/// the listed one.
pub fn stored_point_complete(point: &StoredPointDump, check_cached: bool) -> Result<(), String> {
    let Some(m) = point.manifest.as_ref() else { return Ok(()) };
    if point.objects_error {
        return Err("object list unreadable".into())
    }
    let manifest = Manifest::decode(bytes::Bytes::from(m.manifest.clone()), false)
        .map_err(|_| "stored manifest does not decode".to_string())?;
    let mut listed: Vec<(String, String)> = manifest.content().iter().map(|item| {
        (String::from_utf8_lossy(item.file()).into_owned(), hex_encode(item.hash()))
    }).collect();
    listed.sort();
    let mut stored: Vec<(String, String)> = Vec::new();
    for obj in &point.objects {
        if obj.hash_ok != Some(true) {
            return Err(format!("{}: recorded hash does not match the content", obj.uri))
        }
        let Some(name) = obj.uri.strip_prefix(m.ca_repository.as_str()) else {
            return Err(format!("{} outside {}", obj.uri, m.ca_repository))
        };
        stored.push((name.to_string(), obj.sha256.clone()));
    }
    stored.sort();
    if listed != stored {
        return Err(format!("stored objects {stored:?} are not the listed files {listed:?}"))
    }
    let Some(crl_name) = m.crl_uri.strip_prefix(m.ca_repository.as_str()) else {
        return Err(format!("CRL {} outside {}", m.crl_uri, m.ca_repository))
    };
    let crl_hash = hex_encode(&sha256(&m.crl));
    if !listed.iter().any(|(n, h)| n == crl_name && *h == crl_hash) {
        return Err("stored CRL is not the listed CRL".into())
    }
    if !check_cached { return Ok(()) }
    if manifest.content().manifest_number().to_string() != m.number
        && !(m.number == "0" && manifest.content().manifest_number().to_string().is_empty())
    {
        return Err("cached manifest number differs from the manifest's".into())
    }
    if manifest.content().this_update().timestamp() != m.this_update {
        return Err("cached thisUpdate differs from the manifest's".into())
    }
    Ok(())
}
