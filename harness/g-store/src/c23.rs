//! C23: a crash at any point never corrupts the store or blocks later runs.
//!
//! A validation run (`routinator vrps`, the real command line in a child
//! process of this binary) is executed under `strace`; every file-system
//! syscall that changes the cache directory is a kill point: the run is
//! repeated with `strace -e inject=<syscall>:signal=KILL:when=<k>` for every
//! syscall kind and every k, once tracing only the main thread and once
//! following the validation thread. After each kill the follow-up commands
//! run in fresh processes on copies of the crashed cache directory:
//! `vrps --update-after`, a normal `vrps`, and `vrps --noupdate`.

use std::collections::{BTreeMap, BTreeSet};
use std::fs;
use std::path::{Path, PathBuf};
use std::process::{Command, Stdio};
use rpkitest::gen::*;
use rpkitest::store::list_dir;
use rpkitest::truth;
use rpkitest::*;
use rvcore::Ctx;
use serde::{Deserialize, Serialize};
use serde_json::{json, Value};
use crate::common::{to_json, TA_URI};
use crate::play::copy_dir;

const TU: i64 = T0 - HOUR;
const FAR: i64 = T0 + 300 * DAY;
const NOW0: i64 = T0;
const NOW1: i64 = T0 + 300;
/// ROAs of the large publication point.
const N_ROAS: u32 = 40;

/// Syscalls at which kills are injected.
const KILL_SYSCALLS: [&str; 11] = [
    "write", "pwrite64", "rename", "renameat", "renameat2", "unlink", "unlinkat", "ftruncate",
    "copy_file_range", "sendfile", "openat",
];

const TRACE_SET: &str = "openat,creat,write,pwrite64,writev,ftruncate,rename,renameat,renameat2,\
    unlink,unlinkat,link,linkat,copy_file_range,sendfile";

#[derive(Clone, Debug, Deserialize, Serialize)]
struct Case {
    /// Root versions: which kids each lists.
    world: World,
    /// Served to the preparing run (stored as version 1); `None`: the
    /// killed run starts on an empty cache directory.
    serve0: Option<Serve>,
    /// Served to the run that is killed.
    serve1: Serve,
    /// CAs whose stored copy is made internally inconsistent before the
    /// killed run (cached manifest number overwritten): the run rejects the
    /// stored copy in place and then stores the fetched version.
    #[serde(default)]
    tamper: Vec<String>,
    /// CAs that hold a valid stored version before the killed run: without
    /// collector they must contribute one of their versions, never nothing.
    #[serde(default)]
    must_have: Vec<String>,
    /// `None`: the reference run only; otherwise the kill to inject.
    kill: Option<Kill>,
}

#[derive(Clone, Debug, Deserialize, Serialize)]
struct Kill {
    /// Follow threads and child processes (`strace -f`)?
    follow: bool,
    syscall: String,
    when: usize,
}

//------------ The world ------------------------------------------------------

const KIDS: [(&str, usize, &str); 5] = [
    ("a", 1, "rpki.test/ma/a/"),      // updated in the killed run
    ("b", 2, "rpki.test/mb/b/"),      // unchanged
    ("e", 3, "rpki.test/me/e/"),      // expires before the killed run (still listed)
    ("g", 4, "rpki.test/mg/g/"),      // expires and is dropped by the parent
    ("n", 5, "rpki.test/mn/n/"),      // never publishes a manifest
];

fn kid_res(name: &str) -> Res {
    let i = KIDS.iter().position(|k| k.0 == name).unwrap() as u32 + 1;
    Res::v4(&[&format!("10.{i}.0.0/16")]).with_asn(65000 + i * 100, 65099 + i * 100)
}

fn world() -> World {
    let mut world = World::default();
    world.tals.push(tal("ta", 0, &[TA_URI]));
    let mut root = ca("root", 0, "rpki.test/repo/root/", TA_URI);
    for (idx, kids) in [vec!["a", "b", "e", "g", "n"], vec!["a", "b", "e", "n"]].iter().enumerate() {
        let mut v = version(idx as u64 + 1, TU + idx as i64 * 10, FAR);
        v.ee_not_after = FAR;
        for (i, kid) in kids.iter().enumerate() {
            v.objects.push(child_cert(&format!("{kid}.cer"), 500 + i as u64, kid, kid_res(kid)));
        }
        v.objects.push(roa("r.roa", 900 + idx as u64, 64990 + idx as u32, &format!("192.0.{idx}.0/24"), None));
        root.versions.push(v);
    }
    world.cas.push(root);
    for (name, key, loc) in KIDS {
        let i = KIDS.iter().position(|k| k.0 == name).unwrap() as u32 + 1;
        let mut kid = ca(name, key, loc, &format!("rsync://rpki.test/repo/root/{name}.cer"));
        for vi in 0..2u32 {
            let mut v = version(vi as u64 + 1, TU + vi as i64 * 10, FAR);
            v.ee_not_after = if name == "e" || name == "g" { NOW0 + 100 } else { FAR };
            if name == "n" && vi == 0 {
                // Version 0 of n: nothing retrievable (no manifest).
                v.mft_publish = Publish::Missing;
            }
            else if name == "n" {
                // Version 1 of n: a large point, so that storing it takes
                // several flushes of the 8 kB write buffer.
                for k in 0..N_ROAS {
                    v.objects.push(roa(
                        &format!("r{k:02}.roa"), 100 + k as u64, 65000 + i * 100 + (k % 90),
                        &format!("10.{i}.{k}.0/24"), None
                    ));
                }
            }
            else {
                v.objects.push(roa(
                    "x.roa", 70 + vi as u64, 65000 + i * 100 + vi, &format!("10.{i}.{vi}.0/24"), None
                ));
            }
            kid.versions.push(v);
            if name != "a" && name != "b" && name != "n" { break }
        }
        world.cas.push(kid);
    }
    world
}

fn serve(root: usize, a: usize, b: usize, n: usize, with_g: bool) -> Serve {
    let mut points = vec![
        ("root".to_string(), root), ("a".to_string(), a), ("b".to_string(), b),
        ("e".to_string(), 0), ("n".to_string(), n),
    ];
    if with_g { points.push(("g".to_string(), 0)) }
    Serve { tas: vec![ta_file(TA_URI, "root", 0, Res::all())], points, rsync: vec![] }
}

//------------ Child processes -----------------------------------------------

struct Lab {
    exe: PathBuf,
    dir: PathBuf,
    tals: PathBuf,
    counter: usize,
}

#[derive(Debug)]
struct ChildResult {
    /// Exit code; `None`: killed by a signal.
    code: Option<i32>,
    /// Payload lines of `vrps -f csv` (canonical strings), if the output exists.
    payload: Option<Vec<String>>,
    trace: String,
    stderr: String,
}

impl Lab {
    fn fresh_dir(&mut self, label: &str) -> PathBuf {
        self.counter += 1;
        let dir = self.dir.join(format!("{label}-{}", self.counter));
        let _ = fs::remove_dir_all(&dir);
        dir
    }

    /// Runs `routinator <global options> vrps <extra>` on `cache` at clock
    /// `now`, optionally under strace.
    fn vrps(
        &mut self, cache: &Path, now: i64, extra: &[&str], strace: Option<(bool, Option<(&str, usize)>)>,
    ) -> ChildResult {
        self.counter += 1;
        let out = self.dir.join(format!("out-{}.csv", self.counter));
        let trace = self.dir.join(format!("trace-{}.txt", self.counter));
        let _ = fs::remove_file(&out);
        let mut args: Vec<String> = Vec::new();
        if let Some((follow, inject)) = strace {
            args.push("-y".into());
            if follow { args.push("-f".into()) }
            args.push("-o".into());
            args.push(trace.to_string_lossy().into_owned());
            args.push("-e".into());
            args.push(format!("trace={TRACE_SET}"));
            if let Some((syscall, when)) = inject {
                args.push("-e".into());
                args.push(format!("inject={syscall}:signal=KILL:when={when}"));
            }
            args.push(self.exe.to_string_lossy().into_owned());
        }
        args.extend([
            "routinator", "--no-rir-tals", "--disable-rrdp", "--rsync-command", "/bin/true",
            "--validation-threads", "1", "-qq",
        ].iter().map(|s| s.to_string()));
        args.push("--extra-tals-dir".into());
        args.push(self.tals.to_string_lossy().into_owned());
        args.push("-r".into());
        args.push(cache.to_string_lossy().into_owned());
        args.push("vrps".into());
        args.push("-f".into());
        args.push("csv".into());
        args.push("-o".into());
        args.push(out.to_string_lossy().into_owned());
        args.extend(extra.iter().map(|s| s.to_string()));
        let program = if strace.is_some() { PathBuf::from("strace") } else { self.exe.clone() };
        let output = Command::new(&program).args(&args)
            .current_dir(&self.dir)
            .env("HOME", &self.dir)
            .env("RV_CLOCK", now.to_string())
            .env("RV_SORTED", "1")
            .env_remove("VERIF_KILL_AT").env_remove("VERIF_EVENT_LOG")
            .stdin(Stdio::null()).stdout(Stdio::null()).stderr(Stdio::piped())
            .output();
        let (code, stderr) = match output {
            Ok(output) => (
                // strace mirrors a fatal signal of the tracee on itself.
                output.status.code().filter(|c| *c != 137),
                String::from_utf8_lossy(&output.stderr).chars().rev().take(400).collect::<Vec<_>>()
                    .into_iter().rev().collect()
            ),
            Err(err) => (Some(-1), format!("spawn failed: {err}")),
        };
        let payload = fs::read_to_string(&out).ok().map(|text| parse_csv(&text));
        let trace_text = fs::read_to_string(&trace).unwrap_or_default();
        let _ = fs::remove_file(&out);
        let _ = fs::remove_file(&trace);
        ChildResult { code, payload, trace: trace_text, stderr }
    }
}

/// `ASN,IP Prefix,Max Length,Trust Anchor` lines → `AS64496 10.0.0.0/24-24`.
fn parse_csv(text: &str) -> Vec<String> {
    let mut res: Vec<String> = text.lines().skip(1).filter_map(|line| {
        let mut parts = line.split(',');
        let asn = parts.next()?;
        let prefix = parts.next()?;
        let max = parts.next()?;
        Some(format!("{asn} {prefix}-{max}"))
    }).collect();
    res.sort();
    res.dedup();
    res
}

//------------ Trace parsing -------------------------------------------------

/// A cache-changing operation: `c` create/truncate, `w` write, `r` rename,
/// `u` unlink; paths relative to the cache directory.
#[derive(Clone, Debug, Eq, PartialEq)]
enum Op {
    Create(String),
    Write(String, usize),
    Rename(String, String),
    Unlink(String),
}

fn quoted(s: &str) -> Option<(&str, &str)> {
    let start = s.find('"')? + 1;
    let end = start + s[start..].find('"')?;
    Some((&s[start..end], &s[end + 1..]))
}

/// `5</path>` → path
fn fd_path(arg: &str) -> Option<&str> {
    let start = arg.find('<')? + 1;
    let end = arg.rfind('>')?;
    (end > start).then(|| &arg[start..end])
}

struct Parsed {
    /// Completed operations on the cache directory, in order.
    ops: Vec<Op>,
    killed: bool,
    /// Number of injectable syscalls per (thread, syscall) seen, for
    /// enumerating kill points: syscall → max per-thread count.
    counts: BTreeMap<String, usize>,
    /// The same for the first thread of the trace only.
    main_counts: BTreeMap<String, usize>,
    /// (thread, syscall, index of the call within its thread) of every call
    /// that changed the cache directory.
    cache_calls: Vec<(String, String, usize)>,
}

fn parse_trace(text: &str, cache: &Path, follow: bool) -> Parsed {
    let cache_prefix = format!("{}/", cache.to_string_lossy());
    let rel = |path: &str| -> Option<String> { path.strip_prefix(&cache_prefix).map(|s| s.to_string()) };
    let mut ops = Vec::new();
    let mut killed = false;
    let mut per_thread: BTreeMap<(String, String), usize> = BTreeMap::new();
    let mut first_thread: Option<String> = None;
    let mut pending: BTreeMap<String, String> = BTreeMap::new();
    let mut cache_calls: Vec<(String, String, usize)> = Vec::new();
    for raw in text.lines() {
        let (tid, line) = if follow {
            match raw.split_once(' ') {
                Some((tid, rest)) if tid.chars().all(|c| c.is_ascii_digit()) => (tid.to_string(), rest.trim_start()),
                _ => (String::new(), raw),
            }
        } else { (String::new(), raw) };
        if first_thread.is_none() { first_thread = Some(tid.clone()) }
        if line.contains("+++ killed by SIGKILL") { killed = true; continue }
        if line.starts_with("+++") || line.starts_with("---") { continue }
        // Re-join `<unfinished ...>` / `<... resumed>` pairs.
        let full: String;
        let line = if let Some(head) = line.strip_suffix("<unfinished ...>") {
            pending.insert(tid.clone(), head.to_string());
            continue
        }
        else if line.starts_with("<...") {
            let Some(head) = pending.remove(&tid) else { continue };
            let tail = line.split_once("resumed>").map(|(_, t)| t).unwrap_or("");
            full = format!("{head}{tail}");
            full.as_str()
        }
        else { line };
        let Some(paren) = line.find('(') else { continue };
        let name = &line[..paren];
        let args = &line[paren + 1..];
        let index = {
            let slot = per_thread.entry((tid.clone(), name.to_string())).or_insert(0);
            *slot += 1;
            *slot
        };
        let ret = line.rsplit_once(" = ").map(|(_, r)| r.trim()).unwrap_or("?");
        let ok = !ret.starts_with('?') && !ret.starts_with('-');
        if !ok { continue }
        let ops_before = ops.len();
        match name {
            "openat" | "creat" => {
                let Some((path, rest)) = quoted(args) else { continue };
                if name == "openat" && !(rest.contains("O_CREAT") || rest.contains("O_TRUNC")) { continue }
                if rest.contains("O_DIRECTORY") { continue }
                if let Some(path) = rel(path) { ops.push(Op::Create(path)) }
            }
            "write" | "pwrite64" | "writev" => {
                let first = args.split(',').next().unwrap_or("");
                let Some(path) = fd_path(first) else { continue };
                let n: usize = ret.split_whitespace().next().and_then(|r| r.parse().ok()).unwrap_or(0);
                if let Some(path) = rel(path) { ops.push(Op::Write(path, n)) }
            }
            "copy_file_range" | "sendfile" => {
                // copy_file_range(in, off, out, off, len, flags) / sendfile(out, in, off, len)
                let parts: Vec<&str> = args.split(", ").collect();
                let dst = if name == "sendfile" { parts.first() } else { parts.get(2) };
                let Some(path) = dst.and_then(|arg| fd_path(arg)) else { continue };
                let n: usize = ret.split_whitespace().next().and_then(|r| r.parse().ok()).unwrap_or(0);
                if let Some(path) = rel(path) { ops.push(Op::Write(path, n)) }
            }
            "rename" | "renameat" | "renameat2" => {
                let Some((from, rest)) = quoted(args) else { continue };
                let Some((to, _)) = quoted(rest) else { continue };
                match (rel(from), rel(to)) {
                    (Some(from), Some(to)) => ops.push(Op::Rename(from, to)),
                    _ => { }
                }
            }
            "unlink" => {
                let Some((path, _)) = quoted(args) else { continue };
                if let Some(path) = rel(path) { ops.push(Op::Unlink(path)) }
            }
            "unlinkat" => {
                if args.contains("AT_REMOVEDIR") { continue }
                let first = args.split(',').next().unwrap_or("");
                let Some((name, _)) = quoted(args) else { continue };
                let path = if name.starts_with('/') { name.to_string() } else {
                    match fd_path(first) {
                        Some(dir) => format!("{dir}/{name}"),
                        None => continue
                    }
                };
                if let Some(path) = rel(&path) { ops.push(Op::Unlink(path)) }
            }
            _ => { }
        }
        if ops.len() > ops_before {
            cache_calls.push((tid.clone(), name.to_string(), index));
        }
    }
    let mut counts = BTreeMap::new();
    let mut main_counts = BTreeMap::new();
    for ((tid, name), n) in per_thread {
        let slot = counts.entry(name.clone()).or_insert(0);
        if n > *slot { *slot = n }
        if Some(&tid) == first_thread.as_ref() {
            main_counts.insert(name, n);
        }
    }
    Parsed { ops, killed, counts, main_counts, cache_calls }
}

fn class_of(path: &str) -> usize {
    if path == "stored/status.bin" { 3000 }
    else if path.starts_with("stored/tmp/") { 4000 }
    else if path.starts_with("stored/ta/") { 2000 }
    else if path.starts_with("stored/rsync/") || path.starts_with("stored/rrdp/") { 1000 }
    else { 5000 }
}

/// Replaces temporary file names by their order of appearance.
fn normalise(ops: &[Op]) -> Vec<Op> {
    let mut names: Vec<String> = Vec::new();
    let mut norm = |p: &String| -> String {
        if class_of(p) != 4000 { return p.clone() }
        let idx = match names.iter().position(|n| n == p) {
            Some(idx) => idx,
            None => { names.push(p.clone()); names.len() - 1 }
        };
        format!("stored/tmp/#{idx}")
    };
    ops.iter().map(|op| match op {
        Op::Create(p) => Op::Create(norm(p)),
        Op::Write(p, n) => Op::Write(norm(p), *n),
        Op::Rename(p, q) => Op::Rename(norm(p), norm(q)),
        Op::Unlink(p) => Op::Unlink(norm(p)),
    }).collect()
}

/// Path numbering for the model: class base + index in order of appearance.
struct PathIds {
    ids: BTreeMap<String, usize>,
    next: BTreeMap<usize, usize>,
}

impl PathIds {
    fn new() -> Self { PathIds { ids: BTreeMap::new(), next: BTreeMap::new() } }
    fn get(&mut self, path: &str) -> usize {
        if let Some(id) = self.ids.get(path) { return *id }
        let class = class_of(path);
        let idx = self.next.entry(class).or_insert(0);
        let id = class + *idx;
        *idx += 1;
        self.ids.insert(path.to_string(), id);
        id
    }
}

//------------ The scenario ----------------------------------------------------

/// Everything prepared once per process and shared by all kill cases.
struct Prepared {
    lab: Lab,
    builder: Builder,
    /// The cache directory before the killed run (stored version 1, local
    /// copy already holding what `serve1` offers).
    base: PathBuf,
    base_sizes: BTreeMap<String, u64>,
    /// The uninterrupted run: operations, payload, cache listing after it.
    ref_ops: Vec<Op>,
    ref_payload: Vec<String>,
    ref_listing: BTreeMap<String, u64>,
    ref_counts: BTreeMap<String, usize>,
    ref_main_counts: BTreeMap<String, usize>,
    /// Kill points: (follow, syscall, when), from the cache-changing calls
    /// of the reference traces (each call and the call after it).
    kill_points: Vec<(bool, String, usize)>,
    /// The `openat` calls that create or truncate files in the cache.
    create_points: Vec<(bool, String, usize)>,
    /// What the harness expects the uninterrupted run to consist of.
    ref_steps: String,
    /// The point files (relative to the cache) holding a stored version
    /// after the uninterrupted run.
    versions: Vec<String>,
    /// The case (without the kill) this was prepared for.
    key: String,
    /// Crashed directory states whose follow-ups have been run already.
    seen_states: BTreeSet<String>,
    _bench: Bench,
}

/// Mirrors `tree` into the rsync collector's local copy.
fn prime_local(cache: &Path, tree: &ServerTree) {
    let base = cache.join("rsync");
    let mut modules: BTreeSet<PathBuf> = BTreeSet::new();
    for uri in tree.keys() {
        if let Some(rest) = uri.strip_prefix("rsync://") {
            let mut parts = rest.splitn(3, '/');
            if let (Some(host), Some(module)) = (parts.next(), parts.next()) {
                modules.insert(base.join(host).join(module));
            }
        }
    }
    for module in &modules {
        let _ = fs::remove_dir_all(module);
    }
    for (uri, bytes) in tree {
        if let Some(rest) = uri.strip_prefix("rsync://") {
            let path = base.join(rest);
            let _ = fs::create_dir_all(path.parent().unwrap());
            fs::write(&path, bytes).expect("write local copy");
        }
    }
}

fn case_key(case: &Case) -> String {
    let mut plain = case.clone();
    plain.kill = None;
    serde_json::to_string(&plain).unwrap_or_default()
}

fn prepare(case: &Case) -> Result<Prepared, String> {
    let start = std::time::Instant::now();
    let res = prepare_inner(case);
    T_PREP.fetch_add(start.elapsed().as_millis() as u64, std::sync::atomic::Ordering::Relaxed);
    res
}

fn prepare_inner(case: &Case) -> Result<Prepared, String> {
    let builder = Builder::new();
    let bench = Bench::new("c23");
    bench.install_tals(&builder, &case.world);
    rvcore::clock::set(NOW0, 0);
    if let Some(serve0) = case.serve0.as_ref() {
        bench.serve(&builder, &case.world, serve0);
        let out = bench.run(&EngineOpts::default());
        if !out.ok() { return Err(format!("preparing run ended with {}", out.status.as_str())) }
    }
    for name in &case.tamper {
        if let Some(ca) = case.world.ca(name) {
            rpkitest::store::tamper_cached(
                &bench.cache, &ca.mft_uri(), rpkitest::build::serial_from_hex("99"), TU + 99
            );
        }
    }
    let tree = builder.server_tree(&case.world, &case.serve1);
    prime_local(&bench.cache, &tree);
    let mut lab = Lab {
        exe: std::env::current_exe().map_err(|e| e.to_string())?,
        dir: bench.dir.join("lab"), tals: bench.tals.clone(), counter: 0,
    };
    fs::create_dir_all(&lab.dir).map_err(|e| e.to_string())?;
    let base = lab.dir.join("base");
    copy_dir(&bench.cache, &base);
    let base_sizes = list_dir(&base);
    // The uninterrupted run, traced.
    let cache = lab.fresh_dir("ref");
    copy_dir(&base, &cache);
    let res = lab.vrps(&cache, NOW1, &[], Some((true, None)));
    if res.code != Some(0) {
        return Err(format!("reference run failed: {:?} {}", res.code, res.stderr))
    }
    let parsed = parse_trace(&res.trace, &cache, true);
    let ref_payload = res.payload.ok_or("reference run produced no output")?;
    let ref_listing = list_dir(&cache);
    // Main-thread counts from a trace without -f.
    let cache2 = lab.fresh_dir("ref");
    copy_dir(&base, &cache2);
    let res2 = lab.vrps(&cache2, NOW1, &[], Some((false, None)));
    let parsed2 = parse_trace(&res2.trace, &cache2, false);
    let rejected: Vec<String> = case.tamper.iter().filter_map(|name| {
        case.world.ca(name).map(|ca| ca.mft_uri().trim_start_matches("rsync://").to_string())
    }).collect();
    let ref_steps = expected_steps(&base, &base_sizes, &ref_listing, &cache, &rejected);
    let versions: Vec<String> = rpkitest::store::dump_store(&cache).points.iter()
        .filter(|p| p.manifest.is_some()).map(|p| format!("stored/{}", p.path)).collect();
    let mut kill_points: BTreeSet<(bool, String, usize)> = BTreeSet::new();
    let mut create_points: Vec<(bool, String, usize)> = Vec::new();
    for (follow, parsed) in [(true, &parsed), (false, &parsed2)] {
        for (_, syscall, index) in &parsed.cache_calls {
            if !KILL_SYSCALLS.contains(&syscall.as_str()) { continue }
            // `openat` only creates; the state after it is reached at the
            // entry of the next write of the same thread (quick tier); the
            // thorough tier also kills at the creating `openat` itself.
            if syscall == "openat" {
                create_points.push((follow, syscall.clone(), *index));
                continue
            }
            kill_points.insert((follow, syscall.clone(), *index));
            kill_points.insert((follow, syscall.clone(), *index + 1));
        }
    }
    let _ = fs::remove_dir_all(&cache);
    let _ = fs::remove_dir_all(&cache2);
    Ok(Prepared {
        lab, builder, base, base_sizes,
        ref_ops: normalise(&parsed.ops), ref_payload, ref_listing,
        ref_counts: parsed.counts, ref_main_counts: parsed2.main_counts,
        kill_points: kill_points.into_iter().collect(), create_points,
        ref_steps, versions, key: case_key(case), seen_states: BTreeSet::new(),
        _bench: bench,
    })
}

/// What the harness expects the uninterrupted run to have done, in the
/// model's `steps=` format, from the cache listings before and after it.
fn expected_steps(
    base: &Path, base_sizes: &BTreeMap<String, u64>, ref_listing: &BTreeMap<String, u64>,
    cache_after: &Path, rejected: &[String],
) -> String {
    let mut counts: BTreeMap<&'static str, usize> = BTreeMap::new();
    let before = rpkitest::store::dump_store(base);
    let after = rpkitest::store::dump_store(cache_after);
    for point in &after.points {
        let old = before.points.iter().find(|p| p.path == point.path);
        let changed = old.map(|o| o.file_sha256 != point.file_sha256).unwrap_or(true);
        if !changed { continue }
        if point.manifest.is_some() {
            *counts.entry("replace/point").or_insert(0) += 1;
            // A point seen for the first time is created, and the header
            // of a never-successful point is refreshed (`LastAttempt`
            // header written in place) before it is updated.
            if old.map(|o| o.manifest.is_none()).unwrap_or(true) {
                *counts.entry("rewrite/point").or_insert(0) += 1
            }
            // An inconsistent stored copy is rejected (header rewritten in
            // place) before the fetched version is stored.
            if rejected.iter().any(|suffix| point.path.ends_with(suffix.as_str())) {
                *counts.entry("rewrite/point").or_insert(0) += 1
            }
        }
        else { *counts.entry("rewrite/point").or_insert(0) += 1 }
    }
    for (path, _) in base_sizes {
        if ref_listing.contains_key(path) { continue }
        let key = match class_of(path) {
            1000 => "remove/point", 2000 => "remove/ta", 3000 => "remove/status",
            4000 => "remove/tmp", _ => "remove/other",
        };
        *counts.entry(key).or_insert(0) += 1;
    }
    // One trust anchor certificate is downloaded and stored per run; the
    // status file is written at the end.
    *counts.entry("replace/ta").or_insert(0) += 1;
    *counts.entry("rewrite/status").or_insert(0) += 1;
    let order = [
        "replace/point", "rewrite/point", "remove/point", "replace/ta", "rewrite/ta", "remove/ta",
        "replace/status", "rewrite/status", "remove/status", "replace/other", "rewrite/other",
        "remove/other", "replace/tmp", "rewrite/tmp", "remove/tmp", "stray",
    ];
    order.iter().filter_map(|key| counts.get(key).map(|n| format!("{key}={n}")))
        .collect::<Vec<_>>().join(",")
}

fn render_ops(prep: &Prepared, k: usize) -> (String, PathIds) {
    let mut ids = PathIds::new();
    let inits: Vec<String> = prep.base_sizes.iter().filter(|(p, _)| {
        p.starts_with("stored/") || prep.ref_ops.iter().any(|op| match op {
            Op::Create(q) | Op::Write(q, _) | Op::Unlink(q) => q == *p,
            Op::Rename(a, b) => a == *p || b == *p,
        })
    }).map(|(p, size)| format!("( {} {} )", ids.get(p), size)).collect();
    let ops: Vec<String> = prep.ref_ops.iter().map(|op| match op {
        Op::Create(p) => format!("( c {} )", ids.get(p)),
        Op::Write(p, n) => format!("( w {} {} )", ids.get(p), n),
        Op::Rename(p, q) => format!("( r {} {} )", ids.get(p), ids.get(q)),
        Op::Unlink(p) => format!("( u {} )", ids.get(p)),
    }).collect();
    let versions: Vec<String> = prep.versions.iter()
        .filter_map(|p| ids.ids.get(p).map(|id| id.to_string())).collect();
    (format!("fscrash ( ( {} ) ( {} ) {k} ( {} ) )", inits.join(" "), ops.join(" "), versions.join(" ")), ids)
}

/// File sizes after the first `k` operations (the harness's own reading of
/// the operations, used only to locate the crash prefix).
fn simulate(base: &BTreeMap<String, u64>, ops: &[Op], k: usize) -> BTreeMap<String, u64> {
    let mut sizes = base.clone();
    for op in &ops[..k] {
        match op {
            Op::Create(p) => { sizes.insert(p.clone(), 0); }
            Op::Write(p, n) => { if let Some(size) = sizes.get_mut(p) { *size += *n as u64 } }
            Op::Rename(p, q) => { if let Some(size) = sizes.remove(p) { sizes.insert(q.clone(), size); } }
            Op::Unlink(p) => { sizes.remove(p); }
        }
    }
    sizes
}

/// The smallest prefix of the reference operations that explains the
/// non-temporary files of the crashed directory.
fn locate_prefix(prep: &Prepared, cache: &Path) -> Option<usize> {
    let tracked = |m: &BTreeMap<String, u64>| -> BTreeMap<String, u64> {
        m.iter().filter(|(p, _)| class_of(p) != 4000 && !p.starts_with("rsync/") || prep.ref_ops.iter().any(|op| matches!(op, Op::Unlink(q) if q == *p)))
            .map(|(p, s)| (p.clone(), *s)).collect()
    };
    let actual = tracked(&list_dir(cache));
    (0..=prep.ref_ops.len()).find(|k| tracked(&simulate(&prep.base_sizes, &prep.ref_ops, *k)) == actual)
}

fn actual_state(ids: &PathIds, cache: &Path) -> String {
    let listing = list_dir(cache);
    let mut items: Vec<(usize, String)> = ids.ids.iter().filter(|(_, id)| **id / 1000 != 4).map(|(path, id)| {
        (*id, match listing.get(path) {
            Some(size) => format!("{id}:{size}"),
            None => format!("{id}:-"),
        })
    }).collect();
    items.sort();
    items.into_iter().map(|(_, s)| s).collect::<Vec<_>>().join(",")
}

//------------ Oracle -----------------------------------------------------------

/// Per CA: the payload of each of its versions.
fn ca_payloads(world: &World) -> Vec<(String, Vec<BTreeSet<String>>)> {
    world.cas.iter().map(|ca| {
        (ca.name.clone(), ca.versions.iter().map(|v| {
            v.objects.iter().flat_map(truth::obj_payload).collect::<BTreeSet<String>>()
        }).collect())
    }).collect()
}

/// Every CA contributes the payload of one of its versions, or (if its
/// stored data is expired or it is unreachable) nothing.
fn old_or_new(world: &World, must_have: &[String], served: &[String]) -> Result<(), String> {
    let served: BTreeSet<String> = served.iter().cloned().collect();
    let mut explained = BTreeSet::new();
    for (name, versions) in ca_payloads(world) {
        let universe: BTreeSet<String> = versions.iter().flatten().cloned().collect();
        let mine: BTreeSet<String> = served.intersection(&universe).cloned().collect();
        explained.extend(mine.iter().cloned());
        if mine.is_empty() && !must_have.contains(&name) { continue }
        if !versions.iter().any(|v| *v == mine) {
            return Err(format!("{name} contributes {mine:?}, which is none of its versions {versions:?}"))
        }
    }
    if explained != served {
        return Err(format!("unexplained payload {:?}", served.difference(&explained).collect::<Vec<_>>()))
    }
    Ok(())
}

fn run_input(ctx: &mut Ctx, pool: &mut BTreeMap<String, Prepared>, input: &Value) {
    let case: Case = match serde_json::from_value(input.clone()) {
        Ok(case) => case,
        Err(err) => {
            ctx.oracle_fail("bad-input", &format!("{err}"), input, json!(null));
            return
        }
    };
    let key = case_key(&case);
    if !pool.contains_key(&key) {
        match prepare(&case) {
            Ok(prep) => { pool.insert(key.clone(), prep); }
            Err(err) => {
                ctx.oracle_fail("setup-failed", &err, input, json!(null));
                return
            }
        }
    }
    let prep = pool.get_mut(&key).unwrap();
    let Some(kill) = case.kill.as_ref() else {
        // The reference case: trace shape against the expectation.
        let cache = prep.lab.fresh_dir("shape");
        copy_dir(&prep.base, &cache);
        let res = prep.lab.vrps(&cache, NOW1, &[], None);
        if res.code != Some(0) || res.payload.as_ref() != Some(&prep.ref_payload) {
            ctx.oracle_fail(
                "uninterrupted-run-unstable",
                &format!("a second uninterrupted run gave {:?} {:?}", res.code, res.payload),
                input, json!({"stderr": res.stderr})
            );
        }
        let (op, ids) = render_ops(prep, prep.ref_ops.len());
        let imp = format!("steps={} state={}", prep.ref_steps, actual_state(&ids, &cache));
        ctx.count_n("reference:cache-operations", prep.ref_ops.len() as u64);
        ctx.case(input, &op, &imp);
        let _ = fs::remove_dir_all(&cache);
        return
    };

    // The killed run.
    let cache = prep.lab.fresh_dir("kill");
    copy_dir(&prep.base, &cache);
    let start = std::time::Instant::now();
    let res = prep.lab.vrps(&cache, NOW1, &[], Some((kill.follow, Some((&kill.syscall, kill.when)))));
    T_KILL.fetch_add(start.elapsed().as_millis() as u64, std::sync::atomic::Ordering::Relaxed);
    let parsed = parse_trace(&res.trace, &cache, kill.follow);
    if !parsed.killed {
        // The kill point does not exist (any more): nothing to check.
        ctx.count("kill:not-reached");
        ctx.case_oracle_only(input, &format!("not-reached exit={:?}", res.code));
        let _ = fs::remove_dir_all(&cache);
        return
    }
    let done = normalise(&parsed.ops);
    // With -f the trace tells how far the run got; a trace of the main thread alone
    // does not show the validation thread's operations: locate the prefix by the files.
    let from_trace = kill.follow && done.len() <= prep.ref_ops.len()
        && done[..] == prep.ref_ops[..done.len()];
    let located = if from_trace { Some(done.len()) } else { locate_prefix(prep, &cache) };
    let k = located.unwrap_or(done.len());
    ctx.count(&format!("kill:{}:{}", if kill.follow { "all-threads" } else { "main-thread" }, kill.syscall));
    let detail = |what: Value| json!({
        "kill": to_json(kill), "completed_cache_operations": k,
        "last_operations": done.iter().rev().take(4).map(|o| format!("{o:?}")).collect::<Vec<_>>(),
        "detail": what,
    });
    let tmp_files = list_dir(&cache).keys().filter(|p| class_of(p) == 4000).count();
    let signature = {
        let (_, ids) = render_ops(prep, 0);
        format!("{} tmp={tmp_files}", actual_state(&ids, &cache))
    };
    let known = !prep.seen_states.insert(signature);
    if known {
        ctx.count("kill:state-seen-before");
    }
    else {
        ctx.nontrivial(format!("prefix {k} tmp {tmp_files}"));
    }

    // Follow-ups, each on its own copy of the crashed cache directory.
    let followups: [(&str, &[&str]); 3] = [
        ("vrps --update-after", &["--update-after", "600"]),
        ("vrps", &[]),
        ("vrps --noupdate", &["--noupdate"]),
    ];
    for (label, extra) in followups {
        if known { break }
        let copy = prep.lab.fresh_dir("follow");
        copy_dir(&cache, &copy);
        let start = std::time::Instant::now();
        let res = prep.lab.vrps(&copy, NOW1, extra, None);
        T_FOLLOW.fetch_add(start.elapsed().as_millis() as u64, std::sync::atomic::Ordering::Relaxed);
        let _ = fs::remove_dir_all(&copy);
        let slug = label.replace(' ', "").replace("--", "-");
        if res.code != Some(0) {
            ctx.oracle_fail(
                &format!("followup-failed:{slug}"),
                &format!(
                    "after a kill at the {}. {} ({} cache operations completed) `{label}` exits with {:?}",
                    kill.when, kill.syscall, k, res.code
                ),
                input, detail(json!({"stderr": res.stderr}))
            );
            continue
        }
        let payload = res.payload.unwrap_or_default();
        if label == "vrps" {
            if payload != prep.ref_payload {
                ctx.oracle_fail(
                    "payload-differs-after-crash",
                    &format!(
                        "after a kill at the {}. {} the next run serves {:?}, an uninterrupted run {:?}",
                        kill.when, kill.syscall, payload, prep.ref_payload
                    ),
                    input, detail(json!(null))
                );
            }
            else { ctx.count("followup:normal-run-same-payload") }
        }
        else if let Err(why) = old_or_new(&case.world, &case.must_have, &payload) {
            ctx.oracle_fail(
                &format!("not-old-or-new:{slug}"),
                &format!(
                    "after a kill at the {}. {} ({} cache operations completed) `{label}`: {why}",
                    kill.when, kill.syscall, k
                ),
                input, detail(json!({"payload": payload}))
            );
        }
        else { ctx.count(&format!("followup:{slug}:old-or-new")) }
    }

    if located.is_some() {
        let (op, ids) = render_ops(prep, k);
        // `steps=` describes the whole reference trace; the state is the
        // crashed directory.
        let imp = format!("steps={} state={}", prep.ref_steps, actual_state(&ids, &cache));
        ctx.case(input, &op, &imp);
    }
    else {
        ctx.count("kill:trace-diverged");
        ctx.case_oracle_only(input, &format!("diverged after {k} operations"));
    }
    let _ = fs::remove_dir_all(&cache);
}

fn generate(ctx: &mut Ctx, pool: &mut BTreeMap<String, Prepared>) -> Vec<Value> {
    let world = world();
    let ra = vec!["root".to_string(), "a".to_string()];
    // Quick and thorough: (A) a filled store — root and a updated, b's stored copy rejected
    // and replaced, n (so far only a LastAttempt header) stores its first, large version,
    // e and g expire; (B) the very first run on an empty cache directory.
    let base = Case {
        world: world.clone(), serve0: Some(serve(0, 0, 0, 0, true)), serve1: serve(1, 1, 1, 1, false),
        tamper: vec!["b".into()], must_have: ra.clone(), kill: None,
    };
    let first = Case {
        world: world.clone(), serve0: None, serve1: serve(0, 0, 0, 1, true),
        tamper: vec![], must_have: vec![], kill: None,
    };
    let unchanged = Case {
        world: world.clone(), serve0: Some(serve(1, 1, 1, 1, false)), serve1: serve(1, 1, 1, 1, false),
        tamper: vec![], must_have: vec!["root".into(), "a".into(), "b".into(), "n".into()], kill: None,
    };
    let thorough = !ctx.quick();
    let scenarios = if thorough { vec![base, first, unchanged] } else { vec![base, first] };
    let mut cases = Vec::new();
    for (idx, scenario) in scenarios.iter().enumerate() {
        cases.push(to_json(scenario));
        // Kill points are enumerated from the trace of the current code.
        let key = case_key(scenario);
        if !pool.contains_key(&key) {
            match prepare(scenario) {
                Ok(prep) => { pool.insert(key.clone(), prep); }
                Err(err) => {
                    ctx.oracle_fail("setup-failed", &err, cases.last().unwrap(), json!(null));
                    continue
                }
            }
        }
        let prep = &pool[&key];
        let mut kills: BTreeSet<(bool, String, usize)> = BTreeSet::new();
        // Every cache-changing call and the call after it.
        kills.extend(prep.kill_points.iter().cloned());
        if thorough {
            // The creating `openat` calls, and for the first scenario every
            // occurrence of every other injectable syscall.
            kills.extend(prep.create_points.iter().cloned());
            if idx == 0 {
                for follow in [false, true] {
                    let counts = if follow { &prep.ref_counts } else { &prep.ref_main_counts };
                    for syscall in KILL_SYSCALLS {
                        if syscall == "openat" { continue }
                        for when in 1..=counts.get(syscall).copied().unwrap_or(0) {
                            kills.insert((follow, syscall.to_string(), when));
                        }
                    }
                }
            }
        }
        for (follow, syscall, when) in kills {
            let mut case = scenario.clone();
            case.kill = Some(Kill { follow, syscall, when });
            cases.push(to_json(&case));
        }
    }
    cases
}

static T_KILL: std::sync::atomic::AtomicU64 = std::sync::atomic::AtomicU64::new(0);
static T_FOLLOW: std::sync::atomic::AtomicU64 = std::sync::atomic::AtomicU64::new(0);
static T_PREP: std::sync::atomic::AtomicU64 = std::sync::atomic::AtomicU64::new(0);

pub fn run_c23(ctx: &mut Ctx) {
    ctx.rule = "scenario A (filled store): version 1 of root/a/b/e/g stored, n only a LastAttempt \
        header, b's stored copy made inconsistent; the killed run stores new versions of root and a, \
        rejects and replaces b, stores the FIRST version of n (40 ROAs, 70 kB: many buffer flushes), \
        unlinks expired e and g and g's rsync module, rewrites the trust anchor certificate and the \
        status file. Scenario B: the very first run on an EMPTY cache directory (every point file \
        is created, then receives its first version). Thorough adds a run without changes and \
        every occurrence of every injectable syscall. Kill points = every cache-changing write / \
        pwrite64 / rename* / unlink* / ftruncate / copy_file_range call (to temporary AND final \
        files) and the call after it, enumerated from the strace of the current code, once for the \
        main thread (strace without -f) and once for the validation thread (strace -f). The \
        collector's local copy is the same for the killed run and the follow-ups (vrps \
        --update-after, vrps, vrps --noupdate, fresh processes on copies of the crashed cache). \
        Non-trivial = distinct crashed directory state".into();
    let mut prepared: BTreeMap<String, Prepared> = BTreeMap::new();
    let inputs = match ctx.replay_inputs() {
        Some(inputs) => inputs,
        None => {
            let mut inputs = ctx.corpus("C23");
            inputs.extend(generate(ctx, &mut prepared));
            inputs
        }
    };
    for input in inputs {
        run_input(ctx, &mut prepared, &input);
    }
    for (idx, prep) in prepared.values().enumerate() {
        ctx.extra(
            &format!("reference_operations_{idx}"),
            json!(prep.ref_ops.iter().map(|o| format!("{o:?}")).collect::<Vec<_>>())
        );
        let _ = (&prep.builder, &prep.key);
    }
    ctx.extra("milliseconds", json!({
        "prepare": T_PREP.load(std::sync::atomic::Ordering::Relaxed),
        "killed_runs": T_KILL.load(std::sync::atomic::Ordering::Relaxed),
        "followups": T_FOLLOW.load(std::sync::atomic::Ordering::Relaxed),
    }));
}
