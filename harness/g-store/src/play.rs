//! Scenario execution for the store group: `rpkitest::scenario::play_on`
//! extended by file-level tampering before a run (garbage / removed point
//! files) and a file-level dump of the store after every run (header kind
//! and time of every stored point file, objects in file order).

use std::collections::BTreeMap;
use std::fs;
use std::path::{Path, PathBuf};
use serde::{Deserialize, Serialize};
use serde_json::{json, Value};
use routinator::store::StoredPoint;
use rpkitest::build::{hex_encode, sha256, Builder};
use rpkitest::model::Encoder;
use rpkitest::scenario::{install_order, local_copy, Order, RunObs, Scenario};
use rpkitest::store::list_dir;
use rpkitest::*;

/// File-level tampering with the stored point of CA `ca` before a run.
#[derive(Clone, Debug, Deserialize, Eq, PartialEq, Serialize)]
pub enum ExtraKind {
    /// Overwrite the file with bytes that are not a stored point.
    Garbage,
    /// Remove the file.
    Remove,
    /// Put a directory where the file belongs (opening the stored point
    /// then fails with an I/O error, which is fatal for the run).
    Dir,
}

#[derive(Clone, Debug, Deserialize, Eq, PartialEq, Serialize)]
pub struct Extra {
    pub ca: String,
    pub kind: ExtraKind,
}

/// A scenario plus per-run file-level tampering.
#[derive(Clone, Debug, Deserialize, Serialize)]
pub struct XScenario {
    pub scenario: Scenario,
    /// One list per run (missing lists are empty).
    #[serde(default)]
    pub extras: Vec<Vec<Extra>>,
    /// Run `ValidationReport::process` itself (process, cleanup, done)
    /// instead of `Bench::run`'s replica.
    #[serde(default)]
    pub real_process: bool,
}

impl XScenario {
    pub fn extras_of(&self, run: usize) -> &[Extra] {
        self.extras.get(run).map(|v| v.as_slice()).unwrap_or(&[])
    }
}

/// The header kind of a stored point file.
#[derive(Clone, Debug, Eq, PartialEq)]
pub enum FileKind {
    /// `load_quietly` refuses the file.
    Garbage,
    /// `LastAttempt(t)`.
    Attempt(i64),
    /// `Success(t)`.
    Success(i64),
}

/// One file below `stored/rsync` or `stored/rrdp`.
#[derive(Clone, Debug)]
pub struct FileDump {
    /// Path relative to `<cache>/stored`.
    pub path: String,
    /// Manifest URI from the path (`rsync://…`).
    pub uri: String,
    pub kind: FileKind,
    pub sha256: String,
}

/// The module directories `<cache>/rsync/<host>/<module>` that exist.
pub fn list_modules(cache: &Path) -> Vec<String> {
    let mut res = Vec::new();
    let Ok(hosts) = fs::read_dir(cache.join("rsync")) else { return res };
    for host in hosts.filter_map(|e| e.ok()) {
        let Ok(modules) = fs::read_dir(host.path()) else { continue };
        for module in modules.filter_map(|e| e.ok()) {
            if module.path().is_dir() {
                res.push(format!(
                    "{}/{}", host.file_name().to_string_lossy(), module.file_name().to_string_lossy()
                ));
            }
        }
    }
    res.sort();
    res
}

/// One complete validation run through the real `ValidationReport::process`
/// (`engine.start`, `run.process()?`, `run.cleanup()?`, `run.done()`).
pub fn run_process(bench: &Bench, opts: &EngineOpts) -> RunOutput {
    use routinator::engine::Engine;
    use routinator::payload::ValidationReport;
    use routinator::slurm::LocalExceptions;
    use rpkitest::runner::{snapshot_strings, MetricsSummary};
    let log_before = fs::read_to_string(&bench.rsync_log).map(|s| s.lines().count()).unwrap_or(0);
    let config = bench.config(opts);
    let mut out = RunOutput {
        status: RunStatus::Ok,
        origins: Vec::new(), router_keys: Vec::new(), aspas: Vec::new(),
        refresh: None, metrics: Default::default(),
        rsync_log: Vec::new(), elapsed_ms: 0,
    };
    let finish = |mut out: RunOutput| {
        out.rsync_log = fs::read_to_string(&bench.rsync_log).map(|s| {
            s.lines().skip(log_before)
                .map(|l| l.replace(&*bench.dir.to_string_lossy(), "$B")).collect()
        }).unwrap_or_default();
        out
    };
    let mut engine = match Engine::new(&config, opts.update) {
        Ok(engine) => engine,
        Err(_) => { out.status = RunStatus::SetupFailed("new"); return finish(out) }
    };
    if engine.ignite().is_err() {
        out.status = RunStatus::SetupFailed("ignite");
        return finish(out)
    }
    match ValidationReport::process(&engine, &config, false) {
        Ok((report, mut metrics)) => {
            let snapshot = report.into_snapshot(&LocalExceptions::empty(), &mut metrics);
            let (origins, keys, aspas) = snapshot_strings(&snapshot);
            out.origins = origins;
            out.router_keys = keys;
            out.aspas = aspas;
            out.refresh = snapshot.refresh().map(|t| t.timestamp());
            out.metrics = MetricsSummary::from_metrics(&metrics);
        }
        Err(err) => {
            out.status = if err.is_fatal() { RunStatus::Fatal } else { RunStatus::Retry };
        }
    }
    finish(out)
}

pub fn point_path(cache: &Path, mft_uri: &str) -> PathBuf {
    cache.join("stored").join("rsync").join("rsync")
        .join(mft_uri.trim_start_matches("rsync://"))
}

pub fn dump_files(cache: &Path) -> Vec<FileDump> {
    let base = cache.join("stored");
    let mut res = Vec::new();
    for (rel, _) in list_dir(&base) {
        if !(rel.starts_with("rsync/") || rel.starts_with("rrdp/")) { continue }
        let path = base.join(&rel);
        let raw = fs::read(&path).unwrap_or_default();
        let kind = match StoredPoint::load_quietly(path.clone()) {
            None => FileKind::Garbage,
            Some(point) => {
                let (_, _, success, time) = point.verif_header().verif_parts();
                if success { FileKind::Success(time.timestamp()) }
                else { FileKind::Attempt(time.timestamp()) }
            }
        };
        let uri = match rel.strip_prefix("rsync/rsync/") {
            Some(rest) => format!("rsync://{rest}"),
            None => rel.clone(),
        };
        res.push(FileDump { path: rel, uri, kind, sha256: hex_encode(&sha256(&raw)) });
    }
    res
}

/// Everything observed in and after one run.
#[derive(Clone)]
pub struct XObs {
    pub obs: RunObs,
    /// The store right before the run if it was tampered with after the
    /// previous run.
    pub pre_store: Option<rpkitest::store::StoreDump>,
    pub files: Vec<FileDump>,
    /// Listing of the whole cache directory after the run: path → size.
    pub listing: BTreeMap<String, u64>,
    /// The rsync collector's module directories after the run
    /// (`host/module`).
    pub modules: Vec<String>,
}

impl XObs {
    pub fn file(&self, mft_uri: &str) -> Option<&FileDump> {
        self.files.iter().find(|f| f.uri == mft_uri)
    }

    pub fn to_json(&self) -> Value {
        json!({
            "out": self.obs.out.to_json(),
            "store": self.obs.store.to_json(),
            "files": self.files.iter().map(|f| json!([f.uri, format!("{:?}", f.kind), &f.sha256[..16]])).collect::<Vec<_>>(),
        })
    }
}

pub fn obs_json(obs: &[XObs]) -> Value {
    json!(obs.iter().map(|o| o.to_json()).collect::<Vec<_>>())
}

fn apply_extra(bench: &Bench, world: &World, extra: &Extra) {
    let Some(ca) = world.ca(&extra.ca) else { return };
    let path = point_path(&bench.cache, &ca.mft_uri());
    match extra.kind {
        ExtraKind::Garbage => {
            if let Some(dir) = path.parent() { let _ = fs::create_dir_all(dir); }
            let _ = fs::write(&path, b"\x07this is not a stored point");
        }
        ExtraKind::Remove => { let _ = fs::remove_file(&path); }
        ExtraKind::Dir => {
            let _ = fs::remove_file(&path);
            let _ = fs::create_dir_all(&path);
        }
    }
}

/// Host names in rsync URIs are case-insensitive: routinator keeps its
/// local copy and its store under the lower-cased host. Gives a URI read
/// back from the cache directory the spelling the world uses for that CA.
pub fn spell(world: &World, uri: &str) -> String {
    for ca in &world.cas {
        if uri.len() >= ca.repo.len() && uri.is_char_boundary(ca.repo.len())
            && uri[..ca.repo.len()].eq_ignore_ascii_case(&ca.repo)
        {
            return format!("{}{}", ca.repo, &uri[ca.repo.len()..])
        }
    }
    uri.to_string()
}

/// The fake rsync is asked for the canonical (lower-case) module URI: make
/// server directories of mixed-case hosts reachable under that name too.
fn alias_lower_case_hosts(server: &Path) {
    let Ok(read) = fs::read_dir(server) else { return };
    for entry in read.filter_map(|e| e.ok()) {
        let name = entry.file_name().to_string_lossy().into_owned();
        let lower = name.to_ascii_lowercase();
        if lower != name && entry.path().is_dir() {
            copy_dir(&entry.path(), &server.join(lower));
        }
    }
}

/// Plays runs `from..` of `xs` on `bench` (which holds the state after the
/// runs before `from`).
pub fn play_on(bench: &Bench, builder: &Builder, xs: &XScenario, from: usize) -> Vec<XObs> {
    let scn = &xs.scenario;
    bench.install_tals(builder, &scn.world);
    let mut res = Vec::new();
    for (idx, run) in scn.runs.iter().enumerate().skip(from) {
        rvcore::clock::set(run.now, 0);
        for tamper in &run.tamper {
            if let Some(ca) = scn.world.ca(&tamper.ca) {
                rpkitest::store::tamper_cached(
                    &bench.cache, &ca.mft_uri(),
                    rpkitest::build::serial_from_hex(&tamper.number), tamper.this_update
                );
            }
        }
        for extra in xs.extras_of(idx) {
            apply_extra(bench, &scn.world, extra);
        }
        let pre_store = if run.tamper.is_empty() && xs.extras_of(idx).is_empty() { None }
            else { Some(bench.store()) };
        let served = bench.serve(builder, &scn.world, &run.serve);
        alias_lower_case_hosts(&bench.server);
        install_order(&run.order);
        let mut opts = scn.opts.clone();
        if let Some(update) = run.update { opts.update = update }
        let out = if xs.real_process { run_process(bench, &opts) } else { bench.run(&opts) };
        install_order(&Order::Random);
        res.push(XObs {
            obs: RunObs {
                out, store: bench.store(),
                local: local_copy(bench).into_iter().map(|(uri, bytes)| (spell(&scn.world, &uri), bytes)).collect(),
                served,
            },
            pre_store,
            files: dump_files(&bench.cache),
            listing: bench.cache_listing(),
            modules: list_modules(&bench.cache),
        });
    }
    res
}

pub fn copy_dir(from: &Path, to: &Path) {
    let _ = fs::create_dir_all(to);
    let Ok(read) = fs::read_dir(from) else { return };
    for entry in read.filter_map(|e| e.ok()) {
        let path = entry.path();
        let target = to.join(entry.file_name());
        if path.is_dir() { copy_dir(&path, &target) }
        else { let _ = fs::copy(&path, &target); }
    }
}

/// Plays scenarios, remembering cache directory and observations after a
/// common prefix of runs (cf. `rpkitest::scenario::Player`).
pub struct XPlayer {
    pub builder: Builder,
    keep: Bench,
    memo: BTreeMap<String, (PathBuf, Vec<XObs>)>,
}

impl XPlayer {
    pub fn new() -> Self {
        XPlayer { builder: Builder::new(), keep: Bench::new("memo"), memo: BTreeMap::new() }
    }

    pub fn play(&mut self, xs: &XScenario, prefix: usize) -> Vec<XObs> {
        let prefix = prefix.min(xs.scenario.runs.len());
        let bench = Bench::new("scn");
        if prefix == 0 {
            return play_on(&bench, &self.builder, xs, 0)
        }
        let mut head = xs.clone();
        head.scenario.runs.truncate(prefix);
        head.extras.truncate(prefix);
        let key = serde_json::to_string(&head).unwrap();
        if !self.memo.contains_key(&key) {
            let obs = play_on(&bench, &self.builder, &head, 0);
            let saved = self.keep.dir.join(format!("m{}", self.memo.len()));
            copy_dir(&bench.cache, &saved);
            self.memo.insert(key.clone(), (saved, obs));
        }
        else {
            copy_dir(&self.memo[&key].0, &bench.cache);
        }
        let mut obs = self.memo[&key].1.clone();
        obs.extend(play_on(&bench, &self.builder, xs, prefix));
        obs
    }
}

/// The request for the Lean component `store` and the implementation's
/// behaviour in the model's output format.
pub fn render(builder: &Builder, xs: &XScenario, obs: &[XObs]) -> (String, String) {
    let scn = &xs.scenario;
    let mut enc = Encoder::new(builder, scn);
    let plain: Vec<RunObs> = obs.iter().map(|o| o.obs.clone()).collect();
    let request = enc.request(&plain);
    let mut extras = Vec::new();
    for idx in 0..scn.runs.len() {
        let items: Vec<String> = xs.extras_of(idx).iter().filter_map(|e| {
            let ca = scn.world.ca(&e.ca)?;
            let kind = match e.kind { ExtraKind::Garbage => 0, ExtraKind::Remove => 1, ExtraKind::Dir => 2 };
            Some(format!("( {} {} )", enc.uris.get(&ca.mft_uri()), kind))
        }).collect();
        extras.push(format!("( {} )", items.join(" ")));
    }
    let op = format!("store ( {request} ( {} ) )", extras.join(" "));

    let mut runs = Vec::new();
    for ob in obs {
        if !ob.obs.out.ok() {
            runs.push(format!("status={}", ob.obs.out.status.as_str()));
            continue
        }
        let mut items: Vec<usize> = ob.obs.out.payload().iter().map(|p| {
            enc.items.known(p).unwrap_or_else(|| 1_000_000 + enc.items.get(p))
        }).collect();
        items.sort();
        items.dedup();
        let mut files = Vec::new();
        for file in &ob.files {
            let id = enc.uris.get(&spell(&scn.world, &file.uri));
            let text = match file.kind {
                FileKind::Garbage => format!("{id}:G"),
                FileKind::Attempt(t) => format!("{id}:A{t}"),
                FileKind::Success(t) => {
                    let point = ob.obs.store.points.iter().find(|p| p.path == file.path);
                    match point.and_then(|p| p.manifest.as_ref().map(|m| (p, m))) {
                        None => format!("{id}:?"),
                        Some((point, m)) => {
                            let objs: Vec<String> = point.objects.iter().map(|o| {
                                let name = o.uri.strip_prefix(m.ca_repository.as_str()).unwrap_or(&o.uri);
                                format!("{}/{}", enc.names.get(name), enc.hashes.bytes(&o.content))
                            }).collect();
                            format!(
                                "{id}:S{t}:{}:{}:{}:{}:{}{}", enc.hashes.bytes(&m.manifest),
                                m.number, m.this_update, m.not_after, objs.join(","),
                                if point.objects_error { "!" } else { "" }
                            )
                        }
                    }
                }
            };
            files.push((id, text));
        }
        files.sort();
        let mut tas = Vec::new();
        for tal in &scn.world.tals {
            for uri in &tal.uris {
                let path = rpkitest::model::ta_store_path(uri);
                if let Some(bytes) = ob.obs.store.tas.get(&path) {
                    tas.push((enc.uris.get(uri), enc.hashes.bytes(bytes)));
                }
            }
        }
        tas.sort();
        tas.dedup();
        runs.push(format!(
            "i={} f={} t={} x=1",
            items.iter().map(|i| i.to_string()).collect::<Vec<_>>().join(","),
            files.iter().map(|(_, s)| s.clone()).collect::<Vec<_>>().join(";"),
            tas.iter().map(|(u, h)| format!("{u}:{h}")).collect::<Vec<_>>().join(";"),
        ));
    }
    (op, runs.join(" | "))
}
