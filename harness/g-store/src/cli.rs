//! The routinator command line, replicated from /repo/src/main.rs (cf.
//! harness/g-server/src/cli.rs) so that the harness binary, built with the
//! hook feature and the fake clock, can be run as the real commands in a
//! child process: `rv-store routinator <args…>`. `RV_CLOCK=<unix seconds>`
//! sets the fake clock of the child, `RV_SORTED=1` fixes the processing order of
//! manifest entries.

use std::env::current_dir;
use clap::Command;
use log::error;
use routinator::{Config, ExitError, Operation};

fn _main(args: &[String]) -> Result<(), ExitError> {
    Operation::prepare()?;
    let cur_dir = match current_dir() {
        Ok(dir) => dir,
        Err(err) => {
            error!("Fatal: cannot get current directory ({err}). Aborting.");
            return Err(ExitError::Generic);
        }
    };
    let mut argv = vec!["routinator".to_string()];
    argv.extend(args.iter().cloned());
    let matches = Operation::config_args(Config::config_args(
        Command::new("Routinator")
            .version("verif")
            .about("collects and processes RPKI repository data")
    )).get_matches_from(argv);
    let mut config = Config::from_arg_matches(&matches, &cur_dir)?;
    let operation = Operation::from_arg_matches(&matches, &cur_dir, &mut config)?;
    operation.run(config)
}

pub fn routinator_main(args: &[String]) -> i32 {
    if let Ok(clock) = std::env::var("RV_CLOCK") {
        if let Ok(secs) = clock.parse::<i64>() {
            rvcore::clock::set(secs, 0);
        }
    }
    if std::env::var("RV_SORTED").is_ok() {
        // Process manifest entries in file name order instead of the random
        // shuffle, so that repeated runs perform the same operations in the
        // same order.
        routinator::verif::set_permute_handler(Some(std::sync::Arc::new(
            |n| Some((0..n).collect())
        )));
    }
    match _main(args) {
        Ok(_) => 0,
        Err(ExitError::Generic) => 1,
        Err(ExitError::IncompleteUpdate) => 2,
        Err(ExitError::Invalid) => 3,
    }
}
