//! C04: the store holds only complete, verified publication points.
//!
//! Histories of publication point versions with every kind of fetch fault
//! (listed file missing / wrong hash at every position; manifest missing,
//! corrupt, badly signed, expired, not yet valid, premature, stale; CRL
//! missing, corrupt, unlisted, badly signed, stale, revoking the manifest;
//! rsync failing or delivering only the first k files) played against the
//! real engine. After every run the stored point files are decoded and
//! compared with the state before the run; every online run is followed by
//! an offline run (no collector) that must reproduce the payload.

use std::collections::BTreeSet;
use rpkitest::gen::*;
use rpkitest::scenario::{Order, RunSpec, Scenario, Tamper};
use rpkitest::*;
use rvcore::Ctx;
use serde_json::{json, Value};
use crate::common::*;
use crate::play::*;

const TU: i64 = T0 - HOUR;
const NOW1: i64 = T0;
const NOW2: i64 = T0 + 900;
const NOW3: i64 = T0 + 1800;
const FAR: i64 = T0 + 30 * DAY;

/// Payload objects of version `v` of CA `focus`: same names in every
/// version, different content.
///
/// Besides the payload objects every version lists one file of each kind the
/// engine tolerates without processing it: a second CRL (`old.crl`, a valid
/// CRL of the CA, as left over from a key rollover), a Ghostbusters record
/// and a file of unknown type. They are listed files like any other: the
/// version may only be stored if they are present with the listed hash.
fn objects(focus: &str, v: u32, rich: bool, old_crl: &[u8]) -> Vec<ObjSpec> {
    let (asn, pfx) = if focus == "root" { (64500 + v * 10, format!("192.{v}")) }
        else { (65000 + v * 10, format!("10.1.{}", v * 16)) };
    let pfx = |i: u32| if focus == "root" { format!("{pfx}.{i}.0/24") } else {
        format!("10.1.{}.0/24", v * 16 + i)
    };
    let serial = (v * 100) as u64;
    let mut res = vec![roa("a.roa", serial + 1, asn, &pfx(0), None)];
    if rich {
        res.push(aspa("m.asa", serial + 2, asn + 1, &[asn + 2, asn + 3]));
    }
    else {
        res.push(roa("m.roa", serial + 2, asn + 1, &pfx(1), None));
    }
    res.push(roa("z.roa", serial + 3, asn + 2, &pfx(2), None));
    res.push(raw("old.crl", old_crl));
    res.push(gbr("info.gbr", serial + 4));
    res.push(raw("readme.txt", format!("version {v} of {focus}").as_bytes()));
    res
}

/// Position of `old.crl` among the objects of the child CA's versions.
const OLD_CRL_POS: usize = 3;

/// Another valid CRL (served in place of `old.crl` by the "replaced" fault).
static ALT_CRL: std::sync::OnceLock<Vec<u8>> = std::sync::OnceLock::new();

fn stray_crl(builder: &Builder, ca: &CaSpec, number: u64) -> Vec<u8> {
    builder.crl(ca, &CrlSpec {
        this_update: TU - DAY, next_update: FAR, number,
        revoked: vec![4242], fault: Fault::None, publish: Publish::Normal,
    })
}

/// A fault applied to version 2 of the focus CA (or to the transport).
#[derive(Clone, Debug)]
struct FaultCase {
    label: String,
    /// Edits the version.
    edit: fn(&mut PointVersion, usize),
    arg: usize,
    /// Scripted rsync behaviour for the focus CA's module in the faulty run.
    rsync: Option<RsyncMode>,
    /// Is the version acceptable after all (boundary cases)?
    good: bool,
    stale: Policy,
    /// Run with cleanup (off for the case whose version expires at "now":
    /// cleanup removes it in the same second, see notes/C40.md).
    cleanup: bool,
}

fn fc(label: &str, edit: fn(&mut PointVersion, usize), arg: usize) -> FaultCase {
    FaultCase {
        label: format!("{label}{}", if arg == usize::MAX { String::new() } else { format!("@{arg}") }),
        edit, arg, rsync: None, good: false, stale: Policy::Reject, cleanup: true,
    }
}

fn fault_cases(n_objs: usize, thorough: bool) -> Vec<FaultCase> {
    let none = usize::MAX;
    let mut res = Vec::new();
    // Listed files, every position.
    for j in 0..n_objs {
        res.push(fc("obj-missing", |v, j| v.objects[j].publish = Publish::Missing, j));
        res.push(fc("obj-corrupt", |v, j| v.objects[j].publish = Publish::Corrupt, j));
        if j == 0 || j == OLD_CRL_POS || j == OLD_CRL_POS + 1 || thorough {
            res.push(fc("obj-replaced", |v, j| {
                let name = v.objects[j].name.clone();
                let other = if name.ends_with(".crl") {
                    // another valid CRL of a CA under the name
                    raw(&name, ALT_CRL.get().map(|b| b.as_slice()).unwrap_or(b"no crl"))
                }
                else {
                    let mut other = roa(&name, 990 + j as u64, 65900 + j as u32, "10.1.250.0/24", None);
                    other.name = name;
                    other
                };
                v.objects[j].publish = Publish::Replace(Box::new(other));
            }, j));
        }
    }
    // CRL.
    res.push(fc("crl-missing", |v, _| v.crl.publish = Publish::Missing, none));
    res.push(fc("crl-corrupt", |v, _| v.crl.publish = Publish::Corrupt, none));
    res.push(fc("crl-unlisted", |v, _| v.crl.publish = Publish::Unlisted, none));
    res.push(fc("crl-sigflip", |v, _| v.crl.fault = Fault::SigFlip, none));
    res.push(fc("crl-wrongkey", |v, _| v.crl.fault = Fault::WrongKey(5), none));
    res.push(fc("crl-garbage", |v, _| v.crl.fault = Fault::Garbage, none));
    res.push(fc("crl-stale", |v, _| v.crl.next_update = NOW2 - 1, none));
    res.push(fc("crl-revokes-mft", |v, _| v.crl.revoked = vec![v.ee_serial], none));
    // Manifest.
    res.push(fc("mft-missing", |v, _| v.mft_publish = Publish::Missing, none));
    res.push(fc("mft-sigflip", |v, _| v.mft_fault = Fault::SigFlip, none));
    res.push(fc("mft-wrongkey", |v, _| v.mft_fault = Fault::WrongKey(5), none));
    res.push(fc("mft-garbage", |v, _| v.mft_fault = Fault::Garbage, none));
    res.push(fc("mft-crluri", |v, _| {
        v.mft_fault = Fault::CrlUri("rsync://rpki.test/kids/kid/other.crl".into())
    }, none));
    res.push(fc("mft-ee-expired", |v, _| v.ee_not_after = NOW2 - 1, none));
    res.push(fc("mft-ee-future", |v, _| v.ee_not_before = NOW2 + 1, none));
    res.push(fc("mft-premature", |v, _| v.this_update = NOW2 + 1, none));
    res.push(fc("mft-stale", |v, _| v.next_update = NOW2 - 1, none));
    // Boundaries that are still acceptable.
    let mut ok = |label: &str, edit: fn(&mut PointVersion, usize), stale: Policy| {
        let mut case = fc(label, edit, none);
        case.good = true;
        case.stale = stale;
        case.cleanup = label != "mft-ee-notafter-now";
        res.push(case);
    };
    ok("mft-thisupdate-now", |v, _| { v.this_update = NOW2; v.crl.this_update = NOW2 }, Policy::Reject);
    ok("mft-nextupdate-now", |v, _| v.next_update = NOW2, Policy::Reject);
    ok("mft-ee-notafter-now", |v, _| v.ee_not_after = NOW2, Policy::Reject);
    ok("mft-stale-warn", |v, _| v.next_update = NOW2 - 1, Policy::Warn);
    ok("mft-stale-accept", |v, _| v.next_update = NOW2 - 1, Policy::Accept);
    ok("crl-stale-accept", |v, _| v.crl.next_update = NOW2 - 1, Policy::Accept);
    // Transport. Files of the module in path order: a.roa, kid.crl, kid.mft, m.*, z.roa.
    for (label, mode) in [
        ("rsync-fail-1", RsyncMode::Fail { code: 1 }),
        ("rsync-fail-30", RsyncMode::Fail { code: 30 }),
    ] {
        let mut case = fc(label, |_, _| { }, none);
        case.rsync = Some(mode);
        res.push(case);
    }
    for k in 0..=(n_objs + 2) {
        let mut case = fc("rsync-partial", |_, _| { }, k);
        case.rsync = Some(RsyncMode::Partial { files: k, code: 23 });
        case.good = k == n_objs + 2;
        res.push(case);
    }
    res
}

struct Setup {
    world: World,
    focus: String,
    v1: usize,
    v2: usize,
    v3: usize,
    /// (case, version index)
    faulty: Vec<(FaultCase, usize)>,
}

fn setup(focus: &str, rich: bool, thorough: bool) -> Setup {
    let mut world = base_world();
    let other = if focus == "root" { "kid" } else { "root" };
    let mut v = version(1, TU, FAR);
    if other == "root" { v.objects.push(kid_cert()) }
    v.objects.push(roa("x.roa", 900, if other == "root" { 64999 } else { 65999 },
        if other == "root" { "192.0.2.0/24" } else { "10.1.255.0/24" }, None));
    world.ca_mut(other).unwrap().versions.push(v);

    let builder = Builder::new();
    let focus_spec = world.ca(focus).unwrap().clone();
    let _ = ALT_CRL.set(stray_crl(&builder, world.ca("kid").unwrap(), 999));
    let mk = |number: u64, this_update: i64, v: u32| {
        let mut res = version(number, this_update, FAR);
        if focus == "root" { res.objects.push(kid_cert()) }
        res.objects.extend(objects(focus, v, rich, &stray_crl(&builder, &focus_spec, 900 + v as u64)));
        res
    };
    let mut versions = vec![mk(1, TU, 1), mk(2, TU + 600, 2), mk(3, TU + 1200, 3)];
    let n_objs = versions[1].objects.len();
    let mut faulty = Vec::new();
    for case in fault_cases(n_objs, thorough) {
        let mut v = versions[1].clone();
        (case.edit)(&mut v, case.arg);
        if v == versions[1] {
            faulty.push((case, 1));
        }
        else {
            faulty.push((case, versions.len()));
            versions.push(v);
        }
    }
    // Versions that are not newer than version 1.
    let mut same_number = mk(1, TU + 600, 2);
    same_number.ee_serial = 1_000_777;
    let mut same_time = mk(2, TU, 2);
    same_time.ee_serial = 1_000_778;
    for (label, v) in [("not-newer-number", same_number), ("not-newer-thisupdate", same_time)] {
        faulty.push((fc(label, |_, _| { }, usize::MAX), versions.len()));
        versions.push(v);
    }
    world.ca_mut(focus).unwrap().versions = versions;
    Setup { world, focus: focus.into(), v1: 0, v2: 1, v3: 2, faulty }
}

fn module_of(setup: &Setup) -> String {
    if setup.focus == "root" { "rpki.test/repo".into() } else { KID_MODULE.into() }
}

fn run(setup: &Setup, now: i64, version: Option<usize>, rsync: Option<RsyncMode>, update: bool) -> RunSpec {
    let other = if setup.focus == "root" { "kid" } else { "root" };
    let mut points = vec![(other.to_string(), 0)];
    if let Some(v) = version { points.push((setup.focus.clone(), v)) }
    RunSpec {
        now,
        serve: Serve {
            tas: vec![ta_cert()], points,
            rsync: rsync.map(|mode| vec![RsyncCtl { module: module_of(setup), mode }]).unwrap_or_default(),
        },
        order: Order::Seed(now as u64),
        update: if update { None } else { Some(false) },
        tamper: vec![],
    }
}

fn case_json(setup: &Setup, opts: &EngineOpts, runs: Vec<RunSpec>, extras: Vec<Vec<Extra>>, memo: usize, label: &str) -> Value {
    let xs = XScenario {
        scenario: Scenario { world: setup.world.clone(), opts: opts.clone(), runs },
        extras,
        real_process: false,
    };
    json!({ "xs": to_json(&xs), "focus": setup.focus, "memo": memo, "label": label })
}

/// The oracle: the property itself on the implementation's output.
fn oracle(ctx: &mut Ctx, player: &XPlayer, input: &Value, xs: &XScenario, focus: &str, obs: &[XObs]) {
    let scn = &xs.scenario;
    let truth = Truth::new(&player.builder, &scn.world);
    let mut inconsistent: BTreeSet<String> = BTreeSet::new();
    for (r, run) in scn.runs.iter().enumerate() {
        let ob = &obs[r];
        let what = |extra: Value| json!({ "run": r, "detail": extra, "impl": obs_json(obs) });
        if !ob.obs.out.ok() {
            ctx.oracle_fail(
                "run-failed", &format!("run {r} ended with {}", ob.obs.out.status.as_str()),
                input, what(json!(null))
            );
            continue
        }
        let online = run.update.unwrap_or(scn.opts.update);
        for tamper in &run.tamper { inconsistent.insert(tamper.ca.clone()); }
        let touched = |ca: &str| {
            run.tamper.iter().any(|t| t.ca == ca) || xs.extras_of(r).iter().any(|e| e.ca == ca)
        };

        // An offline run reproduces the payload of the run before it.
        if !online && r > 0 && scn.runs[r - 1].now == run.now && run.tamper.is_empty()
            && xs.extras_of(r).is_empty()
        {
            let prev = &obs[r - 1];
            if prev.obs.out.ok() && prev.obs.out.payload() != ob.obs.out.payload() {
                ctx.oracle_fail(
                    "offline-run-differs",
                    &format!(
                        "run {r} (no collector) serves {:?}, the run before it served {:?}",
                        ob.obs.out.payload(), prev.obs.out.payload()
                    ),
                    input, what(json!(null))
                );
            }
            else { ctx.count("offline:reproduced") }
        }

        for ca in &scn.world.cas {
            let suffix = ca.mft_uri().trim_start_matches("rsync://").to_string();
            let before = match ob.pre_store.as_ref() {
                Some(pre) => pre.point(&suffix),
                None if r == 0 => None,
                None => obs[r - 1].obs.store.point(&suffix),
            };
            let after = ob.obs.store.point(&suffix);
            let before_m = before.and_then(|p| p.manifest.as_ref().map(|m| (p, m)));
            let after_m = after.and_then(|p| p.manifest.as_ref().map(|m| (p, m)));

            // Whatever is stored is complete.
            if let Some(point) = after {
                if let Err(why) = stored_point_complete(point, !inconsistent.contains(&ca.name)) {
                    ctx.oracle_fail(
                        "stored-point-incomplete",
                        &format!("run {r}: stored point of {}: {why}", ca.name),
                        input, what(json!(null))
                    );
                    continue
                }
                if !point.readable {
                    ctx.oracle_fail(
                        "stored-point-unreadable",
                        &format!("run {r}: stored point file of {} cannot be read", ca.name),
                        input, what(json!(null))
                    );
                    continue
                }
            }

            let (fetched, verdict) = if online {
                truth.fetched(ca, &ob.obs.local, run.now, scn.opts.stale)
            } else { (None, Err("no-collector")) };
            let newer = match (fetched, before_m) {
                (Some(v), Some((_, bm))) => {
                    let v = &ca.versions[v];
                    cmp_dec(&hex_to_dec(&v.number), &bm.number) == std::cmp::Ordering::Greater
                        && v.this_update > bm.this_update
                }
                _ => true,
            };
            let was_inconsistent = inconsistent.contains(&ca.name);
            let good = verdict.is_ok() && (newer || was_inconsistent);
            let detail = json!({
                "ca": ca.name, "fetched_version": fetched, "verdict": format!("{verdict:?}"),
                "newer": newer, "stored_inconsistent": was_inconsistent,
            });

            let changed = match (before_m, after_m) {
                (None, None) => false,
                (Some((bp, _)), Some((ap, _))) => bp.file_sha256 != ap.file_sha256,
                _ => true,
            };
            if changed {
                if let Some((_, am)) = after_m {
                    // Replaced (or first stored): only by a verified, complete, newer fetch.
                    let is_fetched = ob.obs.local.get(&ca.mft_uri()) == Some(&am.manifest);
                    if !is_fetched || !good {
                        ctx.oracle_fail(
                            "stored-unverified-version",
                            &format!(
                                "run {r}: the stored point of {} was replaced although the fetched \
                                 version is not acceptable ({verdict:?}, newer: {newer}, stored \
                                 manifest is the fetched one: {is_fetched})", ca.name
                            ),
                            input, what(detail)
                        );
                        continue
                    }
                    ctx.count("point:replaced");
                    if was_inconsistent { inconsistent.remove(&ca.name); }
                }
                else {
                    // Stored version gone.
                    let bm = before_m.unwrap().1;
                    let expired = bm.not_after <= run.now && scn.opts.cleanup && !scn.opts.dirty;
                    if !(touched(&ca.name) || was_inconsistent || expired) {
                        ctx.oracle_fail(
                            "stored-copy-lost",
                            &format!(
                                "run {r}: the stored version of {} disappeared (fetched: {verdict:?})",
                                ca.name
                            ),
                            input, what(detail)
                        );
                        continue
                    }
                    ctx.count("point:dropped");
                    inconsistent.remove(&ca.name);
                }
            }
            else if before_m.is_some() {
                ctx.count(if good { "point:kept-although-good" } else { "point:kept" });
            }

            // A failed fetch leaves the stored version usable.
            if ca.name == focus && online && !good && !changed {
                if let Some((_, bm)) = before_m {
                    if let Some(v) = truth.version_of(ca, &bm.manifest) {
                        let stored_ok = truth.manifest_valid(ca, &ca.versions[v], run.now, scn.opts.stale).is_ok();
                        if stored_ok && !was_inconsistent {
                            let universe = truth.payload_universe(&ca.name);
                            let served: BTreeSet<String> = ob.obs.out.payload().into_iter()
                                .filter(|p| universe.contains(p)).collect();
                            let expected = truth.version_payload(&ca.name, v, run.now, &scn.opts);
                            if served != expected {
                                ctx.oracle_fail(
                                    "stored-version-not-used",
                                    &format!(
                                        "run {r}: fetch of {} failed ({verdict:?}) but it contributes \
                                         {served:?}, not the stored version's {expected:?}", ca.name
                                    ),
                                    input, what(detail)
                                );
                                continue
                            }
                            ctx.count("fallback:stored-used");
                        }
                    }
                }
            }
            if let Err(why) = verdict {
                if online && ca.name == focus { ctx.count(&format!("fault:{why}")) }
            }
        }
    }
}

fn run_input(ctx: &mut Ctx, player: &mut XPlayer, input: &Value) {
    let xs: XScenario = match serde_json::from_value(input["xs"].clone()) {
        Ok(xs) => xs,
        Err(err) => {
            ctx.oracle_fail("bad-input", &format!("{err}"), input, json!(null));
            return
        }
    };
    let focus = input["focus"].as_str().unwrap_or("kid").to_string();
    let memo = input["memo"].as_u64().unwrap_or(0) as usize;
    let obs = player.play(&xs, memo);
    for ob in &obs {
        ctx.count(&format!("run-status:{}", ob.obs.out.status.as_str()));
    }
    oracle(ctx, player, input, &xs, &focus, &obs);
    let (op, imp) = render(&player.builder, &xs, &obs);
    ctx.case(input, &op, &imp);
}

fn generate(ctx: &mut Ctx) -> Vec<Value> {
    let mut cases = Vec::new();
    let thorough = !ctx.quick();
    let rich_opts = EngineOpts { enable_aspa: true, ..Default::default() };

    // A. v1 stored; faulty v2 (+ offline); v3 or complete v2 (+ offline).
    let kid = setup("kid", true, thorough);
    for (idx, (case, version)) in kid.faulty.iter().enumerate() {
        let opts = EngineOpts { stale: case.stale, cleanup: case.cleanup, ..rich_opts.clone() };
        let third = if idx % 2 == 0 { kid.v3 } else { kid.v2 };
        ctx.nontrivial(format!("kid {}", case.label));
        cases.push(case_json(&kid, &opts, vec![
            run(&kid, NOW1, Some(kid.v1), None, true),
            run(&kid, NOW2, Some(*version), case.rsync.clone(), true),
            run(&kid, NOW2, Some(*version), case.rsync.clone(), false),
            run(&kid, NOW3, Some(third), None, true),
        ], vec![], 1, &case.label));
    }

    // B. Nothing stored yet: the very first fetch is faulty.
    for (idx, (case, version)) in kid.faulty.iter().enumerate() {
        if !thorough && idx % 9 != 0 { continue }
        if case.label.starts_with("not-newer") { continue }
        let opts = EngineOpts { stale: case.stale, cleanup: case.cleanup, ..rich_opts.clone() };
        ctx.nontrivial(format!("kid first {}", case.label));
        cases.push(case_json(&kid, &opts, vec![
            run(&kid, NOW2, Some(*version), case.rsync.clone(), true),
            run(&kid, NOW2, Some(*version), case.rsync.clone(), false),
            run(&kid, NOW3, Some(kid.v2), None, true),
        ], vec![], 0, &format!("first {}", case.label)));
    }

    // C. The trust anchor's own point.
    let root = setup("root", false, false);
    for (idx, (case, version)) in root.faulty.iter().enumerate() {
        if !thorough && idx % 7 != 0 { continue }
        let opts = EngineOpts { stale: case.stale, cleanup: case.cleanup, ..Default::default() };
        ctx.nontrivial(format!("root {}", case.label));
        cases.push(case_json(&root, &opts, vec![
            run(&root, NOW1, Some(root.v1), None, true),
            run(&root, NOW2, Some(*version), case.rsync.clone(), true),
            run(&root, NOW2, Some(*version), case.rsync.clone(), false),
            run(&root, NOW3, Some(root.v3), None, true),
        ], vec![], 1, &format!("root {}", case.label)));
    }

    // D. Stored copy made internally inconsistent / unreadable / removed
    //    before a faulty or a good fetch.
    let find = |label: &str| kid.faulty.iter().find(|(c, _)| c.label == label).map(|(_, v)| *v).unwrap();
    let tamper = |number: &str, this_update: i64| vec![Tamper { ca: "kid".into(), number: number.into(), this_update }];
    let extra = |kind: ExtraKind| vec![vec![], vec![Extra { ca: "kid".into(), kind }]];
    for (label, second) in [
        ("obj-missing@1", find("obj-missing@1")), ("mft-sigflip", find("mft-sigflip")),
        ("good", kid.v2), ("not-newer-number", find("not-newer-number")),
    ] {
        let mut second_run = run(&kid, NOW2, Some(second), None, true);
        second_run.tamper = tamper("9", TU + 9);
        ctx.nontrivial(format!("kid inconsistent {label}"));
        cases.push(case_json(&kid, &rich_opts, vec![
            run(&kid, NOW1, Some(kid.v1), None, true),
            second_run,
            run(&kid, NOW2, Some(second), None, false),
            run(&kid, NOW3, Some(kid.v3), None, true),
        ], vec![], 1, &format!("inconsistent {label}")));
        for kind in [ExtraKind::Garbage, ExtraKind::Remove] {
            ctx.nontrivial(format!("kid {kind:?} {label}"));
            cases.push(case_json(&kid, &rich_opts, vec![
                run(&kid, NOW1, Some(kid.v1), None, true),
                run(&kid, NOW2, Some(second), None, true),
                run(&kid, NOW2, Some(second), None, false),
                run(&kid, NOW3, Some(kid.v3), None, true),
            ], extra(kind.clone()), 1, &format!("{kind:?} {label}")));
        }
    }

    // F. The second CRL missing / corrupt / replaced by another valid CRL,
    //    processed first and processed last, with and without a stored version.
    //    Entries by name: a.roa info.gbr kid.crl m.asa old.crl readme.txt z.roa.
    for fault in ["obj-missing", "obj-corrupt", "obj-replaced"] {
        let label = format!("{fault}@{OLD_CRL_POS}");
        let version = find(&label);
        for (pos, perm) in [("first", vec![4usize, 0, 1, 2, 3, 5, 6]), ("last", vec![0, 1, 2, 3, 5, 6, 4])] {
            let faulty = |update: bool| {
                let mut spec = run(&kid, NOW2, Some(version), None, update);
                spec.order = Order::Table(vec![perm.clone()]);
                spec
            };
            ctx.nontrivial(format!("kid second-crl {fault} {pos}"));
            cases.push(case_json(&kid, &rich_opts, vec![
                run(&kid, NOW1, Some(kid.v1), None, true),
                faulty(true), faulty(false),
                run(&kid, NOW3, Some(kid.v3), None, true),
            ], vec![], 1, &format!("second-crl {fault} {pos}")));
            ctx.nontrivial(format!("kid first second-crl {fault} {pos}"));
            cases.push(case_json(&kid, &rich_opts, vec![
                faulty(true), faulty(false),
                run(&kid, NOW3, Some(kid.v2), None, true),
            ], vec![], 0, &format!("first second-crl {fault} {pos}")));
        }
    }

    // E. Random longer histories.
    let n = ctx.budget(3, 120);
    for i in 0..n {
        let mut rng = ctx.rng.fork();
        let len = rng.range(3, 6) as usize;
        let mut runs = vec![run(&kid, NOW1, Some(kid.v1), None, true)];
        let mut sig = String::new();
        for k in 0..len {
            let now = NOW2 + 60 * k as i64;
            let pick = rng.below(10);
            let (version, rsync) = if pick < 6 {
                let (case, v) = rng.pick(&kid.faulty).clone();
                if case.stale != Policy::Reject || !case.cleanup { (kid.v1, None) } else {
                    sig.push_str(&format!("{},", case.label));
                    (v, case.rsync.clone())
                }
            }
            else {
                let v = *rng.pick(&[kid.v1, kid.v2, kid.v3]);
                sig.push_str(&format!("v{v},"));
                (v, None)
            };
            let mut spec = run(&kid, now, Some(version), rsync.clone(), true);
            spec.order = Order::Seed(rng.next());
            runs.push(spec);
            if rng.chance(1, 2) {
                runs.push(run(&kid, now, Some(version), rsync, false));
            }
        }
        ctx.nontrivial(format!("history {i} {sig}"));
        cases.push(case_json(&kid, &rich_opts, runs, vec![], 1, &format!("history {sig}")));
    }
    cases
}

pub fn run_c04(ctx: &mut Ctx) {
    ctx.rule = "trust anchor + child CA in its own rsync module; version 1 stored, then version 2 \
        with ONE fetch fault (listed file missing / corrupt / replaced at every position; manifest \
        missing, corrupt, bad signature, wrong key, undecodable, CRL URI mismatch, EE expired / not \
        yet valid, premature, stale; CRL missing, corrupt, unlisted, bad signature, wrong key, \
        undecodable, stale, revoking the manifest EE; rsync exit 1 / 30; rsync delivering only the \
        first k files for every k; not newer) followed by an offline run, then a good version and \
        an offline run; acceptable boundary cases (thisUpdate = now, nextUpdate = now, notAfter = \
        now, stale under warn/accept); first-ever fetch faulty; the trust anchor's own point; stored \
        copy inconsistent / unreadable / removed; random histories. Non-trivial = distinct (CA, \
        fault, position)".into();
    let mut player = XPlayer::new();
    let inputs = match ctx.replay_inputs() {
        Some(inputs) => inputs,
        None => {
            let mut inputs = ctx.corpus("C04");
            inputs.extend(generate(ctx));
            inputs
        }
    };
    for input in inputs {
        run_input(ctx, &mut player, &input);
    }
}
