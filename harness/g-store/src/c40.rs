//! C40: cleanup keeps everything still needed.
//!
//! Histories in which publication points appear, disappear, expire (fake
//! clock), move to another rsync module, share a module, or never publish
//! anything, played against the real engine through the real
//! `ValidationReport::process` (process, cleanup, done), with `dirty` on and
//! off and with a run that fails for real (a directory where a stored point
//! file belongs). After every run: decoded store, module directories of the
//! rsync collector, payload; online runs are followed by offline runs that
//! must still validate what was retained.

use std::collections::BTreeSet;
use rpkitest::gen::*;
use rpkitest::scenario::{Order, RunSpec, Scenario};
use rpkitest::*;
use rvcore::Ctx;
use serde_json::{json, Value};
use crate::common::{to_json, TA_URI};
use crate::play::*;

const TU: i64 = T0 - HOUR;
const FAR: i64 = T0 + 300 * DAY;

/// The kids: (name, key, location, resources index).
const KIDS: [(&str, usize, &str); 5] = [
    ("a", 1, "rpki.test/ma/a/"),
    ("a2", 1, "rpki.test/mc/a/"),     // "a" moved to another module (same key)
    ("b", 2, "Repo2.Rpki.TEST/mb/b/"),  // mixed-case host (hosts are case-insensitive)
    ("c", 3, "rpki.test/ma/c/"),      // shares module ma with "a"
    ("n", 4, "rpki.test/mn/n/"),      // never publishes a manifest
];

fn kid_res(name: &str) -> Res {
    match name {
        "a" | "a2" => Res::v4(&["10.1.0.0/16"]).with_asn(65100, 65199),
        "b" => Res::v4(&["10.2.0.0/16"]).with_asn(65200, 65299),
        "c" => Res::v4(&["10.3.0.0/16"]).with_asn(65300, 65399),
        _ => Res::v4(&["10.4.0.0/16"]).with_asn(65400, 65499),
    }
}

fn kid_roa(name: &str) -> ObjSpec {
    let (asn, pfx) = match name {
        "a" => (65101, "10.1.1.0/24"), "a2" => (65102, "10.1.2.0/24"),
        "b" => (65201, "10.2.1.0/24"), "c" => (65301, "10.3.1.0/24"),
        _ => (65401, "10.4.1.0/24"),
    };
    roa("x.roa", 77, asn, pfx, None)
}

/// The world: root version `i` lists the kids of `root_sets[i]`; each kid
/// has one version whose manifest EE certificate expires at `expiry(kid)`.
fn world(root_sets: &[Vec<&str>], expiry: &dyn Fn(&str) -> i64) -> World {
    let mut world = World::default();
    world.tals.push(tal("ta", 0, &[TA_URI]));
    let mut root = ca("root", 0, "rpki.test/repo/root/", TA_URI);
    for (idx, set) in root_sets.iter().enumerate() {
        let mut v = version(idx as u64 + 1, TU + idx as i64, FAR);
        v.ee_not_after = FAR;
        for (i, kid) in set.iter().enumerate() {
            v.objects.push(child_cert(&format!("{kid}.cer"), 500 + i as u64, kid, kid_res(kid)));
        }
        v.objects.push(roa("r.roa", 900, 64999, "192.0.2.0/24", None));
        root.versions.push(v);
    }
    world.cas.push(root);
    for (name, key, loc) in KIDS {
        let mut kid = ca(name, key, loc, &format!("rsync://rpki.test/repo/root/{name}.cer"));
        let mut v = version(1, TU, FAR);
        v.ee_not_after = expiry(name);
        if name == "n" { v.mft_publish = Publish::Missing }
        v.objects.push(kid_roa(name));
        kid.versions.push(v);
        world.cas.push(kid);
    }
    world
}

fn run(now: i64, root_version: usize, kids: &[&str], update: bool) -> RunSpec {
    let mut points = vec![("root".to_string(), root_version)];
    for kid in kids { points.push((kid.to_string(), 0)) }
    RunSpec {
        now,
        serve: Serve { tas: vec![ta_file(TA_URI, "root", 0, Res::all())], points, rsync: vec![] },
        order: Order::Sorted,
        update: if update { None } else { Some(false) },
        tamper: vec![],
    }
}

fn module_of(uri: &str) -> String {
    let rest = uri.trim_start_matches("rsync://");
    let mut parts = rest.splitn(3, '/');
    // The host is case-insensitive; routinator's directories use lower case.
    format!("{}/{}", parts.next().unwrap_or("").to_ascii_lowercase(), parts.next().unwrap_or(""))
}

/// The oracle: the property itself on the implementation's output.
fn oracle(ctx: &mut Ctx, input: &Value, xs: &XScenario, obs: &[XObs], expect_fail: &[usize]) {
    let scn = &xs.scenario;
    for (r, run) in scn.runs.iter().enumerate() {
        let ob = &obs[r];
        let what = |extra: Value| json!({
            "run": r, "detail": extra,
            "impl": obs.iter().map(|o| json!({
                "status": o.obs.out.status.as_str(), "payload": o.obs.out.payload(),
                "files": o.files.iter().map(|f| json!([f.uri, format!("{:?}", f.kind)])).collect::<Vec<_>>(),
                "modules": o.modules,
            })).collect::<Vec<_>>(),
        });
        let online = run.update.unwrap_or(scn.opts.update);
        let failed = !ob.obs.out.ok();
        if failed != expect_fail.contains(&r) {
            ctx.oracle_fail(
                "run-status", &format!("run {r} ended with {}", ob.obs.out.status.as_str()),
                input, what(json!(null))
            );
            continue
        }
        if r == 0 { continue }
        let prev = &obs[r - 1];
        let before_store = ob.pre_store.as_ref().unwrap_or(&prev.obs.store);
        let nothing_removed = failed || scn.opts.dirty;

        // Store: points whose manifest certificate has not expired stay.
        for point in &before_store.points {
            let Some(m) = point.manifest.as_ref() else {
                if nothing_removed && !ob.obs.store.points.iter().any(|p| p.path == point.path) {
                    ctx.oracle_fail(
                        if failed { "failed-run-removed" } else { "dirty-removed" },
                        &format!("run {r}: stored point file {} disappeared", point.path),
                        input, what(json!(null))
                    );
                }
                continue
            };
            let needed = m.not_after > run.now || nothing_removed;
            let after = ob.obs.store.points.iter().find(|p| p.path == point.path);
            let kept = after.map(|p| p.manifest.is_some()).unwrap_or(false);
            let tampered = xs.extras_of(r).iter().any(|e| {
                scn.world.ca(&e.ca).map(|ca| point.path.ends_with(ca.mft_uri().trim_start_matches("rsync://"))).unwrap_or(false)
            });
            if needed && !kept && !tampered {
                ctx.oracle_fail(
                    if failed { "failed-run-removed" } else if scn.opts.dirty { "dirty-removed" }
                        else { "unexpired-point-removed" },
                    &format!(
                        "run {r} (now {}): stored point {} with manifest notAfter {} is gone",
                        run.now, point.path, m.not_after
                    ),
                    input, what(json!(null))
                );
            }
            else if needed { ctx.count("point:kept") }
            else if !kept { ctx.count("point:expired-removed") }
            else { ctx.count("point:expired-still-there") }
        }
        for (path, _) in &before_store.tas {
            if nothing_removed && !ob.obs.store.tas.contains_key(path) {
                ctx.oracle_fail(
                    if failed { "failed-run-removed" } else { "dirty-removed" },
                    &format!("run {r}: stored trust anchor certificate {path} disappeared"),
                    input, what(json!(null))
                );
            }
        }

        // Collector: copies used by retained points or by this run stay.
        let touched: BTreeSet<String> = ob.obs.out.rsync_log.iter().filter_map(|line| {
            line.split_whitespace().next().map(module_of)
        }).collect();
        let existed: BTreeSet<String> = prev.modules.iter().cloned().chain(touched.iter().cloned()).collect();
        let retained_by_point: BTreeSet<String> = ob.obs.store.points.iter().map(|p| {
            module_of(&format!("rsync://{}", p.path.trim_start_matches("rsync/rsync/")))
        }).collect();
        for module in &existed {
            let needed = nothing_removed || !online
                || touched.contains(module) || retained_by_point.contains(module);
            let present = ob.modules.contains(module);
            if needed && !present {
                ctx.oracle_fail(
                    if failed { "failed-run-removed" } else if scn.opts.dirty { "dirty-removed" }
                        else { "needed-module-removed" },
                    &format!(
                        "run {r}: the local copy of rsync module {module} is gone (touched in this \
                         run: {}, used by a retained stored point: {})",
                        touched.contains(module), retained_by_point.contains(module)
                    ),
                    input, what(json!(null))
                );
            }
            else if needed { ctx.count("module:kept") }
            else if !present { ctx.count("module:removed") }
        }

        // An offline run still validates what was retained.
        // (Not in the one second in which a manifest certificate is still
        // valid for validation but already expired for cleanup, notes/C40.md.)
        let boundary = scn.world.cas.iter().any(|ca| {
            ca.versions.iter().any(|v| v.ee_not_after == run.now)
        });
        if !online && !failed && scn.runs[r - 1].now == run.now && prev.obs.out.ok()
            && xs.extras_of(r).is_empty()
        {
            if boundary {
                ctx.count("offline:boundary-second");
            }
            else if prev.obs.out.payload() != ob.obs.out.payload() {
                ctx.oracle_fail(
                    "offline-run-differs",
                    &format!(
                        "run {r} (no collector) serves {:?}, the run before it served {:?}",
                        ob.obs.out.payload(), prev.obs.out.payload()
                    ),
                    input, what(json!(null))
                );
            }
            else { ctx.count("offline:reproduced") }
        }
    }
}

/// The request for the Lean component `cleanup` and the implementation's
/// behaviour in its output format.
fn render_c40(player: &XPlayer, xs: &XScenario, obs: &[XObs]) -> (String, String) {
    let scn = &xs.scenario;
    let mut enc = rpkitest::model::Encoder::new(&player.builder, scn);
    let plain: Vec<_> = obs.iter().map(|o| o.obs.clone()).collect();
    let request = enc.request(&plain);
    // Every URI the model may ask about, with the key of its module.
    let mut uris: Vec<String> = Vec::new();
    for tal in &scn.world.tals { uris.extend(tal.uris.iter().cloned()) }
    for ca in &scn.world.cas {
        uris.push(ca.repo.clone());
        uris.push(ca.mft_uri());
        uris.push(ca.crl_uri());
    }
    let keys: Vec<String> = uris.iter().map(|uri| {
        let key = enc.uris.get(&format!("module:{}", module_of(uri)));
        format!("( {} {} )", enc.uris.get(uri), key)
    }).collect();
    let op = format!("cleanup ( {request} ( {} ) )", keys.join(" "));
    let (_, store_line) = render(&player.builder, xs, obs);
    // `render` used a fresh encoder: identical ids because the request is
    // rendered first in both.
    let runs: Vec<String> = store_line.split(" | ").zip(obs).map(|(line, ob)| {
        if !ob.obs.out.ok() { return line.to_string() }
        let mut mods: Vec<usize> = ob.modules.iter().map(|m| enc.uris.get(&format!("module:{m}"))).collect();
        mods.sort();
        format!(
            "{} m={}", line.trim_end_matches(" x=1"),
            mods.iter().map(|m| m.to_string()).collect::<Vec<_>>().join(",")
        )
    }).collect();
    (op, runs.join(" | "))
}

fn run_input(ctx: &mut Ctx, player: &mut XPlayer, input: &Value) {
    let xs: XScenario = match serde_json::from_value(input["xs"].clone()) {
        Ok(xs) => xs,
        Err(err) => {
            ctx.oracle_fail("bad-input", &format!("{err}"), input, json!(null));
            return
        }
    };
    let expect_fail: Vec<usize> = input["expect_fail"].as_array().map(|a| {
        a.iter().filter_map(|v| v.as_u64().map(|v| v as usize)).collect()
    }).unwrap_or_default();
    let memo = input["memo"].as_u64().unwrap_or(0) as usize;
    let obs = player.play(&xs, memo);
    for ob in &obs {
        ctx.count(&format!("run-status:{}", ob.obs.out.status.as_str()));
    }
    oracle(ctx, input, &xs, &obs, &expect_fail);
    if expect_fail.is_empty() {
        let (op, imp) = render_c40(player, &xs, &obs);
        ctx.case(input, &op, &imp);
    }
    else {
        let text = obs.iter().map(|o| format!(
            "{} {:?} {:?}", o.obs.out.status.as_str(), o.modules,
            o.files.iter().map(|f| format!("{}:{:?}", f.uri, f.kind)).collect::<Vec<_>>()
        )).collect::<Vec<_>>().join(" | ");
        ctx.case_oracle_only(input, &text);
    }
}

fn case_json(
    world: &World, dirty: bool, runs: Vec<RunSpec>, extras: Vec<Vec<Extra>>,
    expect_fail: Vec<usize>, label: &str,
) -> Value {
    let xs = XScenario {
        scenario: Scenario {
            world: world.clone(),
            opts: EngineOpts { dirty, ..Default::default() },
            runs,
        },
        extras,
        real_process: true,
    };
    json!({ "xs": to_json(&xs), "memo": 0, "expect_fail": expect_fail, "label": label })
}

fn generate(ctx: &mut Ctx) -> Vec<Value> {
    let mut cases = Vec::new();
    // Root version 0: a, b, n.   1: a2 (a moved), c.   2: c only.
    let sets: Vec<Vec<&str>> = vec![vec!["a", "b", "n"], vec!["a2", "c"], vec!["c"]];
    let expiry = |kid: &str| match kid {
        "a" => T0 + 2 * DAY,
        "b" => T0 + 3 * DAY,
        "a2" => T0 + 4 * DAY,
        _ => FAR,
    };
    let w = world(&sets, &expiry);
    let served0: &[&str] = &["a", "b", "n"];
    let served1: &[&str] = &["a2", "c"];
    let history = |offline: bool| {
        let mut runs = vec![
            run(T0, 0, served0, true),
            run(T0 + DAY, 1, served1, true),                 // a moved, b vanished, c appeared, n vanished
            run(T0 + 2 * DAY - 1, 1, served1, true),         // a's manifest expires in 1 s
            run(T0 + 2 * DAY, 1, served1, true),             // notAfter = now
            run(T0 + 2 * DAY + 1, 1, served1, true),         // a expired; module ma still used by c
            run(T0 + 3 * DAY - 1, 1, served1, true),
            run(T0 + 3 * DAY + 1, 1, served1, true),         // b expired; module mb unused
            run(T0 + 4 * DAY + 1, 2, &["c"], true),          // a2 dropped and expired
        ];
        if offline {
            let mut with = Vec::new();
            for spec in runs {
                let mut off = spec.clone();
                off.update = Some(false);
                with.push(spec);
                with.push(off);
            }
            runs = with;
        }
        runs
    };
    for dirty in [false, true] {
        ctx.nontrivial(format!("timeline dirty={dirty}"));
        cases.push(case_json(&w, dirty, history(false), vec![], vec![], &format!("timeline dirty={dirty}")));
    }
    ctx.nontrivial("timeline offline".into());
    cases.push(case_json(&w, false, history(true), vec![], vec![], "timeline with offline runs"));

    // A run that fails for real after the points expired: no cleanup.
    for (label, kid) in [("c", "c"), ("a2", "a2")] {
        let runs = vec![
            run(T0, 0, served0, true),
            run(T0 + DAY, 1, served1, true),
            run(T0 + 3 * DAY + 1, 1, served1, true),   // would remove a, b, module mb
        ];
        let extras = vec![vec![], vec![], vec![Extra { ca: kid.into(), kind: ExtraKind::Dir }]];
        ctx.nontrivial(format!("failed run {label}"));
        cases.push(case_json(&w, false, runs, extras, vec![2], &format!("failed run ({label} unreadable)")));
    }

    // Random histories: random subsets of kids per root version, random
    // expiry, clock steps around the expiry times.
    let n = ctx.budget(10, 80);
    for i in 0..n {
        let mut rng = ctx.rng.fork();
        let pool: [&str; 5] = ["a", "a2", "b", "c", "n"];
        let mut sets: Vec<Vec<&str>> = Vec::new();
        for _ in 0..3 {
            let mut set: Vec<&str> = pool.iter().copied().filter(|_| rng.chance(1, 2)).collect();
            if set.contains(&"a") && set.contains(&"a2") { set.retain(|k| *k != "a2") }
            sets.push(set);
        }
        let offs: Vec<i64> = (0..5).map(|_| rng.range(1, 4) as i64 * DAY).collect();
        let expiry = move |kid: &str| match kid {
            "a" => T0 + offs[0], "a2" => T0 + offs[1], "b" => T0 + offs[2],
            "c" => T0 + offs[3], _ => T0 + offs[4],
        };
        let w = world(&sets, &expiry);
        let mut runs = Vec::new();
        let mut now = T0;
        let len = rng.range(4, 7) as usize;
        let mut version = 0usize;
        for k in 0..len {
            if k > 0 {
                now += *rng.pick(&[DAY - 1, DAY, DAY + 1, 1, 2 * DAY, HOUR]);
                if rng.chance(1, 2) && version < 2 { version += 1 }
            }
            let served: Vec<&str> = sets[version].clone();
            runs.push(run(now, version, &served, true));
            if rng.chance(1, 3) { runs.push(run(now, version, &served, false)) }
        }
        let dirty = rng.chance(1, 4);
        ctx.nontrivial(format!("random {i} dirty={dirty} {sets:?}"));
        cases.push(case_json(&w, dirty, runs, vec![], vec![], &format!("random {i}")));
    }
    cases
}

pub fn run_c40(ctx: &mut Ctx) {
    ctx.rule = "trust anchor with kids a (module ma), a2 (= a moved to module mc), b (mb), c (ma, \
        shared with a), n (mn, never publishes a manifest); root versions list different subsets; \
        each kid's manifest EE certificate expires at a chosen time; the fake clock steps to \
        notAfter-1, notAfter, notAfter+1; dirty on/off; online runs followed by offline runs; a \
        run that fails for real (directory where a stored point file belongs); random histories. \
        Every run goes through the real ValidationReport::process. Non-trivial = distinct \
        history".into();
    let mut player = XPlayer::new();
    let inputs = match ctx.replay_inputs() {
        Some(inputs) => inputs,
        None => {
            let mut inputs = ctx.corpus("C40");
            inputs.extend(generate(ctx));
            inputs
        }
    };
    for input in inputs {
        run_input(ctx, &mut player, &input);
    }
}
