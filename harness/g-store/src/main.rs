//! Group "store": C04 (store holds only complete, verified points),
//! C40 (cleanup keeps what is needed), C23 (crash safety of the store).
mod common;
mod cli;
mod play;
mod c04;
mod c40;
mod c23;

fn run(name: &str, ctx: &mut rvcore::Ctx) -> bool {
    match name {
        "c04" => c04::run_c04(ctx),
        "c40" => c40::run_c40(ctx),
        "c23" => c23::run_c23(ctx),
        _ => return false
    }
    true
}

fn special(name: &str, args: &[String]) -> Option<i32> {
    if let Some(code) = rpkitest::fake_rsync_special(name, args) {
        return Some(code)
    }
    match name {
        // `rv-store routinator <args…>` behaves like the routinator binary.
        "routinator" => Some(cli::routinator_main(args)),
        _ => None
    }
}

fn main() { rvcore::main_with(run, special) }
