//! Random RPKI trees (1–3 TALs, depth ≤ 4, 0–3 children and 0–4 payload
//! objects per CA, 1–3 rsync modules/hosts) and the catalogue of injectable
//! faults, all as plain rpkitest descriptions.

use rpkitest::gen::*;
use rpkitest::*;
use rvcore::Rng;

/// Where a CA sits in the generated tree.
#[derive(Clone, Debug)]
pub struct Node {
    pub name: String,
    pub parent: Option<String>,
    pub depth: usize,
    /// `"host/module"` of its publication point.
    pub module: String,
    /// Index path below the trust anchor (`[]` for the TA's CA).
    pub path: Vec<usize>,
    pub ta: usize,
}

#[derive(Clone, Debug)]
pub struct Tree {
    pub world: World,
    pub tas: Vec<TaFile>,
    pub nodes: Vec<Node>,
}

#[derive(Clone, Debug)]
pub struct TreeCfg {
    pub tals: usize,
    pub max_depth: usize,
    pub max_kids: usize,
    pub max_objs: usize,
    pub max_cas: usize,
    /// Number of rsync modules CAs are spread over.
    pub modules: usize,
    /// Randomise validity periods / nextUpdate (all still valid at `T0`
    /// and `T0 + HOUR`).
    pub random_times: bool,
    /// Use trim / inherit on some child certificates.
    pub fancy_res: bool,
}

impl Tree {
    pub fn node(&self, name: &str) -> &Node {
        self.nodes.iter().find(|n| n.name == name).expect("node")
    }

    /// The CA and all its descendants.
    pub fn subtree(&self, name: &str) -> Vec<String> {
        let mut res = vec![name.to_string()];
        let mut i = 0;
        while i < res.len() {
            let cur = res[i].clone();
            for n in &self.nodes {
                if n.parent.as_deref() == Some(cur.as_str()) { res.push(n.name.clone()) }
            }
            i += 1;
        }
        res
    }

    /// Serve version `v` of every CA (that has one), all trust anchors.
    pub fn serve(&self, v: usize) -> Serve {
        Serve {
            tas: self.tas.clone(),
            points: self.world.cas.iter().filter(|c| c.versions.len() > v)
                .map(|c| (c.name.clone(), v)).collect(),
            rsync: vec![],
        }
    }
}

/// Two modules on one host first, so that small configurations already
/// have same-host sibling repositories.
pub const MODULES: [&str; 3] = ["h1.test/repo", "h1.test/alt", "h2.test/repo"];

/// IPv4 block of a node: (prefix, length).
fn v4_block(ta: usize, path: &[usize]) -> (String, u8) {
    let a = 10 + ta;
    match path {
        [] => (format!("{a}.0.0.0"), 8),
        [j] => (format!("{a}.{}.0.0", 16 * j), 12),
        [j, k] => (format!("{a}.{}.0.0", 16 * j + k), 16),
        [j, k, l, ..] => (format!("{a}.{}.{}.0", 16 * j + k, 16 * l), 20),
    }
}

/// The `n`-th /24 inside the node's block; `inside_kid`: inside the block of
/// child `kid` instead of outside all children.
pub fn v4_roa(ta: usize, path: &[usize], n: usize, inside_kid: Option<usize>) -> String {
    let a = 10 + ta;
    match (path, inside_kid) {
        ([], None) => format!("{a}.{}.{}.0/24", 64 + n, n),
        ([], Some(c)) => format!("{a}.{}.{}.0/24", 16 * c + 9, n),
        ([j], None) => format!("{a}.{}.{}.0/24", 16 * j + 8, n),
        ([j], Some(c)) => format!("{a}.{}.{}.0/24", 16 * j + c, 200 + n),
        ([j, k], None) => format!("{a}.{}.{}.0/24", 16 * j + k, 128 + n),
        ([j, k], Some(c)) => format!("{a}.{}.{}.0/24", 16 * j + k, 16 * c + 1 + n),
        ([j, k, l, ..], _) => format!("{a}.{}.{}.0/24", 16 * j + k, 16 * l + n),
    }
}

fn v6_block(ta: usize, path: &[usize]) -> String {
    let digits: String = path.iter().map(|d| format!("{d:x}")).collect();
    let pad = "0".repeat(4 - digits.len().min(4));
    format!("2a0{ta}:{digits}{pad}::/{}", 16 + 4 * path.len().min(3))
}

fn v6_roa(ta: usize, path: &[usize], n: usize) -> String {
    let digits: String = path.iter().take(3).map(|d| format!("{d:x}")).collect();
    let pad = "f".repeat(4 - digits.len());
    format!("2a0{ta}:{digits}{pad}:{n:x}::/48")
}

/// ASN range of a node: (base, size); children get the first three
/// quarters, the node's own numbers come from the last quarter.
fn asn_block(ta: usize, path: &[usize]) -> (u32, u32) {
    let mut base = 64_000 + 1_000 * ta as u32;
    let mut size = 1_000u32;
    for d in path {
        size /= 4;
        base += size * (*d as u32);
    }
    (base, size)
}

pub fn own_asn(ta: usize, path: &[usize], n: usize) -> u32 {
    let (base, size) = asn_block(ta, path);
    if path.len() >= 3 { base + n as u32 } else { base + size / 4 * 3 + n as u32 }
}

pub fn node_res(ta: usize, path: &[usize]) -> Res {
    let (p4, l4) = v4_block(ta, path);
    let (base, size) = asn_block(ta, path);
    Res::v4(&[&format!("{p4}/{l4}")]).with_v6(&v6_block(ta, path)).with_asn(base, base + size - 1)
}

struct Times<'a> { rng: &'a mut Rng, random: bool }

impl Times<'_> {
    /// A notAfter / nextUpdate comfortably after `T0 + HOUR`.
    fn after(&mut self, default: i64) -> i64 {
        if self.random { T0 + 2 * HOUR + self.rng.below(400 * DAY as u64) as i64 } else { default }
    }
}

/// Generates a fault-free tree with one version (number 1) per CA.
pub fn gen_tree(rng: &mut Rng, cfg: &TreeCfg) -> Tree {
    let mut world = World::default();
    let mut tas = Vec::new();
    let mut nodes: Vec<Node> = Vec::new();
    let mut next_key = 0usize;
    let mut trng = rng.fork();
    let mut times = Times { rng: &mut trng, random: cfg.random_times };
    // Breadth-first creation so that the CA budget is spread over the TALs.
    let mut queue: Vec<(usize, Vec<usize>, Option<String>, String)> = Vec::new();
    for t in 0..cfg.tals {
        let module = MODULES[rng.below(cfg.modules as u64) as usize].to_string();
        queue.push((t, vec![], None, module));
    }
    let mut qi = 0;
    while qi < queue.len() {
        let (t, path, parent, module) = queue[qi].clone();
        qi += 1;
        let name = if path.is_empty() { format!("t{t}") }
            else { format!("t{t}{}", path.iter().map(|d| format!("c{d}")).collect::<String>()) };
        let key = next_key;
        next_key += 1;
        let cert_uri = match &parent {
            None => format!("rsync://{module}/ta{t}.cer"),
            Some(p) => format!("{}{}.cer", world.ca(p).unwrap().repo, name),
        };
        let spec = ca(&name, key, &format!("{module}/{name}/"), &cert_uri);
        if path.is_empty() {
            world.tals.push(tal(&format!("tal{t}"), key, &[&cert_uri]));
            let mut file = ta_file(&cert_uri, &name, key, node_res(t, &[]));
            if let TaContent::Cert { not_after, .. } = &mut file.content {
                *not_after = times.after(T0 + 5 * YEAR);
            }
            tas.push(file);
        }
        world.cas.push(spec);
        nodes.push(Node {
            name: name.clone(), parent: parent.clone(), depth: path.len() + 1,
            module: module.clone(), path: path.clone(), ta: t,
        });
        if path.len() + 1 < cfg.max_depth {
            let want = rng.below(cfg.max_kids as u64 + 1) as usize;
            // The first CA of each TAL gets at least one child if allowed.
            let want = if path.is_empty() && cfg.max_kids > 0 { want.max(1) } else { want };
            for j in 0..want {
                if queue.len() >= cfg.max_cas { break }
                let m = if rng.chance(1, 2) { module.clone() }
                    else { MODULES[rng.below(cfg.modules as u64) as usize].to_string() };
                let mut p = path.clone();
                p.push(j);
                queue.push((t, p, Some(name.clone()), m));
            }
        }
    }
    // Publication point content.
    for idx in 0..nodes.len() {
        let node = nodes[idx].clone();
        let next = times.after(T0 + 7 * DAY);
        let mut v = version(1, T0 - HOUR, next);
        v.crl.next_update = times.after(next);
        v.ee_not_after = times.after(T0 + YEAR);
        let kids: Vec<Node> = nodes.iter().filter(|n| n.parent.as_deref() == Some(node.name.as_str())).cloned().collect();
        for kid in &kids {
            let j = *kid.path.last().unwrap();
            let mut cert = child_cert(&format!("{}.cer", kid.name), 500 + j as u64, &kid.name, node_res(kid.ta, &kid.path));
            cert.not_after = times.after(T0 + YEAR);
            if cfg.fancy_res {
                if let ObjKind::Ca { res, trim, .. } = &mut cert.kind {
                    match rng.below(6) {
                        0 => *res = Res::inherit(),
                        1 => {
                            // Overclaims, but trimmed to what the parent has.
                            *trim = true;
                            res.v4.push("192.0.2.0/24".into());
                        }
                        _ => { }
                    }
                }
            }
            v.objects.push(cert);
        }
        let n_objs = rng.below(cfg.max_objs as u64 + 1) as usize;
        for n in 0..n_objs {
            let serial = 10 + n as u64;
            let inside = if !kids.is_empty() && rng.chance(1, 3) {
                Some(*rng.pick(&kids).path.last().unwrap())
            } else { None };
            let asn = own_asn(node.ta, &node.path, n);
            if rng.chance(1, 9) {
                // A listed file of a type routinator does not process, under
                // a name that sorts anywhere among its siblings.
                let name = format!("{}{n}.{}", rng.pick(&["a", "m", "z"][..]), rng.pick(&["tak", "spl", "txt"][..]));
                v.objects.push(raw(&name, format!("unknown type {name}").as_bytes()));
                continue
            }
            let mut obj = match rng.below(8) {
                0 | 1 | 2 => roa(&format!("o{n}.roa"), serial, asn, &v4_roa(node.ta, &node.path, n, inside), Some(24 + rng.below(3) as u8)),
                3 => roa(&format!("o{n}.roa"), serial, asn, &v6_roa(node.ta, &node.path, n), None),
                4 => {
                    // Several prefixes, one of them long.
                    let mut o = roa(&format!("o{n}.roa"), serial, asn, &v4_roa(node.ta, &node.path, n, inside), None);
                    if let ObjKind::Roa { prefixes, .. } = &mut o.kind {
                        prefixes.push(RoaPfx { prefix: v6_roa(node.ta, &node.path, n + 16), max_len: Some(64) });
                        let long = v4_roa(node.ta, &node.path, n + 8, None).replace("/24", "/28");
                        prefixes.push(RoaPfx { prefix: long, max_len: None });
                    }
                    o
                }
                5 => aspa(&format!("o{n}.asa"), serial, asn, &[asn + 100_000, asn + 100_001]),
                6 => router(&format!("o{n}.cer"), serial, &[asn], n % 6),
                _ => gbr(&format!("o{n}.gbr"), serial),
            };
            obj.not_after = times.after(T0 + YEAR);
            v.objects.push(obj);
        }
        world.ca_mut(&node.name).unwrap().versions.push(v);
    }
    Tree { world, tas, nodes }
}

//------------ Faults --------------------------------------------------------

/// An injectable fault: what it is applied to and what it does.
#[derive(Clone, Debug)]
pub struct Applied {
    /// Short stable description, e.g. `obj:sigflip t0c1/o2.roa`.
    pub what: String,
    /// The CA in whose publication point (or certificate) the fault sits.
    pub ca: String,
    /// `Some(object name)` if only that object's payload may be lost.
    pub only_object: Option<String>,
}

pub const OBJ_FAULTS: [&str; 12] = [
    "sigflip", "wrongkey", "crluri", "garbage", "expired", "notyet", "revoked", "overclaim",
    "missing", "corrupt", "replace", "unlisted",
];
pub const MFT_FAULTS: [&str; 11] = [
    "sigflip", "wrongkey", "crluri", "garbage", "missing", "corrupt", "ee-expired", "ee-notyet",
    "ee-revoked", "stale", "premature",
];
pub const CRL_FAULTS: [&str; 7] = [
    "sigflip", "wrongkey", "garbage", "missing", "unlisted", "corrupt", "stale",
];
pub const TA_FAULTS: [&str; 5] = ["wrongkey", "sigflip", "expired", "garbage", "otherkey"];

/// The TAL of trust anchor `idx` is configured with another key than the
/// one the (perfectly consistent) trust anchor certificate and its tree use.
pub fn tal_key_fault(world: &mut World, idx: usize) -> Option<Applied> {
    let tal = world.tals.get_mut(idx)?;
    // (an offset other than the one `ta:otherkey` uses, so that the two
    // faults never cancel out)
    tal.key = (tal.key + 7) % 26;
    Some(Applied { what: format!("tal:otherkey {}", tal.name), ca: String::new(), only_object: None })
}

/// A key index that is not the CA's own.
fn other_key(ca: &CaSpec) -> usize { if ca.key == 27 { 26 } else { 27 } }

/// Applies object fault `kind` to object `idx` of version `v` of CA `ca`.
/// Returns `None` if the fault does not apply to that object.
pub fn obj_fault(world: &mut World, ca: &str, v: usize, idx: usize, kind: &str, now: i64) -> Option<Applied> {
    let spec = world.ca(ca)?.clone();
    let version = world.ca_mut(ca)?.versions.get_mut(v)?;
    let obj = version.objects.get_mut(idx)?;
    let name = obj.name.clone();
    let is_ca = matches!(obj.kind, ObjKind::Ca { .. });
    let mut point_level = false;
    match kind {
        "sigflip" => obj.fault = Fault::SigFlip,
        "wrongkey" => obj.fault = Fault::WrongKey(other_key(&spec)),
        "crluri" => obj.fault = Fault::CrlUri(format!("{}other.crl", spec.repo)),
        "garbage" => obj.fault = Fault::Garbage,
        "expired" => obj.not_after = now - 1,
        "notyet" => obj.not_before = now + 1,
        "revoked" => version.crl.revoked.push(obj.serial),
        "overclaim" => match &mut obj.kind {
            ObjKind::Roa { prefixes, .. } => prefixes.push(RoaPfx { prefix: "192.0.2.0/24".into(), max_len: None }),
            ObjKind::Aspa { customer, .. } => *customer = 4_200_000_000,
            ObjKind::Router { asns, .. } => asns.push(4_200_000_001),
            ObjKind::Ca { res, trim, .. } => {
                // The shared encoder derives a CA's resources from the first
                // certificate it finds: keep them constant over versions.
                if res.inherit || v > 0 { return None }
                *trim = false;
                res.v4.push("198.51.100.0/24".into())
            }
            _ => return None,
        },
        "missing" => { obj.publish = Publish::Missing; point_level = true }
        "corrupt" => { obj.publish = Publish::Corrupt; point_level = true }
        "replace" => {
            // Another valid ROA's bytes under the listed name.
            // (same prefixes, so it validates; another origin AS).
            let ObjKind::Roa { prefixes, .. } = &obj.kind else { return None };
            let mut other = obj.clone();
            other.serial = obj.serial + 300;
            other.kind = ObjKind::Roa { asn: 65_500 + obj.serial as u32, prefixes: prefixes.clone() };
            obj.publish = Publish::Replace(Box::new(other));
            point_level = true
        }
        "unlisted" => obj.publish = Publish::Unlisted,
        _ => return None,
    }
    let _ = is_ca;
    Some(Applied {
        what: format!("obj:{kind} {ca}/{name}"), ca: ca.to_string(),
        only_object: if point_level { None } else { Some(name) },
    })
}

pub fn mft_fault(world: &mut World, ca: &str, v: usize, kind: &str, now: i64) -> Option<Applied> {
    let spec = world.ca(ca)?.clone();
    let version = world.ca_mut(ca)?.versions.get_mut(v)?;
    match kind {
        "sigflip" => version.mft_fault = Fault::SigFlip,
        "wrongkey" => version.mft_fault = Fault::WrongKey(other_key(&spec)),
        "crluri" => version.mft_fault = Fault::CrlUri(format!("{}other.crl", spec.repo)),
        "garbage" => version.mft_fault = Fault::Garbage,
        "missing" => version.mft_publish = Publish::Missing,
        "corrupt" => version.mft_publish = Publish::Corrupt,
        "ee-expired" => version.ee_not_after = now - 1,
        "ee-notyet" => version.ee_not_before = now + 1,
        "ee-revoked" => version.crl.revoked.push(version.ee_serial),
        "stale" => version.next_update = now - 1,
        "premature" => version.this_update = now + 1,
        _ => return None,
    }
    Some(Applied { what: format!("mft:{kind} {ca}"), ca: ca.to_string(), only_object: None })
}

pub fn crl_fault(world: &mut World, ca: &str, v: usize, kind: &str, now: i64) -> Option<Applied> {
    let spec = world.ca(ca)?.clone();
    let version = world.ca_mut(ca)?.versions.get_mut(v)?;
    match kind {
        "sigflip" => version.crl.fault = Fault::SigFlip,
        "wrongkey" => version.crl.fault = Fault::WrongKey(other_key(&spec)),
        "garbage" => version.crl.fault = Fault::Garbage,
        "missing" => version.crl.publish = Publish::Missing,
        "unlisted" => version.crl.publish = Publish::Unlisted,
        "corrupt" => version.crl.publish = Publish::Corrupt,
        "stale" => version.crl.next_update = now - 1,
        _ => return None,
    }
    Some(Applied { what: format!("crl:{kind} {ca}"), ca: ca.to_string(), only_object: None })
}

pub fn ta_fault(tas: &mut [TaFile], tal_key_of: &dyn Fn(&str) -> usize, idx: usize, kind: &str, now: i64) -> Option<Applied> {
    let file = tas.get_mut(idx)?;
    let TaContent::Cert { ca, key, not_after, fault, .. } = &mut file.content else { return None };
    let name = ca.clone();
    match kind {
        "wrongkey" => *fault = Fault::WrongKey(if *key == 27 { 26 } else { 27 }),
        "sigflip" => *fault = Fault::SigFlip,
        "expired" => *not_after = now - 1,
        "garbage" => file.content = TaContent::Raw { hex: "3003020101".into() },
        // A perfectly good certificate for a key other than the TAL's.
        "otherkey" => *key = (tal_key_of(&name) + 13) % 26,
        _ => return None,
    }
    Some(Applied { what: format!("ta:{kind} {name}"), ca: name, only_object: None })
}

/// Injects one random fault into version `v` of a random CA (or into a
/// trust anchor certificate).
pub fn random_fault(rng: &mut Rng, tree: &mut Tree, v: usize, now: i64) -> Option<Applied> {
    let names: Vec<String> = tree.world.cas.iter().filter(|c| c.versions.len() > v).map(|c| c.name.clone()).collect();
    if names.is_empty() { return None }
    for _ in 0..20 {
        let ca = rng.pick(&names).clone();
        let res = match rng.below(10) {
            0..=4 => {
                let n = tree.world.ca(&ca)?.versions[v].objects.len();
                if n == 0 { continue }
                let idx = rng.below(n as u64) as usize;
                let kind = *rng.pick(&OBJ_FAULTS[..]);
                obj_fault(&mut tree.world, &ca, v, idx, kind, now)
            }
            5 | 6 => mft_fault(&mut tree.world, &ca, v, *rng.pick(&MFT_FAULTS[..]), now),
            7 | 8 => crl_fault(&mut tree.world, &ca, v, *rng.pick(&CRL_FAULTS[..]), now),
            _ => {
                let world = tree.world.clone();
                let key_of = move |name: &str| world.ca(name).map(|c| c.key).unwrap_or(0);
                let idx = rng.below(tree.tas.len() as u64) as usize;
                if rng.chance(1, 4) { tal_key_fault(&mut tree.world, idx) }
                else { ta_fault(&mut tree.tas, &key_of, idx, *rng.pick(&TA_FAULTS[..]), now) }
            }
        };
        if res.is_some() { return res }
    }
    None
}

/// Adds a CA that reuses the key of `victim`'s ancestor `ancestor` and is
/// certified by `victim` (a certificate loop).
pub fn add_loop(tree: &mut Tree, victim: &str, ancestor: &str, v: usize) -> Option<Applied> {
    let key = tree.world.ca(ancestor)?.key;
    let vict = tree.world.ca(victim)?.clone();
    let node = tree.node(victim).clone();
    let name = format!("{victim}loop");
    let mut spec = ca(&name, key, &format!("{}/{}/", node.module, name), &format!("{}{}.cer", vict.repo, name));
    let mut pv = version(1, T0 - HOUR, T0 + 7 * DAY);
    pv.objects.push(roa("l.roa", 10, 65_001, &v4_roa(node.ta, &node.path, 99, None), None));
    spec.versions.push(pv);
    tree.world.cas.push(spec);
    tree.world.ca_mut(victim)?.versions.get_mut(v)?.objects.push(
        child_cert(&format!("{name}.cer"), 700, &name, node_res(node.ta, &node.path))
    );
    tree.nodes.push(Node {
        name: name.clone(), parent: Some(victim.to_string()), depth: node.depth + 1,
        module: node.module.clone(), path: node.path.clone(), ta: node.ta,
    });
    Some(Applied { what: format!("loop {name} key-of {ancestor}"), ca: name, only_object: None })
}

/// A newer copy (manifest number + 1, later thisUpdate) of every CA's
/// latest version; returns the new version index.
pub fn add_version(tree: &mut Tree, bump: i64) -> usize {
    let mut idx = 0;
    for ca in tree.world.cas.iter_mut() {
        let Some(last) = ca.versions.last().cloned() else { continue };
        let mut next = last.clone();
        let n = u64::from_str_radix(&last.number, 16).unwrap_or(1) + 1;
        next.number = format!("{n:x}");
        next.this_update += bump;
        next.crl.this_update += bump;
        next.crl.number += 1;
        next.ee_serial += 1;
        ca.versions.push(next);
        idx = ca.versions.len() - 1;
    }
    idx
}

/// Random engine options for the C01/C02 sweeps.
pub fn random_opts(rng: &mut Rng, allow_filters: bool) -> EngineOpts {
    let mut opts = EngineOpts {
        enable_aspa: rng.chance(2, 3),
        enable_bgpsec: rng.chance(2, 3),
        strict: rng.chance(1, 3),
        stale: *rng.pick(&[Policy::Reject, Policy::Reject, Policy::Warn, Policy::Accept]),
        ..Default::default()
    };
    if rng.chance(1, 6) { opts.max_ca_depth = 1 + rng.below(3) as usize }
    if allow_filters {
        opts.unsafe_vrps = *rng.pick(&[Policy::Accept, Policy::Warn, Policy::Reject, Policy::Reject]);
        if rng.chance(1, 4) { opts.limit_v4_len = Some(24) }
        if rng.chance(1, 6) { opts.limit_v6_len = Some(48) }
    }
    opts
}


/// A tree of the given shape: `(name, parent, index path, module, ta)` per
/// CA (parents first); every CA publishes a ROA and an ASPA.
pub fn shaped_tree(shape: &[(&str, Option<&str>, Vec<usize>, &str, usize)]) -> Tree {
    let mut world = World::default();
    let mut tas = Vec::new();
    let mut nodes = Vec::new();
    for (key, (name, parent, path, module, ta)) in shape.iter().enumerate() {
        let cert_uri = match parent {
            None => format!("rsync://{module}/ta{ta}.cer"),
            Some(p) => format!("{}{}.cer", world.ca(p).expect("parent").repo, name),
        };
        let mut spec = ca(name, key, &format!("{module}/{name}/"), &cert_uri);
        let mut v = version(1, T0 - HOUR, T0 + 7 * DAY);
        v.objects.push(roa("o0.roa", 10, own_asn(*ta, path, 0), &v4_roa(*ta, path, 0, None), None));
        let asn = own_asn(*ta, path, 1);
        v.objects.push(aspa("o1.asa", 11, asn, &[asn + 100_000]));
        spec.versions.push(v);
        world.cas.push(spec);
        match parent {
            None => {
                world.tals.push(tal(&format!("tal{ta}"), key, &[&cert_uri]));
                tas.push(ta_file(&cert_uri, name, key, node_res(*ta, &[])));
            }
            Some(p) => {
                let j = *path.last().expect("path");
                world.ca_mut(p).unwrap().versions[0].objects.push(
                    child_cert(&format!("{name}.cer"), 500 + j as u64, name, node_res(*ta, path))
                );
            }
        }
        nodes.push(Node {
            name: name.to_string(), parent: parent.map(|p| p.to_string()), depth: path.len() + 1,
            module: module.to_string(), path: path.clone(), ta: *ta,
        });
    }
    Tree { world, tas, nodes }
}

/// Gives version `v` of every CA a ROA that no other version has, so that a
/// newer version is visible in the payload.
pub fn bump_payload(tree: &mut Tree, v: usize) {
    let nodes = tree.nodes.clone();
    for node in nodes {
        let Some(pv) = tree.world.ca_mut(&node.name).and_then(|c| c.versions.get_mut(v)) else { continue };
        let asn = 65_300 + (pv.ee_serial % 97) as u32 + 100 * v as u32;
        pv.objects.push(roa(
            &format!("n{v}.roa"), 60 + v as u64, asn + node.name.len() as u32 * 7 + node.path.iter().sum::<usize>() as u32,
            &v4_roa(node.ta, &node.path, 13, None), None
        ));
    }
}
