//! Shared case machinery of the engine2 components: playing a scenario,
//! ground truth, model request, scenario families.

use std::collections::BTreeSet;
use rpkitest::gen::*;
use rpkitest::model::Encoder;
use rpkitest::scenario::{Order, Player, RunObs, RunSpec, Scenario};
use rpkitest::*;
use rvcore::{Ctx, Rng};
use serde_json::{json, Value};
use crate::gen2::*;
use crate::truth2::{self, RunTruth};

pub struct Played {
    pub scn: Scenario,
    pub obs: Vec<RunObs>,
    pub truth: Vec<RunTruth>,
    /// Request for the Lean engine model (without the component name).
    pub request: String,
    /// The implementation's behaviour in the `engine` component's format.
    pub impl_line: String,
    /// Can the shared model be compared (no unsafe-VRP / length filters)?
    pub comparable: bool,
}

pub fn to_json<T: serde::Serialize>(value: &T) -> Value {
    serde_json::to_value(value).expect("serialise")
}

pub fn comparable(opts: &EngineOpts) -> bool {
    opts.unsafe_vrps != Policy::Reject && opts.limit_v4_len.is_none() && opts.limit_v6_len.is_none()
}

pub fn play(player: &mut Player, input: &Value) -> Result<Played, String> {
    let scn: Scenario = serde_json::from_value(input["scenario"].clone()).map_err(|e| e.to_string())?;
    let memo = input["memo"].as_u64().unwrap_or(0) as usize;
    let obs = player.play(&scn, memo);
    let locals: Vec<_> = obs.iter().map(|o| &o.local).collect();
    let truth = truth2::scenario_truth(&player.builder, &scn, &locals);
    let (request, impl_line) = {
        let mut enc = Encoder::new(&player.builder, &scn);
        let request = enc.request(&obs);
        let impl_line = enc.impl_line(&obs);
        (request, impl_line)
    };
    let comparable = comparable(&scn.opts);
    Ok(Played { scn, obs, truth, request, impl_line, comparable })
}

pub fn obs_json(played: &Played) -> Value {
    json!(played.obs.iter().zip(&played.truth).map(|(ob, t)| json!({
        "status": ob.out.status.as_str(),
        "served": ob.out.payload(),
        "refresh": ob.out.refresh,
        "expected": t.expected,
        "refresh_bound": t.refresh_bound,
        "refresh_reason": t.refresh_reason,
        "points": t.points.iter().map(|p| json!({
            "ca": p.ca, "used": p.used.as_ref().map(|u| format!("{}#{} {}", u.0, u.1, u.2)),
            "items": p.items.iter().map(|i| format!("{} <- {}", i.payload, i.obj)).collect::<Vec<_>>(),
        })).collect::<Vec<_>>(),
        "rejected": t.rejected.iter().map(|(n, _)| n.clone()).collect::<Vec<_>>(),
        "publication": ob.out.metrics.publication,
        "rsync": ob.out.metrics.rsync,
    })).collect::<Vec<_>>())
}

/// What was served in run `r`, as atoms (ASPA providers split).
pub fn served(played: &Played, r: usize) -> BTreeSet<String> {
    truth2::atoms(&played.obs[r].out.payload())
}

pub fn count_stats(ctx: &mut Ctx, played: &Played) {
    for (ob, t) in played.obs.iter().zip(&played.truth) {
        ctx.count(&format!("run-status:{}", ob.out.status.as_str()));
        for (key, value) in &ob.out.metrics.publication {
            ctx.count_n(&format!("metric:{key}"), *value as u64);
        }
        for p in &t.points {
            ctx.count(&format!("point:{}", p.used.as_ref().map(|u| u.2).unwrap_or("rejected")));
        }
        ctx.count_n("items:expected", t.expected.len() as u64);
    }
}

/// Records the case for the model comparison (component `engine` of
/// `drv-engine`) or as oracle-only.
pub fn record(ctx: &mut Ctx, input: &Value, played: &Played) {
    if played.comparable {
        ctx.case(input, &format!("engine {}", played.request), &played.impl_line);
    }
    else {
        let line: Vec<String> = played.obs.iter().map(|o| o.out.payload().join(";")).collect();
        ctx.case_oracle_only(input, &line.join(" | "));
    }
}

pub fn run_spec(now: i64, serve: Serve, order: Order) -> RunSpec {
    RunSpec { now, serve, order, update: None, tamper: vec![] }
}

pub fn case_json(kind: &str, tree: &Tree, opts: &EngineOpts, runs: Vec<RunSpec>, faults: &[Applied], extra: Value) -> Value {
    let scn = Scenario { world: tree.world.clone(), opts: opts.clone(), runs };
    json!({
        "kind": kind,
        "faults": faults.iter().map(|f| f.what.clone()).collect::<Vec<_>>(),
        "scenario": to_json(&scn),
        "extra": extra,
    })
}

pub fn small_cfg(rng: &mut Rng) -> TreeCfg {
    TreeCfg {
        tals: 1 + rng.below(3) as usize,
        max_depth: 2 + rng.below(3) as usize,
        max_kids: 1 + rng.below(3) as usize,
        max_objs: 4,
        max_cas: 4 + rng.below(6) as usize,
        modules: 1 + rng.below(2) as usize,
        random_times: rng.chance(1, 2),
        fancy_res: rng.chance(1, 2),
    }
}

/// The scenario families shared by C01 and C02.
///
/// * `single`: a fresh cache, one run over a tree with 1–3 random faults.
/// * `fallback`: run 1 over the fault-free tree, run 2 (15 minutes later)
///   over a newer version of every CA with 1–3 faults, so that broken
///   points fall back to what the store holds.
/// * `aging`: run 1 fault-free; run 2 much later with the same server
///   content, when some objects have expired.
/// * `sweep`: every object / manifest / CRL / TA fault singly on one fixed
///   three-level tree.
pub fn generate(ctx: &mut Ctx, allow_filters: bool) -> Vec<Value> {
    let mut cases = Vec::new();
    let n = ctx.budget(30, 900);
    for i in 0..n {
        let mut rng = ctx.rng.fork();
        let cfg = small_cfg(&mut rng);
        let mut tree = gen_tree(&mut rng, &cfg);
        let opts = random_opts(&mut rng, allow_filters && i % 3 == 2);
        let order = Order::Seed(rng.next());
        match i % 4 {
            0 | 1 => {
                let mut faults = Vec::new();
                if rng.chance(1, 5) {
                    // A certificate loop somewhere below a trust anchor.
                    let deep: Vec<Node> = tree.nodes.iter().filter(|n| n.depth >= 2).cloned().collect();
                    if !deep.is_empty() {
                        let victim = rng.pick(&deep).clone();
                        let anc = if rng.chance(1, 2) { victim.name.clone() } else { victim.parent.clone().unwrap() };
                        faults.extend(add_loop(&mut tree, &victim.name, &anc, 0));
                    }
                }
                for _ in 0..(1 + rng.below(3)) {
                    faults.extend(random_fault(&mut rng, &mut tree, 0, T0));
                }
                let mut serve = tree.serve(0);
                if rng.chance(1, 8) && serve.points.len() > 1 {
                    // One CA publishes nothing at all.
                    let k = rng.below(serve.points.len() as u64) as usize;
                    let (name, _) = serve.points.remove(k);
                    faults.push(Applied { what: format!("unpublished {name}"), ca: name, only_object: None });
                }
                cases.push(case_json("single", &tree, &opts, vec![run_spec(T0, serve, order)], &faults, json!(null)));
            }
            2 => {
                let base = tree.serve(0);
                let v = add_version(&mut tree, 600);
                let mut faults = Vec::new();
                for _ in 0..(1 + rng.below(3)) {
                    faults.extend(random_fault(&mut rng, &mut tree, v, T0 + 900));
                }
                let mut serve = tree.serve(v);
                if rng.chance(1, 4) {
                    let module = rng.pick(&MODULES).to_string();
                    let mode = if rng.chance(1, 2) { RsyncMode::Fail { code: 12 } }
                        else { RsyncMode::Partial { files: 1 + rng.below(6) as usize, code: 23 } };
                    faults.push(Applied { what: format!("rsync {module} {mode:?}"), ca: String::new(), only_object: None });
                    serve.rsync.push(RsyncCtl { module, mode });
                }
                cases.push(case_json("fallback", &tree, &opts, vec![
                    run_spec(T0, base, Order::Sorted),
                    run_spec(T0 + 900, serve, order),
                ], &faults, json!(null)));
            }
            _ => {
                // Aging needs varied validity periods.
                let cfg = TreeCfg { random_times: true, ..cfg };
                let tree = gen_tree(&mut rng, &cfg);
                let later = T0 + 3 * HOUR + rng.below(300 * DAY as u64) as i64;
                let mut second = run_spec(later, tree.serve(0), order);
                if rng.chance(1, 3) { second.update = Some(false) }
                cases.push(case_json("aging", &tree, &opts, vec![
                    run_spec(T0, tree.serve(0), Order::Sorted), second,
                ], &[], json!({"later": later - T0})));
            }
        }
    }
    cases.extend(sweep(ctx));
    cases.extend(matrix());
    cases.extend(unknown_types(ctx));
    cases.extend(tal_switch());
    cases
}

/// The fixed tree of the single-fault sweep: trust anchor, two children in
/// different modules, one grandchild; every kind of object.
pub fn sweep_tree() -> Tree {
    let mut rng = Rng(7);
    let cfg = TreeCfg {
        tals: 1, max_depth: 1, max_kids: 0, max_objs: 0, max_cas: 1, modules: 1,
        random_times: false, fancy_res: false,
    };
    let mut tree = gen_tree(&mut rng, &cfg);
    // Build the rest by hand on top of the generated trust anchor CA.
    let module = tree.nodes[0].module.clone();
    let add = |tree: &mut Tree, name: &str, parent: &str, path: Vec<usize>, module: &str, key: usize| {
        let prepo = tree.world.ca(parent).unwrap().repo.clone();
        let mut spec = ca(name, key, &format!("{module}/{name}/"), &format!("{prepo}{name}.cer"));
        spec.versions.push(version(1, T0 - HOUR, T0 + 7 * DAY));
        tree.world.cas.push(spec);
        let j = *path.last().unwrap();
        tree.world.ca_mut(parent).unwrap().versions[0].objects.push(
            child_cert(&format!("{name}.cer"), 500 + j as u64, name, node_res(0, &path))
        );
        tree.nodes.push(Node {
            name: name.into(), parent: Some(parent.into()), depth: path.len() + 1,
            module: module.into(), path, ta: 0,
        });
    };
    add(&mut tree, "t0c0", "t0", vec![0], &module, 1);
    add(&mut tree, "t0c1", "t0", vec![1], MODULES[1], 2);
    add(&mut tree, "t0c0c0", "t0c0", vec![0, 0], &module, 3);
    let payload = |v: &mut PointVersion, tag: u32, v4: &str, v6: &str, asn: u32| {
        v.objects.push(roa("a.roa", 10, asn, v4, Some(24)));
        v.objects.push(roa("b.roa", 11, asn + 1, v6, None));
        v.objects.push(aspa("c.asa", 12, asn + 2, &[200_000 + tag, 200_001 + tag]));
        v.objects.push(router("r.cer", 13, &[asn + 3], (tag % 6) as usize));
        v.objects.push(gbr("g.gbr", 14));
    };
    payload(&mut tree.world.ca_mut("t0").unwrap().versions[0], 0, "10.64.0.0/24", "2a00:ffff:1::/48", 64_750);
    payload(&mut tree.world.ca_mut("t0c0").unwrap().versions[0], 1, "10.8.0.0/24", "2a00:0fff:1::/48", 64_186);
    payload(&mut tree.world.ca_mut("t0c1").unwrap().versions[0], 2, "10.24.0.0/24", "2a00:1fff:1::/48", 64_436);
    payload(&mut tree.world.ca_mut("t0c0c0").unwrap().versions[0], 3, "10.0.128.0/24", "2a00:00ff:1::/48", 64_045);
    tree
}

fn sweep(ctx: &mut Ctx) -> Vec<Value> {
    let mut cases = Vec::new();
    let base = sweep_tree();
    let opts = EngineOpts { enable_aspa: true, enable_bgpsec: true, ..Default::default() };
    let thorough = !ctx.quick();
    let targets: Vec<&str> = if thorough { vec!["t0", "t0c0", "t0c1", "t0c0c0"] } else { vec!["t0c0"] };
    let base_serve = base.serve(0);
    cases.push(case_json("sweep-base", &base, &opts, vec![run_spec(T0, base_serve.clone(), Order::Sorted)], &[], json!(null)));
    let mut k = 0u64;
    for ca in targets {
        let n_objs = base.world.ca(ca).unwrap().versions[0].objects.len();
        for idx in 0..n_objs {
            for kind in OBJ_FAULTS {
                // Quick tier: every fault kind once per object class, rotating.
                k += 1;
                if !thorough && (k + ctx.seed) % 4 != 0 { continue }
                let mut tree = base.clone();
                let Some(f) = obj_fault(&mut tree.world, ca, 0, idx, kind, T0) else { continue };
                let extra = json!({"base": to_json(&Scenario {
                    world: base.world.clone(), opts: opts.clone(),
                    runs: vec![run_spec(T0, base_serve.clone(), Order::Sorted)],
                }), "only_object": f.only_object, "ca": ca});
                cases.push(case_json("sweep-obj", &tree, &opts, vec![run_spec(T0, tree.serve(0), Order::Sorted)], &[f], extra));
            }
        }
        for kind in MFT_FAULTS {
            let mut tree = base.clone();
            let Some(f) = mft_fault(&mut tree.world, ca, 0, kind, T0) else { continue };
            cases.push(case_json("sweep-mft", &tree, &opts, vec![run_spec(T0, tree.serve(0), Order::Sorted)], &[f], json!(null)));
        }
        for kind in CRL_FAULTS {
            let mut tree = base.clone();
            let Some(f) = crl_fault(&mut tree.world, ca, 0, kind, T0) else { continue };
            cases.push(case_json("sweep-crl", &tree, &opts, vec![run_spec(T0, tree.serve(0), Order::Sorted)], &[f], json!(null)));
        }
    }
    for kind in TA_FAULTS {
        let mut tree = base.clone();
        let world = tree.world.clone();
        let key_of = move |name: &str| world.ca(name).map(|c| c.key).unwrap_or(0);
        let Some(f) = ta_fault(&mut tree.tas, &key_of, 0, kind, T0) else { continue };
        cases.push(case_json("sweep-ta", &tree, &opts, vec![run_spec(T0, tree.serve(0), Order::Sorted)], &[f], json!(null)));
    }
    {
        let mut tree = base.clone();
        if let Some(f) = tal_key_fault(&mut tree.world, 0) {
            cases.push(case_json("sweep-ta", &tree, &opts, vec![run_spec(T0, tree.serve(0), Order::Sorted)], &[f], json!(null)));
        }
    }
    cases
}

/// The explicit matrix object kind × certificate-level fault, always run:
/// ROA, ASPA, router certificate, child CA certificate, GBR × revoked, CRL
/// URI mismatch, expired, not yet valid, bad signature, overclaim, on the
/// fixed tree with ASPA and BGPsec enabled. Two runs over the same server
/// content: the first takes the fetched path, the second (same manifest
/// bytes) the stored one.
fn matrix() -> Vec<Value> {
    let mut cases = Vec::new();
    let base = sweep_tree();
    let opts = EngineOpts { enable_aspa: true, enable_bgpsec: true, ..Default::default() };
    let base_scn = Scenario {
        world: base.world.clone(), opts: opts.clone(),
        runs: vec![run_spec(T0, base.serve(0), Order::Sorted)],
    };
    let ca = "t0c0";
    let objs = base.world.ca(ca).unwrap().versions[0].objects.clone();
    for (idx, obj) in objs.iter().enumerate() {
        for kind in ["revoked", "crluri", "expired", "notyet", "sigflip", "overclaim"] {
            let mut tree = base.clone();
            // "Not yet valid" has to hold for the later run as well.
            let now = if kind == "notyet" { T0 + 600 } else { T0 };
            let Some(f) = obj_fault(&mut tree.world, ca, 0, idx, kind, now) else { continue };
            let extra = json!({"base": to_json(&base_scn), "only_object": obj.name, "ca": ca});
            cases.push(case_json("sweep-obj", &tree, &opts, vec![
                run_spec(T0, tree.serve(0), Order::Sorted),
                run_spec(T0 + 600, tree.serve(0), Order::Sorted),
            ], &[f], extra));
        }
    }
    cases
}

/// The processing order that walks the entries of `ca`'s manifest sorted by
/// name, except that `name` comes at position `pos`.
fn order_with(tree: &Tree, ca: &str, name: &str, pos: usize) -> (Order, usize) {
    let spec = tree.world.ca(ca).unwrap();
    let mut names: Vec<String> = vec![spec.crl.clone()];
    names.extend(spec.versions[0].objects.iter().map(|o| o.name.clone()));
    names.sort_by(|a, b| a.as_bytes().cmp(b.as_bytes()));
    let s = names.iter().position(|n| n == name).expect("entry");
    let mut perm: Vec<usize> = (0..names.len()).filter(|i| *i != s).collect();
    let pos = pos.min(perm.len());
    perm.insert(pos, s);
    (Order::Table(vec![perm]), names.len())
}

/// Listed, present, hash-matching files of types routinator does not
/// process (`.tak`, `.spl`, `.txt`), at every position of the processing
/// order, in a CA with a child (the child certificate and its subtree are
/// siblings) and in a leaf CA. They contribute nothing and harm nobody.
fn unknown_types(ctx: &mut Ctx) -> Vec<Value> {
    let mut cases = Vec::new();
    let base = sweep_tree();
    let opts = EngineOpts { enable_aspa: true, enable_bgpsec: true, ..Default::default() };
    let base_scn = Scenario {
        world: base.world.clone(), opts: opts.clone(),
        runs: vec![run_spec(T0, base.serve(0), Order::Sorted)],
    };
    let thorough = !ctx.quick();
    for (ca, name) in [("t0c0", "x.tak"), ("t0c0c0", "m.spl"), ("t0", "notes.txt")] {
        let mut tree = base.clone();
        tree.world.ca_mut(ca).unwrap().versions[0].objects.push(
            raw(name, b"0\x03\x02\x01\x2a well-formed enough, unknown type")
        );
        let (_, n) = order_with(&tree, ca, name, 0);
        for pos in 0..n {
            // Quick tier: every position for the CA with a child, every
            // other one elsewhere.
            if !thorough && ca != "t0c0" && (pos + ctx.seed as usize) % 2 == 1 { continue }
            let (order, _) = order_with(&tree, ca, name, pos);
            let f = Applied {
                what: format!("unknown-type {ca}/{name} at {pos}/{n}"), ca: ca.into(), only_object: None,
            };
            let extra = json!({"base": to_json(&base_scn), "only_object": name, "ca": ca});
            cases.push(case_json("sweep-obj", &tree, &opts, vec![
                run_spec(T0, tree.serve(0), order.clone()),
                run_spec(T0 + 600, tree.serve(0), order),
            ], &[f], extra));
        }
    }
    cases
}

/// Histories in which the TAL file for an unchanged URI gets another key
/// between runs. Run 0 (old TAL) stores the old-key trust anchor certificate
/// or nothing; in the later runs (new TAL) upstream still serves the old-key
/// certificate, garbage or nothing, or the run is made without update. No
/// run under the new TAL may serve anything: the only certificates around
/// carry the old key.
fn tal_switch() -> Vec<Value> {
    let mut cases = Vec::new();
    let mut tree = sweep_tree();
    let old = tree.world.tals[0].clone();
    let mut first = old.clone();
    first.runs = Some(vec![0]);
    let mut second = old.clone();
    second.key = (old.key + 7) % 26;
    second.runs = Some(vec![1, 2]);
    tree.world.tals = vec![first, second];
    let opts = EngineOpts { enable_aspa: true, enable_bgpsec: true, ..Default::default() };
    let garbage = |uri: &str| TaFile { uri: uri.into(), content: TaContent::Raw { hex: "3003020101".into() } };
    let uri = old.uris[0].clone();
    for stored in ["old-key", "none"] {
        for download in ["old-key", "garbage", "absent", "no-update", "rsync-fails"] {
            let mut r0 = run_spec(T0, tree.serve(0), Order::Sorted);
            if stored == "none" { r0.serve.tas = vec![garbage(&uri)] }
            let mut r1 = run_spec(T0 + 600, tree.serve(0), Order::Sorted);
            match download {
                "garbage" => r1.serve.tas = vec![garbage(&uri)],
                "absent" => r1.serve.tas = vec![],
                "no-update" => r1.update = Some(false),
                "rsync-fails" => r1.serve.rsync.push(RsyncCtl {
                    module: MODULES[0].into(), mode: RsyncMode::Fail { code: 12 }
                }),
                _ => { }
            }
            let mut r2 = r1.clone();
            r2.now = T0 + 1200;
            r2.update = Some(false);
            let f = Applied {
                what: format!("tal-key-switch stored={stored} download={download}"),
                ca: String::new(), only_object: None,
            };
            cases.push(case_json("tal-switch", &tree, &opts, vec![r0, r1, r2], &[f], json!(null)));
        }
    }
    cases
}

pub fn inputs(ctx: &mut Ctx, id: &str, allow_filters: bool) -> Vec<Value> {
    match ctx.replay_inputs() {
        Some(inputs) => inputs,
        None => {
            let mut inputs = ctx.corpus(id);
            inputs.extend(generate(ctx, allow_filters));
            inputs
        }
    }
}
