//! C41: a broken repository affects only its own subtree.
//!
//! Differential runs: the same tree, spread over 2–3 rsync modules/hosts,
//! is validated once as is and once with one module broken (unreachable,
//! failing or partial rsync, bad objects, stale manifests). The payload of
//! every CA that has no publication point (and no trust anchor certificate)
//! of the broken module on its chain must be the same in both runs; under
//! `unsafe-vrps = reject` VRPs overlapping the resources of the CAs in the
//! broken subtrees are exempt.

use std::collections::{BTreeMap, BTreeSet};
use rpkitest::gen::*;
use rpkitest::scenario::{Order, Player, Scenario};
use rpkitest::truth::{obj_payload, parse_prefix, EffRes};
use rpkitest::*;
use rvcore::Ctx;
use serde_json::{json, Value};
use crate::cases::*;
use crate::gen2::*;
use crate::truth2;

/// Payload atoms of one object as described.
fn obj_atoms(o: &ObjSpec) -> Vec<String> {
    match &o.kind {
        ObjKind::Aspa { customer, providers } => {
            providers.iter().map(|p| format!("ASPA AS{customer} {p}")).collect()
        }
        _ => obj_payload(o),
    }
}

/// payload atom → owning CA, from the description (all versions).
fn owners(world: &World) -> BTreeMap<String, String> {
    let mut res = BTreeMap::new();
    for ca in &world.cas {
        for v in &ca.versions {
            for o in &v.objects {
                for a in obj_atoms(o) { res.insert(a, ca.name.clone()); }
                if let Publish::Replace(other) = &o.publish {
                    for a in obj_atoms(other) { res.insert(a, ca.name.clone()); }
                }
            }
        }
    }
    res
}

fn module_of(uri: &str) -> String {
    let rest = uri.trim_start_matches("rsync://");
    let mut parts = rest.splitn(3, '/');
    format!("{}/{}", parts.next().unwrap_or(""), parts.next().unwrap_or(""))
}

/// The CAs whose chain touches module `broken`: CAs published there, CAs
/// below a trust anchor certificate served from there, and descendants.
fn affected(world: &World, parents: &BTreeMap<String, String>, broken: &str) -> BTreeSet<String> {
    let broken: Vec<&str> = broken.split(',').collect();
    let mut res = BTreeSet::new();
    for ca in &world.cas {
        let mut cur = Some(ca.name.clone());
        let mut hit = false;
        while let Some(name) = cur {
            let spec = world.ca(&name).expect("CA");
            if broken.contains(&module_of(&spec.repo).as_str()) { hit = true }
            if !parents.contains_key(&name) && broken.contains(&module_of(&spec.cert_uri).as_str()) { hit = true }
            cur = parents.get(&name).cloned();
        }
        if hit { res.insert(ca.name.clone()); }
    }
    res
}

fn parents_of(world: &World) -> BTreeMap<String, String> {
    let mut res = BTreeMap::new();
    for ca in &world.cas {
        for v in &ca.versions {
            for o in &v.objects {
                if let ObjKind::Ca { ca: child, .. } = &o.kind {
                    res.insert(child.clone(), ca.name.clone());
                }
            }
        }
    }
    res
}

/// Resources certified to the affected CAs (explicit ones, all versions).
fn affected_res(world: &World, aff: &BTreeSet<String>, tas: &[TaFile]) -> Vec<EffRes> {
    let mut res = Vec::new();
    for ca in &world.cas {
        for v in &ca.versions {
            for o in &v.objects {
                if let ObjKind::Ca { ca: child, res: r, .. } = &o.kind {
                    if aff.contains(child) && !r.inherit { res.push(EffRes::listed(r)) }
                    if aff.contains(child) && r.inherit {
                        // Inherits: whatever the issuer holds; be generous.
                        res.push(EffRes::listed(&Res::all()))
                    }
                }
            }
        }
    }
    for ta in tas {
        if let TaContent::Cert { ca, res: r, .. } = &ta.content {
            if aff.contains(ca) { res.push(EffRes::listed(r)) }
        }
    }
    res
}

fn overlaps(atom: &str, res: &[EffRes]) -> bool {
    // "AS64496 10.0.0.0/24-24"
    if atom.starts_with("ASPA ") || atom.starts_with("RK ") { return false }
    let Some(rest) = atom.split_whitespace().nth(1) else { return false };
    let Some((prefix, _)) = rest.rsplit_once('-') else { return false };
    let (v4, lo, hi, _) = parse_prefix(prefix);
    res.iter().any(|r| if v4 { r.v4.intersects(lo, hi) } else { r.v6.intersects(lo, hi) })
}

fn run_input(ctx: &mut Ctx, player: &mut Player, input: &Value) {
    let broken = input["broken"].as_str().unwrap_or("").to_string();
    let base_input = json!({"scenario": input["base"].clone()});
    let (base, fault) = match (play(player, &base_input), play(player, input)) {
        (Ok(a), Ok(b)) => (a, b),
        (a, b) => {
            let err = a.err().or(b.err()).unwrap_or_default();
            ctx.oracle_fail("bad-input", &err, input, json!(null));
            return
        }
    };
    count_stats(ctx, &fault);
    let kind = input["kind"].as_str().unwrap_or("?").to_string();
    let world = &fault.scn.world;
    let parents = parents_of(world);
    let aff = affected(world, &parents, &broken);
    // Owners from both descriptions: a fault may change an object's payload
    // (e.g. an overclaiming ASPA gets another customer AS).
    let mut owner = owners(&base.scn.world);
    owner.extend(owners(world));
    let last = fault.obs.len() - 1;
    let tas = &fault.scn.runs[last].serve.tas;
    let exempt_res = affected_res(world, &aff, tas);
    let reject = fault.scn.opts.unsafe_vrps == Policy::Reject;
    let observed = json!({"affected": aff, "base": obs_json(&base), "fault": obs_json(&fault)});
    for r in 0..fault.obs.len() {
        for (which, p) in [("baseline", &base), ("faulty", &fault)] {
            if !p.obs[r].out.ok() {
                ctx.oracle_fail(
                    "run-failed",
                    &format!("{which} run {r} ended with {} ({kind}, broken module {broken})",
                        p.obs[r].out.status.as_str()),
                    input, observed.clone()
                );
                return
            }
        }
        let restrict = |set: BTreeSet<String>| -> BTreeSet<String> {
            set.into_iter().filter(|a| {
                match owner.get(a) {
                    Some(ca) => !aff.contains(ca) && !(reject && overlaps(a, &exempt_res)),
                    // Not from the description at all: keep, so that it shows.
                    None => true,
                }
            }).collect()
        };
        let b = restrict(served(&base, r));
        let f = restrict(served(&fault, r));
        if b != f {
            let lost: Vec<_> = b.difference(&f).cloned().collect();
            let gained: Vec<_> = f.difference(&b).cloned().collect();
            ctx.oracle_fail(
                "unaffected-ca-changed",
                &format!(
                    "run {r} ({kind}): breaking module {broken} (faults {}) changed the payload of CAs \
                     outside its subtrees {:?}: lost {lost:?}, gained {gained:?}",
                    input["faults"], aff
                ),
                input, observed.clone()
            );
        }
        else {
            ctx.count_n("unaffected-items-compared", b.len() as u64);
            let changed = served(&base, r) != served(&fault, r);
            ctx.count(if changed { "fault-visible:yes" } else { "fault-visible:no" });
        }
        // The ground truth must agree with what is served in both runs.
        for (which, p) in [("baseline", &base), ("faulty", &fault)] {
            let s = served(p, r);
            let t = &p.truth[r];
            if !t.expected.is_subset(&s) || !s.is_subset(&t.justified) {
                ctx.count(&format!("truth-mismatch:{which}"));
            }
        }
    }
    ctx.nontrivial(format!("{kind} aff={} of {}", aff.len(), world.cas.len()));
    ctx.count(&format!("kind:{kind}"));
    record(ctx, input, &fault);
    let _ = truth2::atoms(&[]);
}

fn generate(ctx: &mut Ctx) -> Vec<Value> {
    let mut cases = Vec::new();
    let n = ctx.budget(22, 420);
    let mut i = 0;
    let mut attempts = 0;
    while i < n && attempts < 20 * n {
        attempts += 1;
        let mut rng = ctx.rng.fork();
        let cfg = TreeCfg {
            tals: 1 + rng.below(2) as usize, max_depth: 2 + rng.below(3) as usize,
            max_kids: 2 + rng.below(2) as usize, max_objs: 3, max_cas: 5 + rng.below(6) as usize,
            modules: 2 + rng.below(2) as usize, random_times: false, fancy_res: rng.chance(1, 3),
        };
        let base_tree = gen_tree(&mut rng, &cfg);
        // The broken module: one that hosts some CA but not everything.
        let used: BTreeSet<String> = base_tree.nodes.iter().map(|n| n.module.clone()).collect();
        if used.len() < 2 { continue }
        let used: Vec<String> = used.into_iter().collect();
        let broken = rng.pick(&used).clone();
        let mut base_tree = base_tree;
        // Every CA of the broken module whose issuer lives elsewhere gets
        // resources that the issuer also uses itself: the issuer publishes a
        // ROA inside the child's block, so that "unsafe VRPs" exist whenever
        // the child's point is rejected.
        let border: Vec<Node> = base_tree.nodes.iter().filter(|n| {
            n.module == broken && n.parent.as_ref().map(|p| base_tree.node(p).module != broken).unwrap_or(false)
        }).cloned().collect();
        for (k, node) in border.iter().enumerate() {
            let parent = base_tree.node(node.parent.as_ref().unwrap()).clone();
            let j = *node.path.last().unwrap();
            let prefix = v4_roa(parent.ta, &parent.path, 5 + j, Some(j));
            let obj = roa(&format!("ov{j}.roa"), 40 + j as u64, 65_100 + (i * 8 + k) as u32, &prefix, None);
            base_tree.world.ca_mut(&parent.name).unwrap().versions[0].objects.push(obj);
        }
        let parents = parents_of(&base_tree.world);
        let aff = affected(&base_tree.world, &parents, &broken);
        if aff.len() == base_tree.world.cas.len() && !rng.chance(1, 8) { continue }
        let mut opts = random_opts(&mut rng, false);
        opts.unsafe_vrps = *rng.pick(&[Policy::Accept, Policy::Warn, Policy::Reject]);
        opts.threads = 1 + rng.below(3) as usize;
        opts.max_ca_depth = 32;
        let two_runs = rng.chance(1, 2);
        let order = Order::Seed(rng.next());
        let mut tree = base_tree.clone();
        let (v, now) = if two_runs {
            // The newer version carries new payload, so that a repository
            // that is wrongly not fetched again shows.
            let vb = add_version(&mut base_tree, 600);
            bump_payload(&mut base_tree, vb);
            let v = add_version(&mut tree, 600);
            bump_payload(&mut tree, v);
            (v, T0 + 900)
        } else { (0, T0) };
        let in_module: Vec<String> = tree.nodes.iter().filter(|n| n.module == broken).map(|n| n.name.clone()).collect();
        let mut faults = Vec::new();
        let mut serve = tree.serve(v);
        let kind = *rng.pick(&["unreachable", "fail", "partial", "objects", "stale", "mixed"]);
        match kind {
            "unreachable" => {
                serve.points.retain(|(name, _)| !in_module.contains(name));
                serve.tas.retain(|ta| module_of(&ta.uri) != broken);
                faults.push(format!("unreachable {broken}"));
            }
            "fail" => {
                let code = *rng.pick(&[1, 10, 12, 23, 30, 35]);
                serve.rsync.push(RsyncCtl { module: broken.clone(), mode: RsyncMode::Fail { code } });
                faults.push(format!("rsync-fail {broken} {code}"));
            }
            "partial" => {
                let files = rng.below(8) as usize;
                serve.rsync.push(RsyncCtl { module: broken.clone(), mode: RsyncMode::Partial { files, code: 23 } });
                faults.push(format!("rsync-partial {broken} {files}"));
            }
            "stale" => {
                for name in &in_module {
                    let which = rng.below(3);
                    if which != 1 { faults.extend(mft_fault(&mut tree.world, name, v, "stale", now).map(|f| f.what)); }
                    if which != 0 { faults.extend(crl_fault(&mut tree.world, name, v, "stale", now).map(|f| f.what)); }
                }
                serve = tree.serve(v);
            }
            _ => {
                // Bad objects / manifests / CRLs in CAs of the module.
                for _ in 0..(1 + rng.below(4)) {
                    let name = rng.pick(&in_module).clone();
                    let f = match rng.below(4) {
                        0 => mft_fault(&mut tree.world, &name, v, *rng.pick(&MFT_FAULTS[..]), now),
                        1 => crl_fault(&mut tree.world, &name, v, *rng.pick(&CRL_FAULTS[..]), now),
                        _ => {
                            let n_objs = tree.world.ca(&name).unwrap().versions[v].objects.len();
                            if n_objs == 0 { None } else {
                                obj_fault(&mut tree.world, &name, v, rng.below(n_objs as u64) as usize,
                                    *rng.pick(&OBJ_FAULTS[..]), now)
                            }
                        }
                    };
                    faults.extend(f.map(|f| f.what));
                }
                serve = tree.serve(v);
                if kind == "mixed" {
                    serve.rsync.push(RsyncCtl { module: broken.clone(), mode: RsyncMode::Partial { files: 2 + rng.below(5) as usize, code: 23 } });
                    faults.push(format!("rsync-partial {broken}"));
                }
            }
        }
        let mut runs = Vec::new();
        let mut base_runs = Vec::new();
        if two_runs {
            runs.push(run_spec(T0, tree.serve(0), Order::Sorted));
            base_runs.push(run_spec(T0, base_tree.serve(0), Order::Sorted));
        }
        runs.push(run_spec(now, serve, order.clone()));
        base_runs.push(run_spec(now, base_tree.serve(v), order));
        // Both scenarios share the world of the faulty tree for run 1 (same
        // version 0), the baseline keeps its own fault-free later version.
        let scn = Scenario { world: tree.world.clone(), opts: opts.clone(), runs };
        let base = Scenario { world: base_tree.world.clone(), opts, runs: base_runs };
        cases.push(json!({
            "kind": kind, "broken": broken, "faults": faults,
            "scenario": to_json(&scn), "base": to_json(&base),
        }));
        i += 1;
    }
    cases.extend(same_host(ctx));
    cases.extend(aliasing());
    cases
}

/// Sibling repositories on one host. Shapes: two children of a trust anchor
/// in the two modules of host h1 (either way round), two trust anchors in
/// them, the healthy one reached through another host (grandchild); the
/// broken module is the one visited first or second (single-threaded the
/// order is: TALs by name, children by certificate file name). Failure
/// modes: module not served (exit 5), whole host not served (exit 10), exit
/// codes without transfer, partial transfers. Empty cache, and warm cache
/// where every repository publishes a newer version with new payload in the
/// run in which the fault appears. 1 and 3 validation threads.
fn same_host(ctx: &mut Ctx) -> Vec<Value> {
    let (a, b, c) = ("h1.test/repo", "h1.test/alt", "h2.test/repo");
    let shapes: Vec<(&str, Tree, String)> = vec![
        ("siblings first", shaped_tree(&[("t0", None, vec![], c, 0), ("t0c0", Some("t0"), vec![0], a, 0), ("t0c1", Some("t0"), vec![1], b, 0)]), a.into()),
        ("siblings second", shaped_tree(&[("t0", None, vec![], c, 0), ("t0c0", Some("t0"), vec![0], a, 0), ("t0c1", Some("t0"), vec![1], b, 0)]), b.into()),
        ("siblings swapped first", shaped_tree(&[("t0", None, vec![], c, 0), ("t0c0", Some("t0"), vec![0], b, 0), ("t0c1", Some("t0"), vec![1], a, 0)]), b.into()),
        ("siblings swapped second", shaped_tree(&[("t0", None, vec![], c, 0), ("t0c0", Some("t0"), vec![0], b, 0), ("t0c1", Some("t0"), vec![1], a, 0)]), a.into()),
        ("two tals first", shaped_tree(&[("t0", None, vec![], a, 0), ("t1", None, vec![], b, 1), ("t1c0", Some("t1"), vec![0], b, 1)]), a.into()),
        ("two tals second", shaped_tree(&[("t0", None, vec![], a, 0), ("t0c0", Some("t0"), vec![0], a, 0), ("t1", None, vec![], b, 1)]), b.into()),
        ("grandchild", shaped_tree(&[("t0", None, vec![], c, 0), ("t0c0", Some("t0"), vec![0], a, 0), ("t0c1", Some("t0"), vec![1], c, 0), ("t0c1c0", Some("t0c1"), vec![1, 0], b, 0)]), a.into()),
        ("same module twice", shaped_tree(&[("t0", None, vec![], c, 0), ("t0c0", Some("t0"), vec![0], a, 0), ("t0c1", Some("t0"), vec![1], c, 0), ("t0c1c0", Some("t0c1"), vec![1, 0], a, 0), ("t0c2", Some("t0"), vec![2], b, 0)]), a.into()),
        ("host down", shaped_tree(&[("t0", None, vec![], c, 0), ("t0c0", Some("t0"), vec![0], a, 0), ("t0c1", Some("t0"), vec![1], b, 0), ("t0c2", Some("t0"), vec![2], c, 0)]), format!("{a},{b}")),
    ];
    let mut modes: Vec<(String, Option<RsyncMode>)> = vec![("unserved".into(), None)];
    for code in [1, 5, 10, 12, 23, 30, 35] {
        modes.push((format!("exit {code}"), Some(RsyncMode::Fail { code })));
    }
    for files in [0, 2, 5] {
        modes.push((format!("partial {files}"), Some(RsyncMode::Partial { files, code: 23 })));
    }
    let thorough = !ctx.quick();
    let mut cases = Vec::new();
    let mut k = ctx.seed as usize;
    for (shape, base_tree, broken) in &shapes {
        for warm in [false, true] {
            for threads in [1usize, 3] {
                for (m, (mode_name, mode)) in modes.iter().enumerate() {
                    // Quick tier: one failure mode per (shape, cache, threads),
                    // rotating; a whole host can only be "unserved".
                    let host_down = broken.contains(',');
                    if host_down && mode.is_some() { continue }
                    if !host_down && !thorough && m != k % modes.len() { continue }
                    let mut base_tree = base_tree.clone();
                    let (v, now) = if warm {
                        let v = add_version(&mut base_tree, 600);
                        bump_payload(&mut base_tree, v);
                        (v, T0 + 900)
                    } else { (0, T0) };
                    let broken_list: Vec<&str> = broken.split(',').collect();
                    let mut serve = base_tree.serve(v);
                    match mode {
                        None => {
                            let gone: Vec<String> = base_tree.nodes.iter()
                                .filter(|n| broken_list.contains(&n.module.as_str())).map(|n| n.name.clone()).collect();
                            serve.points.retain(|(name, _)| !gone.contains(name));
                            serve.tas.retain(|ta| !broken_list.contains(&module_of(&ta.uri).as_str()));
                        }
                        Some(mode) => serve.rsync.push(RsyncCtl { module: broken.clone(), mode: mode.clone() }),
                    }
                    let opts = EngineOpts { threads, enable_aspa: true, ..Default::default() };
                    let mut runs = Vec::new();
                    let mut base_runs = Vec::new();
                    if warm {
                        runs.push(run_spec(T0, base_tree.serve(0), Order::Sorted));
                        base_runs.push(run_spec(T0, base_tree.serve(0), Order::Sorted));
                    }
                    runs.push(run_spec(now, serve, Order::Sorted));
                    base_runs.push(run_spec(now, base_tree.serve(v), Order::Sorted));
                    let scn = Scenario { world: base_tree.world.clone(), opts: opts.clone(), runs };
                    let base = Scenario { world: base_tree.world.clone(), opts, runs: base_runs };
                    cases.push(json!({
                        "kind": format!("same-host {shape}{}", if warm { " warm" } else { "" }),
                        "broken": broken, "faults": [format!("{mode_name} {broken} threads={threads}")],
                        "scenario": to_json(&scn), "base": to_json(&base),
                    }));
                }
                k += 1;
            }
        }
    }
    cases
}

/// Resource layouts in which an IPv4 and an IPv6 block have the same
/// leading bits (32.1.0.0/16 = 0x2001…, 42.0.0.0/12 = 0x2a0…): the broken
/// repository's CA holds 32.1.0.0/16 and 2a00::/12, a healthy sibling in
/// another module publishes VRPs for 2001:db8:1::/48 and 42.1.0.0/24. Nothing
/// overlaps, so even under `unsafe-vrps = reject` the sibling's payload must
/// not change when the first CA is rejected.
fn aliasing() -> Vec<Value> {
    let (a, b, c) = (MODULES[0], MODULES[1], MODULES[2]);
    let ta_uri = format!("rsync://{c}/ta0.cer");
    let ta_res = Res::v4(&["32.0.0.0/8", "42.0.0.0/8"]).with_v6("2001::/16").with_v6("2a00::/8").with_asn(64_000, 64_999);
    let mut world = World::default();
    world.tals.push(tal("tal0", 0, &[&ta_uri]));
    let mut t0 = ca("t0", 0, &format!("{c}/t0/"), &ta_uri);
    let mut v = version(1, T0 - HOUR, T0 + 7 * DAY);
    v.objects.push(child_cert("bad.cer", 500, "bad", Res::v4(&["32.1.0.0/16"]).with_v6("2a00::/12").with_asn(64_100, 64_199)));
    v.objects.push(child_cert("good.cer", 501, "good", Res::v4(&["42.0.0.0/12"]).with_v6("2001:db8::/32").with_asn(64_200, 64_299)));
    t0.versions.push(v);
    let mut bad = ca("bad", 1, &format!("{a}/bad/"), &format!("rsync://{c}/t0/bad.cer"));
    let mut v = version(1, T0 - HOUR, T0 + 7 * DAY);
    v.objects.push(roa("o0.roa", 10, 64_100, "32.1.2.0/24", None));
    v.objects.push(roa("o1.roa", 11, 64_101, "2a00:1::/32", None));
    bad.versions.push(v);
    let mut good = ca("good", 2, &format!("{b}/good/"), &format!("rsync://{c}/t0/good.cer"));
    let mut v = version(1, T0 - HOUR, T0 + 7 * DAY);
    v.objects.push(roa("o0.roa", 10, 64_200, "2001:db8:1::/48", None));
    v.objects.push(roa("o1.roa", 11, 64_201, "42.1.0.0/24", None));
    v.objects.push(aspa("o2.asa", 12, 64_202, &[164_202]));
    good.versions.push(v);
    world.cas = vec![t0, bad, good];
    let tas = vec![ta_file(&ta_uri, "t0", 0, ta_res)];
    let points = |with_bad: bool| -> Vec<(String, usize)> {
        let mut p = vec![("t0".to_string(), 0), ("good".to_string(), 0)];
        if with_bad { p.push(("bad".to_string(), 0)) }
        p
    };
    let mut cases = Vec::new();
    for policy in [Policy::Reject, Policy::Warn, Policy::Accept] {
        for mode in ["unserved", "fail", "bad-manifest"] {
            if policy != Policy::Reject && mode != "unserved" { continue }
            let mut w = world.clone();
            let mut serve = Serve { tas: tas.clone(), points: points(true), rsync: vec![] };
            match mode {
                "unserved" => serve.points = points(false),
                "fail" => serve.rsync.push(RsyncCtl { module: a.into(), mode: RsyncMode::Fail { code: 12 } }),
                _ => w.ca_mut("bad").unwrap().versions[0].mft_fault = Fault::SigFlip,
            }
            let opts = EngineOpts { unsafe_vrps: policy, enable_aspa: true, ..Default::default() };
            let scn = Scenario { world: w, opts: opts.clone(), runs: vec![run_spec(T0, serve, Order::Sorted)] };
            let base = Scenario {
                world: world.clone(), opts,
                runs: vec![run_spec(T0, Serve { tas: tas.clone(), points: points(true), rsync: vec![] }, Order::Sorted)],
            };
            cases.push(json!({
                "kind": "aliasing", "broken": a, "faults": [format!("{mode} {a} policy={}", policy.as_str())],
                "scenario": to_json(&scn), "base": to_json(&base),
            }));
        }
    }
    cases
}

pub fn run_c41(ctx: &mut Ctx) {
    ctx.rule = "random signed trees (1-2 TALs, depth <= 4) spread over 2-3 rsync modules on 2 hosts; one \
        module is broken (unreachable host/module, rsync exit code without transfer, partial transfer, \
        1-4 bad objects/manifests/CRLs, stale manifests/CRLs, or a mixture), in a first run or after a \
        good first run; validation with 1-3 threads under accept/warn/reject unsafe-vrps policy; the \
        payload restricted to CAs without the module on their chain is compared with the fault-free \
        run. Non-trivial = distinct (fault kind, #affected CAs, #CAs)".into();
    ctx.rng.0 ^= 0xc41;
    let mut player = Player::new();
    let inputs = match ctx.replay_inputs() {
        Some(inputs) => inputs,
        None => {
            let mut inputs = ctx.corpus("C41");
            inputs.extend(generate(ctx));
            inputs
        }
    };
    for input in inputs {
        run_input(ctx, &mut player, &input);
    }
}
