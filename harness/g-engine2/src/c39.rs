//! C39: the refresh deadline of a served data set never exceeds the
//! earliest expiry on the chains of the contributing objects.

use rpkitest::gen::*;
use rpkitest::scenario::{Order, Player};
use rpkitest::*;
use rvcore::Ctx;
use serde_json::{json, Value};
use crate::cases::*;
use crate::gen2::*;

fn show(v: Option<i64>) -> String {
    v.map(|x| x.to_string()).unwrap_or_else(|| "-".into())
}

fn run_input(ctx: &mut Ctx, player: &mut Player, input: &Value) {
    let played = match play(player, input) {
        Ok(played) => played,
        Err(err) => {
            ctx.oracle_fail("bad-input", &err, input, json!(null));
            return
        }
    };
    count_stats(ctx, &played);
    let kind = input["kind"].as_str().unwrap_or("?").to_string();
    let mut tail = Vec::new();
    for r in 0..played.obs.len() {
        let ob = &played.obs[r];
        let t = &played.truth[r];
        tail.push(format!("r={} d={}", show(ob.out.refresh), show(t.refresh_bound)));
        if !ob.out.ok() {
            ctx.oracle_fail(
                "run-failed", &format!("run {r} ended with {}", ob.out.status.as_str()),
                input, obs_json(&played)
            );
            continue
        }
        // Only what is actually served can put a demand on the deadline.
        let served = served(&played, r);
        if !t.expected.is_subset(&served) || !served.is_subset(&t.justified) {
            ctx.count("truth-mismatch");
            continue
        }
        match (ob.out.refresh, t.refresh_bound) {
            (Some(refresh), Some(bound)) => {
                if refresh > bound {
                    ctx.oracle_fail(
                        "refresh-after-expiry",
                        &format!(
                            "run {r} ({kind}): refresh deadline {refresh} is {} s later than the earliest \
                             expiry {bound} on a contributing chain ({})",
                            refresh - bound, t.refresh_reason
                        ),
                        input, obs_json(&played)
                    );
                }
                else if refresh == bound { ctx.count("refresh:equals-bound") }
                else { ctx.count("refresh:below-bound") }
                let reason = t.refresh_reason.split_whitespace().next().unwrap_or("").to_string();
                ctx.nontrivial(format!("{kind} bound-from={reason} run={r}"));
                ctx.count(&format!("bound-from:{reason}"));
            }
            (None, Some(bound)) => {
                ctx.oracle_fail(
                    "refresh-missing",
                    &format!("run {r} ({kind}): payload is served but there is no refresh deadline \
                        (earliest expiry {bound}, {})", t.refresh_reason),
                    input, obs_json(&played)
                );
            }
            (_, None) => ctx.count("refresh:nothing-contributes"),
        }
    }
    if played.comparable {
        ctx.case(
            input, &format!("engine2 {}", played.request),
            &format!("{} || {}", played.impl_line, tail.join(" | "))
        );
    }
    else {
        ctx.case_oracle_only(input, &tail.join(" | "));
    }
}

/// Makes object `idx` of version `v` of `ca` the earliest thing to expire.
fn early(world: &mut World, ca: &str, v: usize, idx: usize, at: i64) {
    if let Some(o) = world.ca_mut(ca).and_then(|c| c.versions.get_mut(v)).and_then(|pv| pv.objects.get_mut(idx)) {
        o.not_after = at;
    }
}

fn generate(ctx: &mut Ctx) -> Vec<Value> {
    let mut cases = Vec::new();
    let n = ctx.budget(48, 1500);
    for i in 0..n {
        let mut rng = ctx.rng.fork();
        let cfg = TreeCfg {
            tals: 1 + rng.below(2) as usize, max_depth: 2 + rng.below(3) as usize,
            max_kids: 1 + rng.below(3) as usize, max_objs: 4, max_cas: 3 + rng.below(6) as usize,
            modules: 1, random_times: true, fancy_res: false,
        };
        let mut tree = gen_tree(&mut rng, &cfg);
        let mut opts = random_opts(&mut rng, i % 6 == 5);
        opts.max_ca_depth = 32;
        let order = Order::Seed(rng.next());
        match i % 6 {
            0 | 1 => {
                // Plain trees with random dates; sometimes a fault or two.
                let mut faults = Vec::new();
                for _ in 0..rng.below(3) {
                    faults.extend(random_fault(&mut rng, &mut tree, 0, T0));
                }
                cases.push(case_json("dates", &tree, &opts, vec![run_spec(T0, tree.serve(0), order)], &faults, json!(null)));
            }
            2 => {
                // Objects that contribute nothing expire first: disabled
                // ASPA / BGPsec, GBRs, invalid objects.
                opts.enable_aspa = false;
                opts.enable_bgpsec = rng.chance(1, 2);
                let names: Vec<String> = tree.world.cas.iter().map(|c| c.name.clone()).collect();
                let mut faults = Vec::new();
                for name in &names {
                    let objs = tree.world.ca(name).unwrap().versions[0].objects.clone();
                    for (idx, o) in objs.iter().enumerate() {
                        let silent = match o.kind {
                            ObjKind::Aspa { .. } | ObjKind::Gbr => true,
                            ObjKind::Router { .. } => !opts.enable_bgpsec,
                            _ => false,
                        };
                        if silent { early(&mut tree.world, name, 0, idx, T0 + 60 + idx as i64) }
                        else if matches!(o.kind, ObjKind::Roa { .. }) && rng.chance(1, 4) {
                            early(&mut tree.world, name, 0, idx, T0 + 30);
                            faults.extend(obj_fault(&mut tree.world, name, 0, idx,
                                *rng.pick(&["sigflip", "revoked", "overclaim", "crluri"][..]), T0));
                        }
                    }
                }
                cases.push(case_json("silent-objects", &tree, &opts, vec![run_spec(T0, tree.serve(0), order)], &faults, json!(null)));
            }
            3 => {
                // Fallback to the stored version through the restart path:
                // a newer version with other dates and a missing file.
                let base = tree.serve(0);
                let v = add_version(&mut tree, 600);
                let names: Vec<String> = tree.world.cas.iter().map(|c| c.name.clone()).collect();
                let mut faults = Vec::new();
                for name in &names {
                    let pv = &mut tree.world.ca_mut(name).unwrap().versions[v];
                    // New dates for the newer version.
                    pv.next_update = T0 + 2 * HOUR + rng.below(400 * DAY as u64) as i64;
                    pv.crl.next_update = T0 + 2 * HOUR + rng.below(400 * DAY as u64) as i64;
                    pv.ee_not_after = T0 + 2 * HOUR + rng.below(400 * DAY as u64) as i64;
                    let n_objs = pv.objects.len();
                    if n_objs > 0 && rng.chance(2, 3) {
                        let idx = rng.below(n_objs as u64) as usize;
                        let kind = *rng.pick(&["missing", "corrupt"][..]);
                        faults.extend(obj_fault(&mut tree.world, name, v, idx, kind, T0 + 900));
                    }
                }
                cases.push(case_json("restart", &tree, &opts, vec![
                    run_spec(T0, base, Order::Sorted),
                    run_spec(T0 + 900, tree.serve(v), order),
                ], &faults, json!(null)));
            }
            4 => {
                // Aging: the same content later (some things have expired),
                // online or offline.
                let later = T0 + 3 * HOUR + rng.below(200 * DAY as u64) as i64;
                let mut second = run_spec(later, tree.serve(0), order);
                if rng.chance(1, 2) { second.update = Some(false) }
                if rng.chance(1, 2) { opts.stale = *rng.pick(&[Policy::Warn, Policy::Accept]) }
                cases.push(case_json("aging", &tree, &opts, vec![
                    run_spec(T0, tree.serve(0), Order::Sorted), second,
                ], &[], json!({"later": later - T0})));
            }
            _ => {
                // Documented filters: ROAs that are filtered out entirely
                // expire first (oracle only).
                opts.limit_v4_len = Some(24);
                let names: Vec<String> = tree.world.cas.iter().map(|c| c.name.clone()).collect();
                for name in &names {
                    let node = tree.node(name).clone();
                    let pv = &mut tree.world.ca_mut(name).unwrap().versions[0];
                    if let Some(first) = pv.objects.iter().find(|o| matches!(o.kind, ObjKind::Roa { .. })).cloned() {
                        if let ObjKind::Roa { prefixes, asn } = &first.kind {
                            let (_, _, _, len) = rpkitest::truth::parse_prefix(&prefixes[0].prefix);
                            if !prefixes[0].prefix.contains(':') && len == 24 {
                                let mut long = first.clone();
                                long.name = "long.roa".into();
                                long.serial = 90;
                                long.not_after = T0 + 120;
                                long.kind = ObjKind::Roa {
                                    asn: *asn,
                                    prefixes: vec![RoaPfx { prefix: prefixes[0].prefix.replace("/24", "/26"), max_len: None }],
                                };
                                pv.objects.push(long);
                            }
                        }
                    }
                    let _ = node;
                }
                cases.push(case_json("filtered", &tree, &opts, vec![run_spec(T0, tree.serve(0), order)], &[], json!(null)));
            }
        }
    }
    cases.extend(ancestor_deadlines());
    cases
}

/// The earliest deadline is a manifest or CRL nextUpdate of an ANCESTOR that
/// publishes no payload itself (CRL re-issued daily under a weekly
/// manifest, …); the payload sits two levels below. Second run with nothing
/// changed (the point is taken from the store after the collector was
/// consulted: restart path), abandoned update of the leaf, not-newer
/// manifest; always run.
fn ancestor_deadlines() -> Vec<Value> {
    let mut cases = Vec::new();
    let m = MODULES[0];
    let opts = EngineOpts { enable_aspa: true, ..Default::default() };
    for (who, what) in [("t0", "crl"), ("t0", "mft"), ("t0c0", "crl"), ("t0c0", "mft")] {
        let mut tree = shaped_tree(&[
            ("t0", None, vec![], m, 0), ("t0c0", Some("t0"), vec![0], m, 0),
            ("t0c0c0", Some("t0c0"), vec![0, 0], m, 0),
        ]);
        for name in ["t0", "t0c0"] {
            tree.world.ca_mut(name).unwrap().versions[0].objects
                .retain(|o| matches!(o.kind, ObjKind::Ca { .. }));
        }
        {
            let pv = &mut tree.world.ca_mut(who).unwrap().versions[0];
            if what == "crl" { pv.crl.next_update = T0 + DAY } else { pv.next_update = T0 + DAY }
        }
        let f = |s: &str| Applied { what: format!("earliest={who}.{what} {s}"), ca: who.into(), only_object: None };
        // A. nothing changes between the runs.
        cases.push(case_json("ancestor-deadline", &tree, &opts, vec![
            run_spec(T0, tree.serve(0), Order::Sorted),
            run_spec(T0 + 600, tree.serve(0), Order::Sorted),
            { let mut r = run_spec(T0 + 1200, tree.serve(0), Order::Sorted); r.update = Some(false); r },
        ], &[f("unchanged")], json!(null)));
        // B. the leaf publishes a newer version with a missing file.
        let mut broken = tree.clone();
        let leaf = broken.world.ca_mut("t0c0c0").unwrap();
        let mut v1 = leaf.versions[0].clone();
        v1.number = "2".into();
        v1.this_update += 600;
        v1.crl.this_update += 600;
        v1.ee_serial += 1;
        v1.objects[0].publish = Publish::Missing;
        leaf.versions.push(v1);
        let mut serve1 = broken.serve(0);
        for p in serve1.points.iter_mut() { if p.0 == "t0c0c0" { p.1 = 1 } }
        cases.push(case_json("ancestor-deadline", &broken, &opts, vec![
            run_spec(T0, broken.serve(0), Order::Sorted),
            run_spec(T0 + 900, serve1, Order::Sorted),
        ], &[f("abandoned-update")], json!(null)));
    }
    cases
}

pub fn run_c39(ctx: &mut Ctx) {
    ctx.rule = "random signed trees (1-2 TALs, depth <= 4) with randomised notAfter / nextUpdate at every \
        level (TA and CA certificates, manifest EE certificates, manifests, CRLs, ROA/ASPA/router/GBR \
        objects); families: plain trees (+0-2 faults), trees whose non-contributing objects (disabled \
        ASPA/BGPsec, GBR, invalid or length-filtered ROAs) expire first, fallback to the stored version \
        through the restart path (newer version with other dates and a missing/mismatching file), aging \
        (same content later, online or offline, stale policies). Non-trivial = distinct (family, kind of \
        the earliest deadline, run)".into();
    ctx.rng.0 ^= 0xc39;
    let mut player = Player::new();
    let inputs = match ctx.replay_inputs() {
        Some(inputs) => inputs,
        None => {
            let mut inputs = ctx.corpus("C39");
            inputs.extend(generate(ctx));
            inputs
        }
    };
    for input in inputs {
        run_input(ctx, &mut player, &input);
    }
}
