//! Ground truth for whole validation runs, computed from the generator's
//! description: which publication point version every CA uses, which
//! objects are accepted, what payload is expected / justified, which CA
//! contributes what, which resources become unsafe, and the bound on the
//! refresh deadline.
//!
//! Independent of the Lean model and of routinator: the only inputs are the
//! abstract description (`World`, the `Meaning` of every file the builder
//! can produce), the collector's local copy after the run (file bytes are
//! only *identified* through their SHA-256 against the description), the
//! clock and the configuration. The store is tracked by the ground truth
//! itself from run to run.

use std::collections::{BTreeMap, BTreeSet};
use rpkitest::build::{sha256, Builder, Meaning};
use rpkitest::scenario::Scenario;
use rpkitest::truth::{parse_prefix, obj_payload, EffRes, Ranges};
use rpkitest::*;

/// SHA-256 → meaning for every file the description can produce.
pub struct Index {
    map: BTreeMap<Vec<u8>, Meaning>,
}

impl Index {
    pub fn new(builder: &Builder, scn: &Scenario) -> Self {
        let mut map = BTreeMap::new();
        for ca in &scn.world.cas {
            for version in &ca.versions {
                let built = builder.point_files(&scn.world, ca, version);
                for file in built.files {
                    let mut meaning = file.meaning;
                    // A manifest followed by a stray byte still decodes (in
                    // strict mode, too) and its signature still verifies:
                    // it *is* that manifest, with other bytes.
                    if matches!(version.mft_publish, Publish::Corrupt) && file.uri == ca.mft_uri()
                        && !matches!(version.mft_fault, Fault::Garbage)
                    {
                        meaning = Meaning::Mft {
                            ca: ca.name.clone(), version: Box::new(version.clone()),
                            entries: built.entries.clone(),
                        };
                    }
                    map.entry(sha256(&file.bytes)).or_insert(meaning);
                }
            }
        }
        for run in &scn.runs {
            for ta in &run.serve.tas {
                let bytes = builder.ta_bytes(&scn.world, &ta.content);
                let meaning = match &ta.content {
                    TaContent::Cert { fault: Fault::Garbage, .. } => Meaning::Junk,
                    TaContent::Cert { .. } => Meaning::Ta(ta.content.clone()),
                    TaContent::Raw { .. } => Meaning::Junk,
                };
                map.entry(sha256(&bytes)).or_insert(meaning);
            }
        }
        Index { map }
    }

    pub fn meaning(&self, bytes: &[u8]) -> Meaning {
        self.map.get(&sha256(bytes)).cloned().unwrap_or(Meaning::Junk)
    }
}

/// A version of a publication point as the ground truth sees it.
#[derive(Clone, Debug)]
pub struct VersionT {
    pub mft_sha: Vec<u8>,
    /// The CA (by name) that issued the manifest.
    pub issuer: String,
    pub pv: PointVersion,
    /// caRepository of the CA it was stored for.
    pub repo: String,
    /// The CRL (meaning of the bytes listed on the manifest).
    pub crl: Meaning,
    /// (file name, meaning) of every listed object, CRL included.
    pub objects: Vec<(String, Meaning)>,
}

#[derive(Clone, Debug, Default)]
pub struct TruthStore {
    /// By manifest URI.
    pub points: BTreeMap<String, VersionT>,
    /// By trust anchor URI.
    pub tas: BTreeMap<String, TaContent>,
}

/// One payload item with its provenance.
#[derive(Clone, Debug)]
pub struct ItemT {
    pub payload: String,
    pub ca: String,
    pub obj: String,
    /// Is the item an IP prefix (for the unsafe-VRP filter)? (v4?, lo, hi)
    pub range: Option<(bool, u128, u128)>,
    pub not_after: i64,
}

#[derive(Clone, Debug)]
pub struct PointT {
    pub ca: String,
    /// CA names from the trust anchor CA down to this CA.
    pub path: Vec<String>,
    /// Which version was used: (issuer CA name, manifest number), `None`: rejected.
    pub used: Option<(String, String, &'static str)>,
    pub items: Vec<ItemT>,
    /// Minimum of every notAfter / nextUpdate on the chain including this
    /// point's manifest and CRL.
    pub chain_deadline: i64,
}

#[derive(Clone, Debug, Default)]
pub struct RunTruth {
    pub points: Vec<PointT>,
    /// Effective resources of the CAs whose point was rejected.
    pub rejected: Vec<(String, EffRes)>,
    /// What must be served (after all documented filters).
    pub expected: BTreeSet<String>,
    /// Everything that has a justification (any usable version on any
    /// usable chain; before filters).
    pub justified: BTreeSet<String>,
    /// Upper bound for the refresh time (`None`: nothing contributes).
    pub refresh_bound: Option<i64>,
    /// What gives the bound.
    pub refresh_reason: String,
}

impl RunTruth {
    /// Expected payload contributed by CAs for which `keep(path)` holds.
    pub fn expected_of(&self, keep: impl Fn(&PointT) -> bool) -> BTreeSet<String> {
        let mut res = BTreeSet::new();
        for p in &self.points {
            if keep(p) {
                for it in &p.items {
                    if self.expected.contains(&it.payload) { res.insert(it.payload.clone()); }
                }
            }
        }
        res
    }
}

pub struct Eval<'a> {
    pub world: &'a World,
    pub index: &'a Index,
    /// The collector's local copy (URI → bytes); `None`: no collector.
    pub local: Option<&'a BTreeMap<String, Vec<u8>>>,
    pub now: i64,
    pub opts: &'a EngineOpts,
    /// Index of the run (decides which TALs are installed).
    pub run: usize,
}

fn ext(name: &str) -> &str {
    name.rsplit_once('.').map(|(_, e)| e).unwrap_or("")
}

fn fault_keeps_signature(fault: &Fault) -> bool {
    matches!(fault, Fault::None | Fault::CrlUri(_))
}

fn full_range(v4: bool) -> (u128, u128) {
    if v4 { (0, 0xffff_ffff) } else { (0, u128::MAX) }
}

/// Splits the served ASPA strings into (customer, provider) pairs so that
/// unions over several objects compare as sets.
pub fn atoms(payload: &[String]) -> BTreeSet<String> {
    let mut res = BTreeSet::new();
    for p in payload {
        if let Some(rest) = p.strip_prefix("ASPA ") {
            if let Some((customer, providers)) = rest.split_once(" => ") {
                for provider in providers.split(',') {
                    res.insert(format!("ASPA {customer} {provider}"));
                }
                continue
            }
        }
        res.insert(p.clone());
    }
    res
}

struct CaCx<'a> {
    spec: &'a CaSpec,
    /// The key the CA's certificate carries (a trust anchor certificate may
    /// be issued for another key than the one its CA signs with).
    cert_key: usize,
    eff: EffRes,
    /// Key indexes on the chain (this CA first).
    chain: Vec<usize>,
    chain_len: usize,
    path: Vec<String>,
    deadline: i64,
}

impl<'a> Eval<'a> {
    fn stale_rejected(&self, next_update: i64) -> bool {
        next_update < self.now && self.opts.stale == Policy::Reject
    }

    fn key_of(&self, ca: &str) -> Option<usize> {
        self.world.ca(ca).map(|c| c.key)
    }

    /// Does the CRL with this meaning pass for a CA with key `key`?
    fn crl_ok(&self, crl: &Meaning, key: usize, ee_serial: u64) -> Option<CrlSpec> {
        let Meaning::Crl { ca, crl } = crl else { return None };
        if self.key_of(ca)? != key || !fault_keeps_signature(&crl.fault) { return None }
        if self.stale_rejected(crl.next_update) { return None }
        if crl.revoked.contains(&ee_serial) { return None }
        Some(crl.clone())
    }

    /// The CRL URI in the EE certificate of a manifest.
    fn mft_crl_uri(&self, issuer: &CaSpec, pv: &PointVersion) -> String {
        match &pv.mft_fault {
            Fault::CrlUri(uri) => uri.clone(),
            _ => issuer.crl_uri(),
        }
    }

    /// Manifest-level checks common to both paths.
    fn mft_ok(&self, key: usize, issuer: &str, pv: &PointVersion) -> bool {
        let Some(issuer) = self.world.ca(issuer) else { return false };
        issuer.key == key && fault_keeps_signature(&pv.mft_fault)
            && pv.ee_not_before <= self.now && self.now <= pv.ee_not_after
            && !self.stale_rejected(pv.next_update)
    }

    /// The version offered by the collector, if its manifest and CRL are
    /// valid: (version, complete?).
    fn fetched(&self, owner: &CaSpec, key: usize) -> Option<(VersionT, bool)> {
        let local = self.local?;
        let bytes = local.get(&owner.mft_uri())?;
        let Meaning::Mft { ca: issuer, version: pv, entries } = self.index.meaning(bytes) else {
            return None
        };
        if !self.mft_ok(key, &issuer, &pv) { return None }
        if pv.this_update > self.now { return None }
        let issuer_spec = self.world.ca(&issuer)?;
        let crl_uri = self.mft_crl_uri(issuer_spec, &pv);
        if !crl_uri.ends_with(".crl") { return None }
        let crl_name = crl_uri.strip_prefix(owner.repo.as_str())?.to_string();
        let listed: Vec<_> = entries.iter().filter(|(n, _)| *n == crl_name).collect();
        if listed.is_empty() { return None }
        let crl_bytes = local.get(&crl_uri)?;
        if !listed.iter().all(|(_, h)| *h == sha256(crl_bytes)) { return None }
        let crl = self.index.meaning(crl_bytes);
        self.crl_ok(&crl, key, pv.ee_serial)?;
        let mut complete = true;
        let mut objects = Vec::new();
        for (name, hash) in &entries {
            if !name.is_ascii() { complete = false; continue }
            match local.get(&owner.obj_uri(name)) {
                Some(b) if sha256(b) == *hash => objects.push((name.clone(), self.index.meaning(b))),
                _ => complete = false,
            }
        }
        Some((VersionT {
            mft_sha: sha256(bytes), issuer, pv: *pv, repo: owner.repo.clone(), crl, objects,
        }, complete))
    }

    /// Is the stored version valid now for `owner`?
    fn stored_ok(&self, key: usize, v: &VersionT) -> bool {
        self.mft_ok(key, &v.issuer, &v.pv)
            && self.crl_ok(&v.crl, key, v.pv.ee_serial).is_some()
    }

    fn number(pv: &PointVersion) -> u128 {
        u128::from_str_radix(&pv.number, 16).unwrap_or(u128::MAX)
    }

    /// The version `PubPoint::process` uses (exact), updating the store.
    fn choose(&self, owner: &CaSpec, key: usize, store: &mut TruthStore) -> Option<(VersionT, &'static str)> {
        let uri = owner.mft_uri();
        if let Some(local) = self.local {
            if let Some(bytes) = local.get(&uri) {
                let same = store.points.get(&uri).map(|s| {
                    s.mft_sha == sha256(bytes) && s.repo == owner.repo
                }).unwrap_or(false);
                if !same {
                    if let Some((v, complete)) = self.fetched(owner, key) {
                        let newer = match store.points.get(&uri) {
                            None => true,
                            Some(s) => {
                                Self::number(&v.pv) > Self::number(&s.pv)
                                    && v.pv.this_update > s.pv.this_update
                            }
                        };
                        if newer && complete {
                            store.points.insert(uri.clone(), v.clone());
                            return Some((v, "fetched"))
                        }
                    }
                }
            }
        }
        let s = store.points.get(&uri)?;
        if self.stored_ok(key, s) { Some((s.clone(), "stored")) } else { None }
    }

    /// Every version this run could legitimately use (for "justified").
    fn usable(&self, owner: &CaSpec, key: usize, store: &TruthStore) -> Vec<VersionT> {
        let mut res = Vec::new();
        if let Some((v, true)) = self.fetched(owner, key) { res.push(v) }
        if let Some(s) = store.points.get(&owner.mft_uri()) {
            if self.stored_ok(key, s) { res.push(s.clone()) }
        }
        res
    }

    /// Certificate-level checks of an object issued under `cx` and
    /// validated against the version `v`.
    fn cert_ok(&self, cx: &CaCx, v: &VersionT, issuer: &str, obj: &ObjSpec) -> bool {
        let Some(issuer) = self.world.ca(issuer) else { return false };
        if issuer.key != cx.cert_key || !fault_keeps_signature(&obj.fault) { return false }
        if self.now < obj.not_before || self.now > obj.not_after { return false }
        let crl_uri = match &obj.fault {
            Fault::CrlUri(uri) => uri.clone(),
            _ => issuer.crl_uri(),
        };
        let Some(mft_issuer) = self.world.ca(&v.issuer) else { return false };
        if crl_uri != self.mft_crl_uri(mft_issuer, &v.pv) { return false }
        let Meaning::Crl { crl, .. } = &v.crl else { return false };
        !crl.revoked.contains(&obj.serial)
    }

    /// The payload of one object of version `v` of `cx`.
    fn obj_items(&self, cx: &CaCx, v: &VersionT, name: &str, meaning: &Meaning) -> Vec<ItemT> {
        let Meaning::Obj { ca: issuer, obj } = meaning else { return Vec::new() };
        let kind_ok = match (&obj.kind, ext(name)) {
            (ObjKind::Roa { .. }, "roa") => true,
            (ObjKind::Aspa { .. }, "asa") => self.opts.enable_aspa,
            (ObjKind::Router { .. }, "cer") => self.opts.enable_bgpsec,
            _ => false,
        };
        if !kind_ok || !self.cert_ok(cx, v, issuer, obj) { return Vec::new() }
        let mut res = Vec::new();
        let item = |payload: String, range| ItemT {
            payload, ca: cx.spec.name.clone(), obj: name.to_string(), range,
            not_after: obj.not_after,
        };
        match &obj.kind {
            ObjKind::Roa { prefixes, .. } => {
                let mut ranges = Vec::new();
                for p in prefixes {
                    let (v4, lo, hi, len) = parse_prefix(&p.prefix);
                    let covered = if v4 { cx.eff.v4.contains(lo, hi) } else { cx.eff.v6.contains(lo, hi) };
                    if !covered { return Vec::new() }
                    ranges.push((v4, lo, hi, len));
                }
                for (payload, (v4, lo, hi, len)) in obj_payload(obj).into_iter().zip(ranges) {
                    let limit = if v4 { self.opts.limit_v4_len } else { self.opts.limit_v6_len };
                    if let Some(limit) = limit { if len > limit { continue } }
                    res.push(item(payload, Some((v4, lo, hi))));
                }
            }
            ObjKind::Aspa { customer, providers } => {
                if !cx.eff.asn.contains(*customer as u128, *customer as u128) { return Vec::new() }
                for p in providers {
                    res.push(item(format!("ASPA AS{customer} {p}"), None));
                }
            }
            ObjKind::Router { asns, .. } => {
                if !asns.iter().all(|a| cx.eff.asn.contains(*a as u128, *a as u128)) { return Vec::new() }
                for payload in obj_payload(obj) { res.push(item(payload, None)) }
            }
            _ => { }
        }
        res
    }

    /// The child CA an object of version `v` of `cx` certifies.
    fn obj_child(&self, cx: &CaCx<'a>, v: &VersionT, name: &str, meaning: &Meaning) -> Option<CaCx<'a>> {
        let Meaning::Obj { ca: issuer, obj } = meaning else { return None };
        let ObjKind::Ca { ca: child, res, trim } = &obj.kind else { return None };
        if ext(name) != "cer" { return None }
        let child = self.world.ca(child)?;
        if cx.chain.contains(&child.key) { return None }
        if !self.cert_ok(cx, v, issuer, obj) { return None }
        if !res.inherit && res.v4.is_empty() && res.v6.is_empty() && res.asn.is_empty() { return None }
        let eff = cx.eff.issue(res, *trim)?;
        if cx.chain_len + 1 > self.opts.max_ca_depth { return None }
        let mut chain = vec![child.key];
        chain.extend(cx.chain.iter().copied());
        let mut path = cx.path.clone();
        path.push(child.name.clone());
        Some(CaCx {
            spec: child, cert_key: child.key, eff, chain, chain_len: cx.chain_len + 1, path,
            deadline: version_deadline(cx.deadline, v).min(obj.not_after),
        })
    }

    fn walk_exact(&self, cx: CaCx<'a>, store: &mut TruthStore, out: &mut RunTruth) {
        let Some((v, how)) = self.choose(cx.spec, cx.cert_key, store) else {
            out.points.push(PointT {
                ca: cx.spec.name.clone(), path: cx.path.clone(), used: None,
                items: Vec::new(), chain_deadline: cx.deadline,
            });
            out.rejected.push((cx.spec.name.clone(), cx.eff.clone()));
            return
        };
        let mut items = Vec::new();
        let mut kids = Vec::new();
        for (name, meaning) in &v.objects {
            items.extend(self.obj_items(&cx, &v, name, meaning));
            if let Some(kid) = self.obj_child(&cx, &v, name, meaning) { kids.push(kid) }
        }
        out.points.push(PointT {
            ca: cx.spec.name.clone(), path: cx.path.clone(),
            used: Some((v.issuer.clone(), v.pv.number.clone(), how)), items,
            chain_deadline: version_deadline(cx.deadline, &v),
        });
        for kid in kids { self.walk_exact(kid, store, out) }
    }

    fn walk_justified(&self, cx: CaCx<'a>, store: &TruthStore, out: &mut BTreeSet<String>, fuel: usize) {
        if fuel == 0 { return }
        for v in self.usable(cx.spec, cx.cert_key, store) {
            for (name, meaning) in &v.objects {
                for item in self.obj_items(&cx, &v, name, meaning) { out.insert(item.payload); }
                if let Some(kid) = self.obj_child(&cx, &v, name, meaning) {
                    self.walk_justified(kid, store, out, fuel - 1)
                }
            }
        }
    }

    /// Trust anchor certificates usable for `tal`, in URI order:
    /// (content, from download?).
    fn ta_candidates(&self, tal: &TalSpec, store: &mut TruthStore, update: bool) -> Vec<TaContent> {
        let mut res = Vec::new();
        for uri in &tal.uris {
            let mut cand = None;
            if let Some(bytes) = self.local.and_then(|l| l.get(uri)) {
                if let Meaning::Ta(content) = self.index.meaning(bytes) {
                    if update { store.tas.insert(uri.clone(), content.clone()); }
                    cand = Some(content)
                }
            }
            if cand.is_none() { cand = store.tas.get(uri).cloned() }
            let Some(content) = cand else { continue };
            let TaContent::Cert { key, not_before, not_after, res: r, fault, .. } = &content else { continue };
            if *key != tal.key { continue }
            if !matches!(fault, Fault::None) { continue }
            if self.now < *not_before || self.now > *not_after { continue }
            if r.inherit || (r.v4.is_empty() && r.v6.is_empty() && r.asn.is_empty()) { continue }
            res.push(content);
            if update { break }
        }
        res
    }

    fn root_cx(&self, content: &TaContent) -> Option<CaCx<'a>> {
        let TaContent::Cert { ca, key, not_after, res, .. } = content else { return None };
        let spec = self.world.ca(ca)?;
        Some(CaCx {
            spec, cert_key: *key, eff: EffRes::listed(res), chain: vec![*key], chain_len: 0,
            path: vec![spec.name.clone()], deadline: *not_after,
        })
    }

    /// Evaluates one run; `store` is the ground truth's store before the
    /// run and is updated to the store after it.
    pub fn run(&self, store: &mut TruthStore) -> RunTruth {
        let mut out = RunTruth::default();
        // Justified: against the store as it was before the run.
        let before = store.clone();
        let mut justified = BTreeSet::new();
        for tal in self.world.tals_in(self.run) {
            let mut scratch = before.clone();
            for content in self.ta_candidates(tal, &mut scratch, false) {
                if let Some(cx) = self.root_cx(&content) {
                    self.walk_justified(cx, &before, &mut justified, 40)
                }
            }
        }
        // Exact.
        for tal in self.world.tals_in(self.run) {
            let cands = self.ta_candidates(tal, store, true);
            if let Some(cx) = cands.first().and_then(|c| self.root_cx(c)) {
                self.walk_exact(cx, store, &mut out)
            }
        }
        // A version accepted during this run is usable, too.
        for p in &out.points { for it in &p.items { justified.insert(it.payload.clone()); } }
        out.justified = justified;
        // Filters.
        let reject = self.opts.unsafe_vrps == Policy::Reject;
        let mut v4 = Vec::new();
        let mut v6 = Vec::new();
        for (_, eff) in &out.rejected {
            v4.extend(eff.v4.0.iter().copied().filter(|r| *r != full_range(true)));
            v6.extend(eff.v6.0.iter().copied().filter(|r| *r != full_range(false)));
        }
        let (v4, v6) = (Ranges::from_vec(v4), Ranges::from_vec(v6));
        let mut bound: Option<(i64, String)> = None;
        for p in &out.points {
            let mut point_bound = p.chain_deadline;
            let mut reason = format!("chain of {}", p.ca);
            let mut any = false;
            for it in &p.items {
                if reject {
                    if let Some((is4, lo, hi)) = it.range {
                        let hit = if is4 { v4.intersects(lo, hi) } else { v6.intersects(lo, hi) };
                        if hit { continue }
                    }
                }
                out.expected.insert(it.payload.clone());
                any = true;
                if it.not_after < point_bound {
                    point_bound = it.not_after;
                    reason = format!("object {} of {}", it.obj, p.ca);
                }
            }
            if any && bound.as_ref().map(|(b, _)| point_bound < *b).unwrap_or(true) {
                bound = Some((point_bound, reason));
            }
        }
        if let Some((b, reason)) = bound {
            out.refresh_bound = Some(b);
            out.refresh_reason = reason;
        }
        // Cleanup.
        if self.opts.cleanup && !self.opts.dirty {
            let now = self.now;
            store.points.retain(|_, v| v.pv.ee_not_after > now);
            store.tas.retain(|_, c| match c {
                TaContent::Cert { not_after, .. } => *not_after > now,
                _ => false,
            });
        }
        out
    }
}

fn version_deadline(chain: i64, v: &VersionT) -> i64 {
    let crl_next = match &v.crl {
        Meaning::Crl { crl, .. } => crl.next_update,
        _ => i64::MAX,
    };
    chain.min(v.pv.ee_not_after).min(v.pv.next_update).min(crl_next)
}

/// Ground truth for every run of a played scenario.
pub fn scenario_truth(
    builder: &Builder, scn: &Scenario, locals: &[&BTreeMap<String, Vec<u8>>],
) -> Vec<RunTruth> {
    let index = Index::new(builder, scn);
    let mut store = TruthStore::default();
    let mut res = Vec::new();
    for (idx, (run, local)) in scn.runs.iter().zip(locals).enumerate() {
        let mut opts = scn.opts.clone();
        if let Some(update) = run.update { opts.update = update }
        let eval = Eval {
            world: &scn.world, index: &index,
            local: if opts.update && !opts.disable_rsync { Some(*local) } else { None },
            now: run.now, opts: &opts, run: idx,
        };
        res.push(eval.run(&mut store));
    }
    res
}
