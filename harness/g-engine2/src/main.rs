//! Group "engine2": C01, C02, C41, C39 on top of rpkitest.
mod truth2;
mod gen2;
mod cases;
mod c01;
mod c02;
mod c41;
mod c39;

fn run(name: &str, ctx: &mut rvcore::Ctx) -> bool {
    match name {
        "c01" => c01::run_c01(ctx),
        "c02" => c02::run_c02(ctx),
        "c41" => c41::run_c41(ctx),
        "c39" => c39::run_c39(ctx),
        _ => return false
    }
    true
}

fn main() { rvcore::main_with(run, rpkitest::fake_rsync_special) }
