//! Group "engine2": C01, C02, C41, C39 on top of rpkitest.
mod truth2;
mod gen2;
mod cases;
mod c01;
mod c02;

fn run(name: &str, ctx: &mut rvcore::Ctx) -> bool {
    match name {
        "c01" => c01::run_c01(ctx),
        "c02" => c02::run_c02(ctx),
        _ => return false
    }
    true
}

fn main() { rvcore::main_with(run, rpkitest::fake_rsync_special) }
