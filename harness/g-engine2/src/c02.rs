//! C02: valid payload is never silently dropped; a fault removes only its
//! own object.

use std::collections::{BTreeMap, BTreeSet};
use rpkitest::scenario::Player;
use rvcore::Ctx;
use serde_json::{json, Value};
use crate::cases::*;
use crate::truth2;

fn run_input(
    ctx: &mut Ctx, player: &mut Player, bases: &mut BTreeMap<String, BTreeSet<String>>, input: &Value,
) {
    let played = match play(player, input) {
        Ok(played) => played,
        Err(err) => {
            ctx.oracle_fail("bad-input", &err, input, json!(null));
            return
        }
    };
    count_stats(ctx, &played);
    let kind = input["kind"].as_str().unwrap_or("?").to_string();
    for r in 0..played.obs.len() {
        let ob = &played.obs[r];
        if !ob.out.ok() {
            ctx.oracle_fail(
                "run-failed", &format!("run {r} ended with {}", ob.out.status.as_str()),
                input, obs_json(&played)
            );
            continue
        }
        let served = served(&played, r);
        let truth = &played.truth[r];
        let dropped: Vec<&String> = truth.expected.iter().filter(|p| !served.contains(*p)).collect();
        if !dropped.is_empty() {
            ctx.oracle_fail(
                "valid-payload-dropped",
                &format!(
                    "run {r} ({kind}; faults {}): valid, published, unfiltered payload is not served: {dropped:?}",
                    input["faults"]
                ),
                input, obs_json(&played)
            );
        }
        ctx.count_n("items:served", served.len() as u64);
    }
    // Sibling independence, differentially: the same tree without the
    // fault serves the same payload minus that of the faulty object.
    if kind == "sweep-obj" && played.obs.last().map(|o| o.out.ok()).unwrap_or(false) {
        if let Some(only) = input["extra"]["only_object"].as_str() {
            let base_input = json!({"scenario": input["extra"]["base"].clone()});
            let key = base_input.to_string();
            if !bases.contains_key(&key) {
                if let Ok(base) = play(player, &base_input) {
                    if base.obs[0].out.ok() { bases.insert(key.clone(), served(&base, 0)); }
                }
            }
            if let Some(base_served) = bases.get(&key) {
                let ca = input["extra"]["ca"].as_str().unwrap_or("");
                // What the faulty object carries in the fault-free tree.
                let scn: rpkitest::scenario::Scenario =
                    serde_json::from_value(input["extra"]["base"].clone()).expect("base scenario");
                let own: BTreeSet<String> = scn.world.ca(ca).and_then(|c| {
                    c.versions[0].objects.iter().find(|o| o.name == only)
                }).map(|o| {
                    let mut items = rpkitest::truth::obj_payload(o);
                    if let rpkitest::ObjKind::Aspa { customer, providers } = &o.kind {
                        items = providers.iter().map(|p| format!("ASPA AS{customer} {p}")).collect();
                    }
                    items.into_iter().collect()
                }).unwrap_or_default();
                let is_ca_cert = only.ends_with(".cer") && own.is_empty();
              for r in 0..played.obs.len() {
                if !played.obs[r].out.ok() { continue }
                let now = served(&played, r);
                if !is_ca_cert {
                    let want: BTreeSet<String> = base_served.difference(&own).cloned().collect();
                    if now != want {
                        let lost: Vec<_> = want.difference(&now).collect();
                        let extra: Vec<_> = now.difference(&want).collect();
                        ctx.oracle_fail(
                            "sibling-affected",
                            &format!(
                                "run {r}: fault {} must remove exactly the payload of {ca}/{only}; additionally \
                                 lost {lost:?}, unexpectedly served {extra:?}", input["faults"]
                            ),
                            input, obs_json(&played)
                        );
                    }
                    else { ctx.count("differential:exactly-own-payload-removed"); }
                }
                else {
                    // A faulty CA certificate removes the child's subtree only.
                    let lost: BTreeSet<String> = base_served.difference(&now).cloned().collect();
                    let child = only.trim_end_matches(".cer");
                    let base_truth = truth2::atoms(&[]);
                    let _ = base_truth;
                    let sub: BTreeSet<String> = played.scn.world.cas.iter()
                        .filter(|c| c.name.starts_with(child))
                        .flat_map(|c| c.versions[0].objects.iter().flat_map(|o| {
                            if let rpkitest::ObjKind::Aspa { customer, providers } = &o.kind {
                                providers.iter().map(|p| format!("ASPA AS{customer} {p}")).collect()
                            } else { rpkitest::truth::obj_payload(o) }
                        })).collect();
                    if !lost.is_subset(&sub) || !now.is_subset(base_served) {
                        ctx.oracle_fail(
                            "sibling-affected",
                            &format!(
                                "fault {} on a CA certificate must only remove payload of the subtree of \
                                 {child}; lost {lost:?}", input["faults"]
                            ),
                            input, obs_json(&played)
                        );
                    }
                    else { ctx.count("differential:only-subtree-removed"); }
                }
              }
            }
        }
    }
    for f in input["faults"].as_array().cloned().unwrap_or_default() {
        let f = f.as_str().unwrap_or("").to_string();
        let class = f.split_whitespace().next().unwrap_or("").to_string();
        ctx.count(&format!("fault:{class}"));
        ctx.nontrivial(format!("{kind} {class}"));
    }
    record(ctx, input, &played);
}

pub fn run_c02(ctx: &mut Ctx) {
    ctx.rule = "same scenario families as C01 (random faulty trees as single runs, fallback and aging \
        histories, random configurations including the documented filters; single-fault sweep on a \
        fixed 3-level tree). Oracle: ground-truth expected set (chosen version of every CA, valid \
        objects, minus documented filters) is a subset of what is served; for the sweep additionally \
        the differential check that an object fault removes exactly that object's payload. \
        Non-trivial = distinct (family, fault class)".into();
    ctx.rng.0 ^= 0xc02;
    let mut player = Player::new();
    let mut bases = BTreeMap::new();
    for input in inputs(ctx, "C02", true) {
        run_input(ctx, &mut player, &mut bases, &input);
    }
}
