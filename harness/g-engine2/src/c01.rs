//! C01: only validated payload reaches routers.
//!
//! Every item served by the real engine must have a justification in the
//! generator's ground truth: an unbroken chain TAL → … → object in which
//! every certificate validates, and the object is listed with matching hash
//! on a manifest version that is valid in this run.

use rpkitest::scenario::Player;
use rvcore::Ctx;
use serde_json::{json, Value};
use crate::cases::*;

fn run_input(ctx: &mut Ctx, player: &mut Player, input: &Value) {
    let played = match play(player, input) {
        Ok(played) => played,
        Err(err) => {
            ctx.oracle_fail("bad-input", &err, input, json!(null));
            return
        }
    };
    count_stats(ctx, &played);
    let kind = input["kind"].as_str().unwrap_or("?").to_string();
    for r in 0..played.obs.len() {
        let ob = &played.obs[r];
        if !ob.out.ok() {
            ctx.oracle_fail(
                "run-failed", &format!("run {r} ended with {}", ob.out.status.as_str()),
                input, obs_json(&played)
            );
            continue
        }
        let served = served(&played, r);
        let truth = &played.truth[r];
        let unjustified: Vec<&String> = served.iter().filter(|p| !truth.justified.contains(*p)).collect();
        if !unjustified.is_empty() {
            ctx.oracle_fail(
                "unjustified-payload",
                &format!(
                    "run {r} ({kind}; faults {}): served without a valid chain: {unjustified:?}",
                    input["faults"]
                ),
                input, obs_json(&played)
            );
        }
        ctx.count_n("items:served", served.len() as u64);
        ctx.count_n("items:justified-not-served", truth.justified.difference(&served).count() as u64);
    }
    for f in input["faults"].as_array().cloned().unwrap_or_default() {
        let f = f.as_str().unwrap_or("").to_string();
        let class = f.split_whitespace().next().unwrap_or("").to_string();
        ctx.count(&format!("fault:{class}"));
        ctx.nontrivial(format!("{kind} {class}"));
    }
    record(ctx, input, &played);
}

pub fn run_c01(ctx: &mut Ctx) {
    ctx.rule = "random signed RPKI trees (1-3 TALs, depth <= 4, 0-3 children and 0-4 ROA/ASPA/router/GBR \
        objects per CA, 1-2 rsync modules) with 1-3 random faults out of the catalogue (object: bad \
        signature, wrong key, CRL URI, garbage, expired, not yet valid, revoked, overclaim, missing, \
        hash mismatch, replaced, unlisted; manifest: 11 kinds; CRL: 7 kinds; TA: 5 kinds; loops; \
        unpublished CA; failing/partial rsync), as single runs, fallback-to-stored histories and aging \
        histories, under random strict/stale/bgpsec/aspa/depth/unsafe-vrps/length-limit configurations; \
        plus every single fault on a fixed 3-level tree. Non-trivial = distinct (family, fault class)".into();
    ctx.rng.0 ^= 0xc01;
    let mut player = Player::new();
    for input in inputs(ctx, "C01", true) {
        run_input(ctx, &mut player, &input);
    }
}
