//! C37: the once-per-run fetch protocol of `collector::rsync::Run::load_module`
//! (through the public `collector::Run::load_ta`) and of
//! `collector::rrdp::Run::load_repository`, replayed on real threads under
//! every interleaving of the segments between the hook points.
//!
//! The exploration is driven by the REAL code: after every segment the set
//! of enabled threads is computed from where the real threads are parked
//! (a thread parked in front of `mutex.lock()` is enabled iff that very
//! mutex is free, probed through `Mutex::verif_is_locked`). The Lean model
//! is then asked to replay every explored schedule (it must produce the
//! same event trace, fetch counts and `updated` flags, and must not consider
//! any step disabled) and to count the maximal schedules of each
//! exhaustively explored scenario (the counts must agree).

use std::collections::BTreeMap;
use std::io::Write;
use std::path::PathBuf;
use std::str::FromStr;
use std::sync::{Arc, Mutex};
use std::time::Duration;
use rpki::repository::tal::TalUri;
use rpki::uri;
use routinator::collector::Collector;
use routinator::config::Config;
use serde_json::{json, Value};
use rvcore::Ctx;
use crate::sched::{next_prefix_below, RunTrace, Sched, TState};

const STEP_TIMEOUT: Duration = Duration::from_secs(30);


//------------ The fake rsync command ----------------------------------------

/// `rv-conc --fake-rsync <log> -rtO --delete <source> <destination>`
///
/// Appends `start <source>` to the log, writes `<destination>/ta.cer`
/// containing `v<n>` where n is the number of invocations for this source
/// so far, appends `end <source>`.
pub fn fake_rsync(args: &[String]) -> i32 {
    if args.len() < 3 { return 2 }
    let log = &args[0];
    let src = &args[args.len() - 2];
    let dst = &args[args.len() - 1];
    let append = |line: String| {
        let mut file = std::fs::OpenOptions::new().create(true).append(true)
            .open(log).expect("open fake rsync log");
        file.write_all(line.as_bytes()).expect("write fake rsync log");
    };
    append(format!("start {src}\n"));
    let n = std::fs::read_to_string(log).unwrap_or_default().lines()
        .filter(|l| *l == format!("start {src}")).count();
    let _ = std::fs::create_dir_all(dst);
    if std::fs::write(PathBuf::from(dst).join("ta.cer"), format!("v{n}")).is_err() {
        return 3
    }
    append(format!("end {src}\n"));
    0
}


/// The same as a shell script: `$1` = `--fake-rsync`, `$2` = log, the last
/// two arguments are source and destination.
const FAKE_RSYNC_SH: &str = r#"#!/bin/sh
[ "$1" = "-h" ] && exit 0
log="$2"
while [ $# -gt 2 ]; do shift; done
echo "start $1" >> "$log"
n=0
while read -r what src; do
  [ "$what $src" = "start $1" ] && n=$((n+1))
done < "$log"
printf 'v%s' "$n" > "$2/ta.cer" || exit 3
echo "end $1" >> "$log"
exit 0
"#;


/// The command all rsync environments of this process use. The script is
/// written exactly once, and `run_c37` calls this before it starts any
/// thread: a file that is still open for writing in ANY process (a child
/// forked by another thread inherits the descriptor until its exec) cannot
/// be executed (ETXTBSY).
fn fake_rsync_command() -> String {
    static COMMAND: std::sync::OnceLock<String> = std::sync::OnceLock::new();
    COMMAND.get_or_init(|| {
        if !std::path::Path::new("/bin/sh").exists() {
            return std::env::current_exe().unwrap().to_string_lossy().into_owned()
        }
        let dir = Box::leak(Box::new(tempfile::tempdir().expect("tempdir")));
        let script = dir.path().join("fake-rsync.sh");
        std::fs::write(&script, FAKE_RSYNC_SH).unwrap();
        use std::os::unix::fs::PermissionsExt;
        std::fs::set_permissions(&script, std::fs::Permissions::from_mode(0o755)).unwrap();
        script.to_string_lossy().into_owned()
    }).clone()
}


//------------ Environments --------------------------------------------------

/// What a run can observe about fetches.
#[derive(Clone, Debug, Default)]
struct FetchLog {
    started: BTreeMap<usize, usize>,
    completed: BTreeMap<usize, usize>,
}

trait Env: Sync {
    /// Prepares for a fresh validation run.
    fn reset(&self);
    /// `load(k)` on the real code; returns a canonical result.
    fn load(&self, run: &routinator::collector::Run<'static>, key: usize) -> String;
    /// Fetches observed so far in this run.
    fn fetch_log(&self) -> FetchLog;
    fn was_updated(&self, run: &routinator::collector::Run<'static>, key: usize) -> bool;
    fn collector(&self) -> &'static Collector;
    /// Address of the mutex in a `*.lock <ptr>` point name → is it held?
    fn is_locked(&self, ptr: usize) -> bool {
        // The pointer was printed by the thread that is parked right in
        // front of `mutex.lock()` and owns a clone of the `Arc`, so the
        // mutex is alive for as long as that thread stays parked.
        let mutex = unsafe { &*(ptr as *const routinator::utils::sync::Mutex<()>) };
        mutex.verif_is_locked()
    }
}

struct RsyncEnv {
    _dir: tempfile::TempDir,
    cache: PathBuf,
    log: PathBuf,
    collector: &'static Collector,
}

impl RsyncEnv {
    fn new() -> Self {
        let dir = tempfile::tempdir().expect("tempdir");
        let cache = dir.path().join("cache");
        std::fs::create_dir_all(&cache).unwrap();
        let log = dir.path().join("rsync.log");
        let mut config = Config::default_with_paths(dir.path().join("none.conf"), cache.clone());
        config.disable_rrdp = true;
        // The fake rsync: one dash script per process (builtins only, 1 ms
        // per invocation), written by `fake_rsync_command` before any lane
        // or worker thread exists; without /bin/sh this binary's
        // `--fake-rsync` mode.
        config.rsync_command = fake_rsync_command();
        config.rsync_args = Some(vec!["--fake-rsync".into(), log.to_string_lossy().into_owned()]);
        config.rsync_timeout = Some(Duration::from_secs(60));
        // Writing a script and executing it right away can fail with ETXTBSY when
        // another thread of this process forks while the script is still open for
        // writing (the child holds the descriptor until its exec). Environments are
        // therefore created one at a time, and the probe (`rsync -h`) is retried.
        static CREATE: std::sync::Mutex<()> = std::sync::Mutex::new(());
        let _guard = CREATE.lock().unwrap_or_else(|e| e.into_inner());
        let mut attempt = 0;
        let mut collector = loop {
            match Collector::new(&config) {
                Ok(collector) => break collector,
                Err(_) if attempt < 20 => {
                    attempt += 1;
                    std::thread::sleep(Duration::from_millis(25));
                }
                Err(err) => panic!("collector: {err:?}"),
            }
        };
        collector.ignite().expect("ignite");
        RsyncEnv { _dir: dir, cache, log, collector: Box::leak(Box::new(collector)) }
    }

    fn module(key: usize) -> String { format!("rsync://repo{key}.example.net/mod/") }
}

impl Env for RsyncEnv {
    fn reset(&self) {
        let _ = std::fs::remove_file(&self.log);
        let _ = std::fs::remove_dir_all(self.cache.join("rsync"));
        std::fs::create_dir_all(self.cache.join("rsync")).unwrap();
    }

    fn load(&self, run: &routinator::collector::Run<'static>, key: usize) -> String {
        let uri = uri::Rsync::from_str(&format!("{}ta.cer", Self::module(key))).unwrap();
        match run.load_ta(&TalUri::Rsync(uri)) {
            Some(bytes) => String::from_utf8_lossy(&bytes).into_owned(),
            None => "none".into()
        }
    }

    fn fetch_log(&self) -> FetchLog {
        let mut res = FetchLog::default();
        let text = std::fs::read_to_string(&self.log).unwrap_or_default();
        for line in text.lines() {
            let (what, src) = line.split_once(' ').unwrap_or((line, ""));
            let key = src.strip_prefix("rsync://repo")
                .and_then(|s| s.split('.').next()).and_then(|s| s.parse::<usize>().ok());
            if let Some(key) = key {
                match what {
                    "start" => *res.started.entry(key).or_insert(0) += 1,
                    "end" => *res.completed.entry(key).or_insert(0) += 1,
                    _ => {}
                }
            }
        }
        res
    }

    fn was_updated(&self, run: &routinator::collector::Run<'static>, key: usize) -> bool {
        let uri = uri::Rsync::from_str(&format!("{}ta.cer", Self::module(key))).unwrap();
        run.verif_rsync().map(|r| r.was_updated(&uri)).unwrap_or(false)
    }

    fn collector(&self) -> &'static Collector { self.collector }
}

struct RrdpEnv {
    _dir: tempfile::TempDir,
    cache: PathBuf,
    server: httpsrv::Server,
    seen: Mutex<Vec<String>>,
    collector: &'static Collector,
}

impl RrdpEnv {
    fn new() -> Self {
        let dir = tempfile::tempdir().expect("tempdir");
        let cache = dir.path().join("cache");
        std::fs::create_dir_all(&cache).unwrap();
        let server = httpsrv::Server::start();
        let mut config = Config::default_with_paths(dir.path().join("none.conf"), cache.clone());
        config.disable_rsync = true;
        config.allow_dubious_hosts = true;
        config.rrdp_root_certs = vec![httpsrv::ca_cert_path()];
        config.rrdp_timeout = Some(Duration::from_secs(60));
        // Writing a script and executing it right away can fail with ETXTBSY when
        // another thread of this process forks while the script is still open for
        // writing (the child holds the descriptor until its exec). Environments are
        // therefore created one at a time, and the probe (`rsync -h`) is retried.
        static CREATE: std::sync::Mutex<()> = std::sync::Mutex::new(());
        let _guard = CREATE.lock().unwrap_or_else(|e| e.into_inner());
        let mut attempt = 0;
        let mut collector = loop {
            match Collector::new(&config) {
                Ok(collector) => break collector,
                Err(_) if attempt < 20 => {
                    attempt += 1;
                    std::thread::sleep(Duration::from_millis(25));
                }
                Err(err) => panic!("collector: {err:?}"),
            }
        };
        collector.ignite().expect("ignite");
        RrdpEnv {
            _dir: dir, cache, server, seen: Mutex::new(Vec::new()),
            collector: Box::leak(Box::new(collector)),
        }
    }

    fn path(key: usize) -> String { format!("/repo{key}/notification.xml") }

    fn uri(&self, key: usize) -> uri::Https {
        uri::Https::from_str(&self.server.url(&Self::path(key))).unwrap()
    }
}

impl Env for RrdpEnv {
    fn reset(&self) {
        let _ = self.server.take_log();
        self.seen.lock().unwrap().clear();
        let _ = std::fs::remove_dir_all(self.cache.join("rrdp"));
        std::fs::create_dir_all(self.cache.join("rrdp")).unwrap();
    }

    fn load(&self, run: &routinator::collector::Run<'static>, key: usize) -> String {
        use routinator::collector::verif_api::LoadResult;
        let rrdp = run.verif_rrdp().expect("rrdp enabled");
        match rrdp.load_repository(&self.uri(key)) {
            Ok(LoadResult::Unavailable) => "unavailable".into(),
            Ok(LoadResult::Stale) => "stale".into(),
            Ok(LoadResult::Current) => "current".into(),
            Ok(LoadResult::Updated(_)) => "updated".into(),
            Err(_) => "run-failed".into(),
        }
    }

    fn fetch_log(&self) -> FetchLog {
        let mut seen = self.seen.lock().unwrap();
        for req in self.server.take_log() {
            seen.push(req.path);
        }
        let mut res = FetchLog::default();
        for path in seen.iter() {
            let key = path.strip_prefix("/repo")
                .and_then(|s| s.split('/').next()).and_then(|s| s.parse::<usize>().ok());
            if let Some(key) = key {
                // The server logs a request when it has decided the answer
                // (before writing it); the client returns from the fetch
                // only after reading that answer.
                *res.started.entry(key).or_insert(0) += 1;
                *res.completed.entry(key).or_insert(0) += 1;
            }
        }
        res
    }

    fn was_updated(&self, run: &routinator::collector::Run<'static>, key: usize) -> bool {
        run.verif_rrdp().map(|r| r.was_updated(&self.uri(key))).unwrap_or(false)
    }

    fn collector(&self) -> &'static Collector { self.collector }
}


//------------ One replayed run ----------------------------------------------

enum Policy<'a> {
    /// Follow the prefix, then always the first enabled thread.
    Prefix(&'a [usize]),
    /// Choose uniformly among the enabled threads.
    Random(&'a mut rvcore::Rng),
}

#[derive(Clone, Debug, Default)]
struct Outcome {
    trace: RunTrace,
    events: Vec<String>,
    started: Vec<usize>,
    completed: Vec<usize>,
    updated: Vec<bool>,
    finished: bool,
    /// (thread, key, result, fetches of key completed when it returned)
    returns: Vec<(usize, usize, String, usize)>,
    /// The requested prefix named a thread that was not enabled.
    diverged: bool,
    /// A released thread did not reach the next point in time.
    timeout: bool,
}

fn keys_of(calls: &[Vec<usize>]) -> Vec<usize> {
    let mut keys: Vec<usize> = calls.iter().flatten().copied().collect();
    keys.sort();
    keys.dedup();
    keys
}

fn execute(env: &'static dyn Env, calls: &[Vec<usize>], mut policy: Policy) -> Outcome {
    let n = calls.len();
    env.reset();
    let run: Arc<routinator::collector::Run<'static>> = Arc::new(env.collector().start());
    let sched = Sched::new(n);
    let results: Arc<Mutex<Vec<Vec<String>>>> = Arc::new(Mutex::new(vec![Vec::new(); n]));
    let mut handles = Vec::new();
    for (idx, my_calls) in calls.iter().enumerate() {
        let sched = sched.clone();
        let run = run.clone();
        let results = results.clone();
        let my_calls = my_calls.clone();
        handles.push(std::thread::spawn(move || {
            sched.enter(idx);
            for (j, key) in my_calls.iter().enumerate() {
                if j > 0 { crate::sched::park("ret") }
                let res = env.load(&run, *key);
                results.lock().unwrap()[idx].push(res);
            }
            sched.leave(idx);
        }));
    }
    let mut out = Outcome::default();
    if !sched.settle(STEP_TIMEOUT) {
        out.timeout = true;
        return out
    }
    // Index of the call each thread is in (or about to start).
    let mut call_idx = vec![0usize; n];
    let mut step_no = 0usize;
    loop {
        let states = sched.states();
        let mut enabled = Vec::new();
        for (idx, state) in states.iter().enumerate() {
            if let TState::Parked(name) = state {
                let ok = match name.split_once(".lock ") {
                    Some((_, ptr)) => {
                        let ptr = usize::from_str_radix(ptr.trim_start_matches("0x"), 16)
                            .expect("mutex address in point name");
                        !env.is_locked(ptr)
                    }
                    None => true
                };
                if ok { enabled.push(idx) }
            }
        }
        if enabled.is_empty() { break }
        let choice = match &mut policy {
            Policy::Prefix(prefix) => {
                match prefix.get(step_no) {
                    Some(t) if enabled.contains(t) => *t,
                    Some(_) => { out.diverged = true; enabled[0] }
                    None => enabled[0]
                }
            }
            Policy::Random(rng) => enabled[rng.below(enabled.len() as u64) as usize],
        };
        out.trace.choices.push(choice);
        out.trace.enabled.push(enabled);
        step_no += 1;
        let key = calls[choice][call_idx[choice]];
        let Some(state) = sched.step(choice, STEP_TIMEOUT) else {
            out.timeout = true;
            out.events.push(format!("{choice}:timeout/{key}"));
            break
        };
        let name = match &state {
            TState::Finished => "ret".to_string(),
            TState::Parked(name) => {
                let name = name.split(' ').next().unwrap_or("");
                name.split_once('.').map(|x| x.1).unwrap_or(name).to_string()
            }
            TState::Running => unreachable!()
        };
        out.events.push(format!("{choice}:{name}/{key}"));
        if name == "ret" {
            let res = results.lock().unwrap()[choice].get(call_idx[choice]).cloned()
                .unwrap_or_default();
            let done = env.fetch_log().completed.get(&key).copied().unwrap_or(0);
            out.returns.push((choice, key, res, done));
            call_idx[choice] += 1;
        }
    }
    let states = sched.states();
    out.finished = states.iter().all(|s| *s == TState::Finished);
    let keys = keys_of(calls);
    let log = env.fetch_log();
    out.started = keys.iter().map(|k| log.started.get(k).copied().unwrap_or(0)).collect();
    out.completed = keys.iter().map(|k| log.completed.get(k).copied().unwrap_or(0)).collect();
    out.updated = keys.iter().map(|k| env.was_updated(&run, *k)).collect();
    if out.finished {
        for handle in handles { let _ = handle.join(); }
    }
    else {
        // Stuck or timed out: the remaining threads are abandoned.
        sched.release_all();
    }
    out
}

fn show_calls(calls: &[Vec<usize>]) -> String {
    calls.iter().map(|c| c.iter().map(|k| k.to_string()).collect::<Vec<_>>().join(","))
        .collect::<Vec<_>>().join(";")
}

fn join_nums<T: ToString>(items: &[T]) -> String {
    items.iter().map(|x| x.to_string()).collect::<Vec<_>>().join(",")
}

fn impl_line(out: &Outcome) -> String {
    format!(
        "T={} | F={} C={} U={} fin={}",
        out.events.join(" "), join_nums(&out.started), join_nums(&out.completed),
        join_nums(&out.updated.iter().map(|b| *b as u8).collect::<Vec<_>>()),
        out.finished as u8
    )
}

/// Records one replayed run as a case and applies the property oracle.
fn record(ctx: &mut Ctx, variant: &str, calls: &[Vec<usize>], requested: &[usize], out: &Outcome) {
    let input = json!({
        "variant": variant, "calls": calls, "schedule": requested,
    });
    let op = format!(
        "c37 {}|{}|{}", variant, show_calls(calls),
        out.trace.choices.iter().map(|t| t.to_string()).collect::<Vec<_>>().join(" ")
    );
    let imp = impl_line(out);
    ctx.case(&input, &op, &imp);
    ctx.count(&format!("{variant}:runs"));
    if out.diverged { ctx.count(&format!("{variant}:schedule-diverged")) }
    let keys = keys_of(calls);
    let observed = json!({
        "events": out.events, "fetches_started": out.started, "fetches_completed": out.completed,
        "returns": out.returns.iter().map(|r| json!({
            "thread": r.0, "key": r.1, "result": r.2, "completed_fetches_at_return": r.3
        })).collect::<Vec<_>>(),
        "finished": out.finished, "schedule_run": out.trace.choices,
    });
    if out.timeout {
        ctx.oracle_fail(
            &format!("{variant}-step-timeout"),
            "a released thread neither reached the next hook point nor returned within 30 s",
            &input, observed.clone()
        );
    }
    for (i, key) in keys.iter().enumerate() {
        if out.started[i] > 1 {
            ctx.oracle_fail(
                &format!("{variant}-fetched-twice"),
                &format!("key {key} was fetched {} times in one run", out.started[i]),
                &input, observed.clone()
            );
        }
    }
    for (thread, key, res, done) in &out.returns {
        let no_data = variant == "rsync" && res == "none";
        if *done == 0 || no_data {
            ctx.oracle_fail(
                &format!("{variant}-returned-before-fetch"),
                &format!(
                    "thread {thread} returned from load({key}) with result {res:?} when {done} \
                     fetches of the key had finished"
                ),
                &input, observed.clone()
            );
        }
    }
    // Signature: the interleaving shape (who waited on whom, who fetched).
    let waits = out.trace.enabled.iter().zip(out.trace.choices.iter())
        .filter(|(en, _)| en.len() < calls.len()).count();
    ctx.nontrivial(format!("{variant}|{}|{}", show_calls(calls), out.events.join(" ")));
    ctx.count(&format!("{variant}:steps-with-a-blocked-or-finished-thread={}", waits.min(9)));
}

/// A unit of exploration work; jobs run in parallel lanes, each with its
/// own environment (cache directory, fake rsync log / HTTPS server).
enum Job {
    /// All maximal schedules below `root` in depth-first order.
    Subtree { variant: &'static str, calls: Vec<Vec<usize>>, root: Vec<usize>, limit: usize },
    /// `n` random walks.
    Sampled { variant: &'static str, calls: Vec<Vec<usize>>, n: usize, rng: rvcore::Rng },
}

struct JobResult {
    runs: Vec<Outcome>,
    /// Subtree: fully explored; the root was feasible.
    complete: bool,
    feasible: bool,
}

fn new_env(variant: &str) -> &'static dyn Env {
    match variant {
        "rsync" => Box::leak(Box::new(RsyncEnv::new())),
        _ => Box::leak(Box::new(RrdpEnv::new())),
    }
}

fn run_job(job: Job) -> JobResult {
    let mut res = JobResult { runs: Vec::new(), complete: false, feasible: true };
    match job {
        Job::Subtree { variant, calls, root, limit } => {
            let env = new_env(variant);
            let mut prefix = root.clone();
            loop {
                let out = execute(env, &calls, Policy::Prefix(&prefix));
                if out.trace.choices.len() < root.len() || out.trace.choices[..root.len()] != root[..] {
                    // The root itself cannot be run: nothing below it.
                    res.feasible = false;
                    res.complete = true;
                    break
                }
                let next = next_prefix_below(&out.trace, root.len());
                let timeout = out.timeout;
                res.runs.push(out);
                if timeout { break }
                match next {
                    Some(next) => prefix = next,
                    None => { res.complete = true; break }
                }
                if res.runs.len() >= limit { break }
            }
        }
        Job::Sampled { variant, calls, n, mut rng } => {
            let env = new_env(variant);
            for _ in 0..n {
                let mut walk = rng.fork();
                let out = execute(env, &calls, Policy::Random(&mut walk));
                let timeout = out.timeout;
                res.runs.push(out);
                if timeout { break }
            }
            res.complete = true;
        }
    }
    res
}

/// The jobs exploring every maximal schedule of a scenario: one subtree per
/// pair of first two choices (a thread at `start` or in front of the first
/// check is always enabled, so these roots partition the space; a root that
/// cannot be run contributes nothing).
fn exhaustive_jobs(variant: &'static str, calls: &[Vec<usize>], limit: usize) -> Vec<Job> {
    let n = calls.len();
    let mut jobs = Vec::new();
    for a in 0..n {
        for b in 0..n {
            jobs.push(Job::Subtree { variant, calls: calls.to_vec(), root: vec![a, b], limit });
        }
    }
    jobs
}

/// Runs groups of jobs in parallel lanes and records the results in order.
/// A group whose jobs are all subtrees of one scenario is an exhaustive
/// exploration; its total is compared with the model's count.
fn run_groups(ctx: &mut Ctx, groups: Vec<Vec<Job>>, lanes: usize) {
    struct Meta { variant: &'static str, calls: Vec<Vec<usize>>, exhaustive: bool }
    let mut metas = Vec::new();
    let mut flat: Vec<(usize, Job)> = Vec::new();
    for (g, group) in groups.into_iter().enumerate() {
        let mut meta = None;
        for job in group {
            let (variant, calls, exhaustive) = match &job {
                Job::Subtree { variant, calls, .. } => (*variant, calls.clone(), true),
                Job::Sampled { variant, calls, .. } => (*variant, calls.clone(), false),
            };
            meta = Some(Meta { variant, calls, exhaustive });
            flat.push((g, job));
        }
        metas.push(meta.expect("empty group"));
    }
    let total = flat.len();
    let queue = Mutex::new(flat.into_iter().enumerate().collect::<Vec<_>>());
    let results: Mutex<Vec<Option<(usize, JobResult)>>> = Mutex::new((0..total).map(|_| None).collect());
    std::thread::scope(|scope| {
        for _ in 0..lanes.min(total).max(1) {
            scope.spawn(|| {
                loop {
                    let next = {
                        let mut queue = queue.lock().unwrap();
                        if queue.is_empty() { None } else { Some(queue.remove(0)) }
                    };
                    let Some((pos, (group, job))) = next else { break };
                    let res = run_job(job);
                    results.lock().unwrap()[pos] = Some((group, res));
                }
            });
        }
    });
    let results = results.into_inner().unwrap();
    let mut per_group: Vec<(usize, usize, bool)> = metas.iter().map(|_| (0, 0, true)).collect();
    for item in results.into_iter() {
        let Some((group, res)) = item else { continue };
        let meta = &metas[group];
        for out in &res.runs {
            let sched = out.trace.choices.clone();
            record(ctx, meta.variant, &meta.calls, &sched, out);
            per_group[group].0 += 1;
            if !out.finished { per_group[group].1 += 1 }
        }
        if !res.complete {
            per_group[group].2 = false;
            ctx.count(&format!("{}:exploration-capped", meta.variant));
        }
        if !res.feasible { ctx.count(&format!("{}:infeasible-root", meta.variant)) }
    }
    for (meta, (runs, stuck, complete)) in metas.iter().zip(per_group) {
        if !meta.exhaustive { continue }
        if complete {
            // The model must have exactly as many maximal schedules.
            let input = json!({"variant": meta.variant, "calls": meta.calls, "enumerate": true});
            ctx.case(
                &input, &format!("c37n {}|{}", meta.variant, show_calls(&meta.calls)),
                &format!("n={runs} stuck={stuck}")
            );
            ctx.count(&format!("{}:exhaustive-scenarios", meta.variant));
        }
        ctx.extra(
            &format!("{}:{}", meta.variant, show_calls(&meta.calls)),
            json!({"schedules_run": runs, "exhaustive": complete, "stuck": stuck})
        );
    }
}

fn parse_calls(v: &Value) -> Option<Vec<Vec<usize>>> {
    v.as_array()?.iter().map(|t| {
        t.as_array()?.iter().map(|k| k.as_u64().map(|k| k as usize)).collect::<Option<Vec<_>>>()
    }).collect()
}

fn variant_name(variant: &str) -> Option<&'static str> {
    match variant { "rsync" => Some("rsync"), "rrdp" => Some("rrdp"), _ => None }
}

struct Envs {
    rsync: Option<&'static dyn Env>,
    rrdp: Option<&'static dyn Env>,
}

impl Envs {
    fn get(&mut self, variant: &'static str) -> &'static dyn Env {
        let slot = if variant == "rsync" { &mut self.rsync } else { &mut self.rrdp };
        if slot.is_none() { *slot = Some(new_env(variant)) }
        slot.unwrap()
    }
}

fn lanes() -> usize {
    std::thread::available_parallelism().map(|n| n.get()).unwrap_or(2).clamp(2, 8)
}

fn run_input(ctx: &mut Ctx, envs: &mut Envs, input: &Value) {
    let (Some(variant), Some(calls)) = (
        variant_name(input["variant"].as_str().unwrap_or("")), parse_calls(&input["calls"])
    ) else {
        ctx.count("bad-input");
        return
    };
    if calls.len() < 2 || calls.len() > 4 || calls.iter().any(|c| c.is_empty() || c.len() > 3) {
        ctx.count("bad-input");
        return
    }
    if input["enumerate"].as_bool() == Some(true) {
        run_groups(ctx, vec![exhaustive_jobs(variant, &calls, usize::MAX)], lanes());
        return
    }
    let schedule: Vec<usize> = input["schedule"].as_array().map(|a| {
        a.iter().filter_map(|t| t.as_u64().map(|t| t as usize)).collect()
    }).unwrap_or_default();
    let out = execute(envs.get(variant), &calls, Policy::Prefix(&schedule));
    record(ctx, variant, &calls, &schedule, &out);
}

pub fn run_c37(ctx: &mut Ctx) {
    ctx.rule = "one case = one complete interleaving (schedule of segments between hook points) \
        of 2-3 real threads calling load_ta(rsync)/load_repository(rrdp) for 1-2 keys, explored \
        depth-first from the real code's enabled sets (exhaustive scenarios) or by random walk \
        (larger scenarios); distinct = distinct (variant, scenario, event trace)".into();
    let mut envs = Envs { rsync: None, rrdp: None };
    // Before any other thread exists (see there).
    let _ = fake_rsync_command();
    if let Some(inputs) = ctx.replay_inputs() {
        for input in inputs { run_input(ctx, &mut envs, &input) }
        return
    }
    for input in ctx.corpus("C37") { run_input(ctx, &mut envs, &input) }

    let two_same = vec![vec![0], vec![0]];
    let two_then = vec![vec![0, 1], vec![0]];
    let two_diff = vec![vec![0], vec![1]];
    let twice = vec![vec![0, 0], vec![0]];
    let three = vec![vec![0], vec![0], vec![0]];
    let three_mixed = vec![vec![0, 1], vec![1, 0], vec![0]];
    let n = ctx.budget(150, 900);
    // Per subtree (a quarter of a scenario). The largest exhaustive scenario
    // of the tier has 502 (quick) / 1647 (thorough) schedules in total; a
    // code change that removes blocking makes the space explode, so cap it
    // (a capped scenario is not claimed exhaustive and its count not compared).
    let cap = if ctx.quick() { 1500 } else { 4000 };
    let mut groups = Vec::new();
    for variant in ["rsync", "rrdp"] {
        // Two threads, one key, one call (thorough: also two calls): every
        // interleaving.
        groups.push(exhaustive_jobs(variant, &two_same, cap));
        let twice_sampled = ctx.quick() && !ctx.search;
        if !twice_sampled {
            groups.push(exhaustive_jobs(variant, &twice, cap));
        }
        for (calls, n) in [
            (&two_then, n), (&two_diff, n / 2), (&three, n),
            (&twice, if twice_sampled { n } else { 0 })
        ] {
            if n == 0 { continue }
            // Several jobs per scenario so that the lanes stay busy.
            let parts = if ctx.quick() { 2 } else { 6 };
            groups.push((0..parts).map(|_| Job::Sampled {
                variant, calls: calls.clone(), n: n / parts, rng: ctx.rng.fork()
            }).collect());
        }
        if !ctx.quick() || ctx.search {
            groups.push((0..6).map(|_| Job::Sampled {
                variant, calls: three_mixed.clone(), n: n / 6, rng: ctx.rng.fork()
            }).collect());
        }
    }
    run_groups(ctx, groups, lanes());
}
