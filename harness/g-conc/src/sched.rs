//! A deterministic scheduler for real threads.
//!
//! Worker threads park at the hook points (`routinator::verif::point`) and
//! at harness-level points; the scheduler releases exactly one worker at a
//! time and waits until it is parked again or has finished. A schedule (a
//! list of worker indices) thereby replays one interleaving of the segments
//! between the points exactly.

use std::cell::RefCell;
use std::sync::{Arc, Condvar, Mutex, Once};
use std::time::{Duration, Instant};

#[derive(Clone, Debug, Eq, PartialEq)]
pub enum TState {
    /// Released and not yet parked again.
    Running,
    /// Parked at the named point.
    Parked(String),
    /// The worker's closure has returned.
    Finished,
}

struct Slot {
    state: TState,
    go: bool,
}

struct Inner {
    slots: Mutex<Vec<Slot>>,
    cv: Condvar,
}

#[derive(Clone)]
pub struct Sched {
    inner: Arc<Inner>,
}

thread_local! {
    static WORKER: RefCell<Option<(Arc<Inner>, usize)>> = const { RefCell::new(None) };
}

static INSTALL: Once = Once::new();

static POINT_LOG: Mutex<Option<Vec<String>>> = Mutex::new(None);

/// Installs the hook handler: worker threads of a scheduler park at every
/// point; points hit by other threads are appended to the point log while
/// it is switched on.
pub fn install_handler() {
    INSTALL.call_once(|| {
        routinator::verif::set_point_handler(Some(Arc::new(|name: &str| {
            let worker = WORKER.with(|w| w.borrow().is_some());
            if worker {
                park(name)
            }
            else if let Some(log) = POINT_LOG.lock().unwrap().as_mut() {
                log.push(name.to_string())
            }
        })));
    });
}

/// Starts (and clears) the log of points hit by non-worker threads.
pub fn start_point_log() {
    install_handler();
    *POINT_LOG.lock().unwrap() = Some(Vec::new());
}

/// Returns the points logged so far and clears the log.
pub fn take_point_log() -> Vec<String> {
    POINT_LOG.lock().unwrap().as_mut().map(std::mem::take).unwrap_or_default()
}

/// Parks the calling worker at `name`. A no-op on threads that are not
/// workers of a scheduler.
pub fn park(name: &str) {
    let me = WORKER.with(|w| w.borrow().clone());
    let Some((inner, idx)) = me else { return };
    let mut slots = inner.slots.lock().unwrap();
    slots[idx].state = TState::Parked(name.to_string());
    inner.cv.notify_all();
    while !slots[idx].go {
        slots = inner.cv.wait(slots).unwrap();
    }
    slots[idx].go = false;
}

impl Sched {
    /// Creates a scheduler for `n` workers and makes sure the hook handler
    /// is installed.
    pub fn new(n: usize) -> Self {
        install_handler();
        Sched {
            inner: Arc::new(Inner {
                slots: Mutex::new(
                    (0..n).map(|_| Slot { state: TState::Running, go: false }).collect()
                ),
                cv: Condvar::new(),
            })
        }
    }

    /// To be called first thing on worker `idx`'s thread: registers the
    /// thread and parks it at `start`.
    pub fn enter(&self, idx: usize) {
        WORKER.with(|w| *w.borrow_mut() = Some((self.inner.clone(), idx)));
        park("start");
    }

    /// To be called last thing on worker `idx`'s thread.
    pub fn leave(&self, idx: usize) {
        WORKER.with(|w| *w.borrow_mut() = None);
        let mut slots = self.inner.slots.lock().unwrap();
        slots[idx].state = TState::Finished;
        self.inner.cv.notify_all();
    }

    /// Waits until no worker is running; returns false on timeout.
    pub fn settle(&self, timeout: Duration) -> bool {
        let deadline = Instant::now() + timeout;
        let mut slots = self.inner.slots.lock().unwrap();
        while slots.iter().any(|s| s.state == TState::Running) {
            let now = Instant::now();
            if now >= deadline { return false }
            let (guard, _) = self.inner.cv.wait_timeout(slots, deadline - now).unwrap();
            slots = guard;
        }
        true
    }

    pub fn states(&self) -> Vec<TState> {
        self.inner.slots.lock().unwrap().iter().map(|s| s.state.clone()).collect()
    }

    /// Releases worker `idx` (which must be parked) and waits until it is
    /// parked again or finished. `None` on timeout (the worker blocked).
    pub fn step(&self, idx: usize, timeout: Duration) -> Option<TState> {
        {
            let mut slots = self.inner.slots.lock().unwrap();
            assert!(matches!(slots[idx].state, TState::Parked(_)), "step of a worker that is not parked");
            slots[idx].state = TState::Running;
            slots[idx].go = true;
            self.inner.cv.notify_all();
        }
        let deadline = Instant::now() + timeout;
        let mut slots = self.inner.slots.lock().unwrap();
        while slots[idx].state == TState::Running {
            let now = Instant::now();
            if now >= deadline { return None }
            let (guard, _) = self.inner.cv.wait_timeout(slots, deadline - now).unwrap();
            slots = guard;
        }
        Some(slots[idx].state.clone())
    }

    /// Releases every parked worker without waiting (end of a run: lets the
    /// remaining workers run to completion on their own).
    pub fn release_all(&self) {
        let mut slots = self.inner.slots.lock().unwrap();
        for slot in slots.iter_mut() {
            if matches!(slot.state, TState::Parked(_)) {
                slot.state = TState::Running;
            }
            slot.go = true;
        }
        self.inner.cv.notify_all();
    }
}

/// One exploration run: the thread chosen at every step and the threads
/// that were enabled there.
#[derive(Clone, Debug, Default)]
pub struct RunTrace {
    pub choices: Vec<usize>,
    pub enabled: Vec<Vec<usize>>,
}

/// The next schedule prefix in depth-first order after a completed run:
/// the longest prefix that can be followed by a not yet tried enabled
/// thread. `None` when the space is exhausted.
///
/// The first `root` choices are never changed (depth-first order inside the
/// subtree of that root; `root = 0` for the whole space).
pub fn next_prefix_below(trace: &RunTrace, root: usize) -> Option<Vec<usize>> {
    for i in (root..trace.choices.len()).rev() {
        let cur = trace.choices[i];
        if let Some(next) = trace.enabled[i].iter().copied().find(|&t| t > cur) {
            let mut prefix = trace.choices[..i].to_vec();
            prefix.push(next);
            return Some(prefix)
        }
    }
    None
}


//------------ Generic replay of one schedule --------------------------------

/// How the next thread is chosen.
pub enum Policy<'a> {
    /// Follow the prefix, then always the first enabled thread.
    Prefix(&'a [usize]),
    /// Choose uniformly among the enabled threads.
    Random(&'a mut rvcore::Rng),
}

#[derive(Clone, Debug, Default)]
pub struct Replay {
    pub trace: RunTrace,
    /// Every worker finished.
    pub finished: bool,
    /// The requested prefix named a thread that was not enabled.
    pub diverged: bool,
    /// A released worker did not reach the next point in time.
    pub timeout: bool,
}

/// Probes the `utils::sync::Mutex<()>` whose address a `*.lock <ptr>` point
/// name carries.
///
/// The pointer was printed by the thread that is parked right in front of
/// `lock()` and keeps the mutex alive for as long as it stays parked there.
pub fn lock_point_enabled(name: &str) -> bool {
    match name.split_once(".lock ") {
        Some((_, ptr)) => {
            let ptr = usize::from_str_radix(ptr.trim().trim_start_matches("0x"), 16)
                .expect("mutex address in point name");
            let mutex = unsafe { &*(ptr as *const routinator::utils::sync::Mutex<()>) };
            !mutex.verif_is_locked()
        }
        None => true
    }
}

/// Runs `n` workers (`body(i)` on its own thread, parked at `start` first)
/// under the policy. After every segment `observe(thread, point)` is called
/// with the point the thread reached (`end` when its body returned).
pub fn replay(
    n: usize,
    body: Arc<dyn Fn(usize) + Send + Sync>,
    mut policy: Policy,
    observe: &mut dyn FnMut(usize, &str),
    timeout: Duration,
) -> Replay {
    let sched = Sched::new(n);
    let mut handles = Vec::new();
    for idx in 0..n {
        let sched = sched.clone();
        let body = body.clone();
        handles.push(std::thread::spawn(move || {
            sched.enter(idx);
            body(idx);
            sched.leave(idx);
        }));
    }
    let mut out = Replay::default();
    if !sched.settle(timeout) {
        out.timeout = true;
        return out
    }
    let mut step_no = 0usize;
    loop {
        let states = sched.states();
        let enabled: Vec<usize> = states.iter().enumerate().filter_map(|(idx, state)| {
            match state {
                TState::Parked(name) if lock_point_enabled(name) => Some(idx),
                _ => None
            }
        }).collect();
        if enabled.is_empty() { break }
        let choice = match &mut policy {
            Policy::Prefix(prefix) => {
                match prefix.get(step_no) {
                    Some(t) if enabled.contains(t) => *t,
                    Some(_) => { out.diverged = true; enabled[0] }
                    None => enabled[0]
                }
            }
            Policy::Random(rng) => enabled[rng.below(enabled.len() as u64) as usize],
        };
        out.trace.choices.push(choice);
        out.trace.enabled.push(enabled);
        step_no += 1;
        let Some(state) = sched.step(choice, timeout) else {
            out.timeout = true;
            observe(choice, "timeout");
            break
        };
        match &state {
            TState::Finished => observe(choice, "end"),
            TState::Parked(name) => {
                let name = name.split(' ').next().unwrap_or("");
                observe(choice, name.split_once('.').map(|x| x.1).unwrap_or(name));
            }
            TState::Running => unreachable!()
        }
    }
    out.finished = sched.states().iter().all(|s| *s == TState::Finished);
    if out.finished {
        for handle in handles { let _ = handle.join(); }
    }
    else {
        sched.release_all();
    }
    out
}

/// Runs jobs in parallel lanes; results come back in job order.
pub fn run_parallel<J: Send, R: Send>(
    jobs: Vec<J>, lanes: usize, run: impl Fn(J) -> R + Sync
) -> Vec<R> {
    let total = jobs.len();
    let queue = Mutex::new(jobs.into_iter().enumerate().collect::<Vec<_>>());
    let results: Mutex<Vec<Option<R>>> = Mutex::new((0..total).map(|_| None).collect());
    std::thread::scope(|scope| {
        for _ in 0..lanes.min(total).max(1) {
            scope.spawn(|| {
                loop {
                    let next = {
                        let mut queue = queue.lock().unwrap();
                        if queue.is_empty() { None } else { Some(queue.remove(0)) }
                    };
                    let Some((pos, job)) = next else { break };
                    let res = run(job);
                    results.lock().unwrap()[pos] = Some(res);
                }
            });
        }
    });
    results.into_inner().unwrap().into_iter().map(|r| r.expect("job result")).collect()
}

pub fn lanes() -> usize {
    std::thread::available_parallelism().map(|n| n.get()).unwrap_or(2).clamp(2, 8)
}
