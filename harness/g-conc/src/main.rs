//! Group "conc": C37 (once-per-run fetch protocol), C36 (RTR client metrics
//! registry), C19 (RTR listener keeps accepting).
mod sched;
mod once;
mod registry;
mod listener;

fn run(name: &str, ctx: &mut rvcore::Ctx) -> bool {
    match name {
        "c37" => once::run_c37(ctx),
        "c36" => registry::run_c36(ctx),
        "c19" => listener::run_c19(ctx),
        "c36e" => listener::run_c36e(ctx),
        _ => return false
    }
    true
}

/// Sub-process modes: the fake rsync command.
fn special(name: &str, args: &[String]) -> Option<i32> {
    match name {
        "-h" => Some(0),
        "--fake-rsync" => Some(once::fake_rsync(args)),
        _ => None
    }
}

fn main() { rvcore::main_with(run, special) }
