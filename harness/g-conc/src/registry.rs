//! C36: `RtrServerMetrics::get_client` (→ `RtrPerAddrMetrics::get`) and the
//! connection counting of `RtrStream::new` / `Drop for RtrStream`
//! (`RtrClientMetrics::update`), replayed on real threads under every
//! interleaving of the segments between the hook points `metrics.*`.
//!
//! Like C37 the exploration follows the REAL code's enabled sets (the
//! `write` mutex is probed), and the Lean model replays every explored
//! schedule: after every segment the published list (`clients()`) with the
//! per-address open-connection counts and the global count must agree.

use std::net::IpAddr;
use std::sync::{Arc, Mutex};
use std::time::Duration;
use routinator::metrics::RtrServerMetrics;
use serde_json::{json, Value};
use rvcore::Ctx;
use crate::sched::{self, next_prefix_below, Policy, Replay};

const STEP_TIMEOUT: Duration = Duration::from_secs(30);

/// The address universe: v4 and v6 mixed so that `IpAddr`'s `Ord` matters.
/// The model works with the rank of an address in the real `Ord`.
fn universe() -> Vec<IpAddr> {
    let mut all: Vec<IpAddr> = [
        "10.0.0.1", "9.255.255.255", "192.0.2.7", "::1", "2001:db8::1", "0.0.0.0",
        "255.255.255.255", "::ffff:10.0.0.1", "127.0.0.1", "2001:db8::",
    ].iter().map(|s| s.parse().unwrap()).collect();
    all.sort();
    all
}

#[derive(Clone, Debug, Default)]
struct Outcome {
    replay: Replay,
    initial: String,
    events: Vec<String>,
    /// Oracle findings of this run: (class, reason).
    findings: Vec<(String, String)>,
}

fn show_list(uni: &[IpAddr], metrics: &RtrServerMetrics) -> (String, Vec<(usize, usize)>, usize) {
    let clients = metrics.clients().expect("per-client metrics enabled");
    let list: Vec<(usize, usize)> = clients.iter().map(|(addr, data)| {
        (uni.iter().position(|a| a == addr).expect("known address"), data.current_connections())
    }).collect();
    let global = metrics.global().current_connections();
    let text = format!(
        "[{}|{}]",
        list.iter().map(|(a, c)| format!("{a}:{}", *c as isize)).collect::<Vec<_>>().join(","),
        global as isize
    );
    (text, list, global)
}

/// One replayed run of the scenario on a fresh `RtrServerMetrics`.
fn execute(pre: &[usize], conns: &[Vec<usize>], policy: Policy) -> Outcome {
    let uni = Arc::new(universe());
    let metrics = Arc::new(RtrServerMetrics::new(true));
    // Existing addresses: complete connect/close cycles, one after the other.
    for a in pre {
        let client = metrics.get_client(uni[*a]);
        client.update(|m| m.inc_current_connections());
        client.update(|m| m.dec_current_connections());
    }
    let mut out = Outcome::default();
    out.initial = show_list(&uni, &metrics).0;
    // Per thread: the address of its current connection and whether it is
    // counted (between `update(inc)` and `update(dec)`).
    let phase: Arc<Mutex<Vec<Option<(usize, bool)>>>> = Arc::new(Mutex::new(vec![None; conns.len()]));
    let body = {
        let (uni, metrics, phase) = (uni.clone(), metrics.clone(), phase.clone());
        let conns = conns.to_vec();
        Arc::new(move |idx: usize| {
            for (j, a) in conns[idx].iter().enumerate() {
                if j > 0 { sched::park("end") }
                // What `RtrStream::new` does with the metrics ...
                let client = metrics.get_client(uni[*a]);
                phase.lock().unwrap()[idx] = Some((*a, false));
                sched::park("got");
                client.update(|m| m.inc_current_connections());
                phase.lock().unwrap()[idx] = Some((*a, true));
                sched::park("open");
                // ... and what `Drop for RtrStream` does.
                client.update(|m| m.dec_current_connections());
                phase.lock().unwrap()[idx] = None;
            }
        })
    };
    let mut returned: Vec<usize> = pre.to_vec();
    let mut events = Vec::new();
    let mut findings: Vec<(String, String)> = Vec::new();
    let mut observe = |thread: usize, point: &str| {
        let (text, list, global) = show_list(&uni, &metrics);
        events.push(format!("{thread}:{point}{text}"));
        // The property, evaluated on the real list after every segment.
        let addrs: Vec<IpAddr> = metrics.clients().unwrap().iter().map(|x| x.0).collect();
        if !addrs.windows(2).all(|w| w[0] < w[1]) {
            findings.push(("list-not-strictly-sorted".into(),
                format!("after {thread}:{point} the client list is {addrs:?}")));
        }
        let phase = phase.lock().unwrap().clone();
        for item in phase.iter().flatten() {
            if !returned.contains(&item.0) { returned.push(item.0) }
        }
        for a in &returned {
            if !list.iter().any(|(b, _)| b == a) {
                findings.push(("address-lost".into(),
                    format!("after {thread}:{point} address rank {a}, whose get() had returned, is not listed")));
            }
        }
        for (a, count) in &list {
            let open = phase.iter().flatten().filter(|p| p.0 == *a && p.1).count();
            if *count != open {
                findings.push(("count-mismatch".into(),
                    format!("after {thread}:{point} address rank {a} shows {} open connections, {open} are open",
                        *count as isize)));
            }
        }
        let open = phase.iter().flatten().filter(|p| p.1).count();
        if global != open {
            findings.push(("global-count-mismatch".into(),
                format!("after {thread}:{point} the global count is {}, {open} connections are open", global as isize)));
        }
    };
    let replay = sched::replay(conns.len(), body, policy, &mut observe, STEP_TIMEOUT);
    if replay.finished {
        let (_, list, global) = show_list(&uni, &metrics);
        if global != 0 || list.iter().any(|(_, c)| *c != 0) {
            findings.push(("counts-not-zero-at-end".into(),
                format!("all connections closed but counts are {list:?} global {}", global as isize)));
        }
    }
    out.replay = replay;
    out.events = events;
    out.findings = findings;
    out
}

fn join_nums(items: &[usize]) -> String {
    items.iter().map(|k| k.to_string()).collect::<Vec<_>>().join(",")
}

fn show_conns(conns: &[Vec<usize>]) -> String {
    conns.iter().map(|c| join_nums(c)).collect::<Vec<_>>().join(";")
}

fn record(ctx: &mut Ctx, pre: &[usize], conns: &[Vec<usize>], requested: &[usize], out: &Outcome) {
    let input = json!({"pre": pre, "conns": conns, "schedule": requested});
    let op = format!(
        "c36 {}|{}|{}", join_nums(pre), show_conns(conns),
        out.replay.trace.choices.iter().map(|t| t.to_string()).collect::<Vec<_>>().join(" ")
    );
    let imp = format!("I={} T={} fin={}", out.initial, out.events.join(" "), out.replay.finished as u8);
    ctx.case(&input, &op, &imp);
    ctx.count("runs");
    if out.replay.diverged { ctx.count("schedule-diverged") }
    let observed = json!({"initial": out.initial, "events": out.events,
        "finished": out.replay.finished, "schedule_run": out.replay.trace.choices});
    if out.replay.timeout {
        ctx.oracle_fail("step-timeout",
            "a released thread neither reached the next hook point nor finished within 30 s",
            &input, observed.clone());
    }
    if !out.replay.finished && !out.replay.timeout {
        ctx.oracle_fail("stuck", "no thread is enabled but not all have finished", &input, observed.clone());
    }
    let mut seen = std::collections::BTreeSet::new();
    for (class, reason) in &out.findings {
        if seen.insert(class.clone()) {
            ctx.oracle_fail(class, reason, &input, observed.clone());
        }
    }
    ctx.nontrivial(format!("{}|{}|{}", join_nums(pre), show_conns(conns), out.events.join(" ")));
    let waits = out.replay.trace.enabled.iter().filter(|en| en.len() < conns.len()).count();
    ctx.count(&format!("steps-with-a-blocked-or-finished-thread={}", waits.min(9)));
}

enum Job {
    Subtree { pre: Vec<usize>, conns: Vec<Vec<usize>>, root: Vec<usize>, limit: usize },
    Sampled { pre: Vec<usize>, conns: Vec<Vec<usize>>, n: usize, rng: rvcore::Rng },
}

struct JobResult { runs: Vec<Outcome>, complete: bool }

fn run_job(job: Job) -> JobResult {
    let mut res = JobResult { runs: Vec::new(), complete: false };
    match job {
        Job::Subtree { pre, conns, root, limit } => {
            let mut prefix = root.clone();
            loop {
                let out = execute(&pre, &conns, Policy::Prefix(&prefix));
                let choices = &out.replay.trace.choices;
                if choices.len() < root.len() || choices[..root.len()] != root[..] {
                    res.complete = true;
                    break
                }
                let next = next_prefix_below(&out.replay.trace, root.len());
                let timeout = out.replay.timeout;
                res.runs.push(out);
                if timeout { break }
                match next {
                    Some(next) => prefix = next,
                    None => { res.complete = true; break }
                }
                if res.runs.len() >= limit { break }
            }
        }
        Job::Sampled { pre, conns, n, mut rng } => {
            for _ in 0..n {
                let mut walk = rng.fork();
                let out = execute(&pre, &conns, Policy::Random(&mut walk));
                let timeout = out.replay.timeout;
                res.runs.push(out);
                if timeout { break }
            }
            res.complete = true;
        }
    }
    res
}

struct Group { pre: Vec<usize>, conns: Vec<Vec<usize>>, exhaustive: bool, jobs: Vec<Job> }

/// Cap per subtree: the largest exhaustive scenario has 1698 schedules in
/// total; without the mutex the space is much larger.
const SUBTREE_CAP: usize = 6000;

fn exhaustive_group(pre: &[usize], conns: &[Vec<usize>]) -> Group {
    let n = conns.len();
    let mut jobs = Vec::new();
    for a in 0..n {
        for b in 0..n {
            jobs.push(Job::Subtree {
                pre: pre.to_vec(), conns: conns.to_vec(), root: vec![a, b], limit: SUBTREE_CAP
            });
        }
    }
    Group { pre: pre.to_vec(), conns: conns.to_vec(), exhaustive: true, jobs }
}

fn sampled_group(ctx: &mut Ctx, pre: &[usize], conns: &[Vec<usize>], n: usize, parts: usize) -> Group {
    let jobs = (0..parts).map(|_| Job::Sampled {
        pre: pre.to_vec(), conns: conns.to_vec(), n: n.div_ceil(parts), rng: ctx.rng.fork()
    }).collect();
    Group { pre: pre.to_vec(), conns: conns.to_vec(), exhaustive: false, jobs }
}

fn run_groups(ctx: &mut Ctx, groups: Vec<Group>) {
    let mut metas = Vec::new();
    let mut flat = Vec::new();
    for (g, group) in groups.into_iter().enumerate() {
        metas.push((group.pre, group.conns, group.exhaustive));
        for job in group.jobs { flat.push((g, job)) }
    }
    let results = sched::run_parallel(flat, sched::lanes(), |(g, job)| (g, run_job(job)));
    let mut per_group = vec![(0usize, 0usize, true); metas.len()];
    for (g, res) in results {
        let (pre, conns, _) = &metas[g];
        for out in &res.runs {
            let sched = out.replay.trace.choices.clone();
            record(ctx, pre, conns, &sched, out);
            per_group[g].0 += 1;
            if !out.replay.finished { per_group[g].1 += 1 }
        }
        if !res.complete { per_group[g].2 = false }
    }
    for ((pre, conns, exhaustive), (runs, stuck, complete)) in metas.iter().zip(per_group) {
        if !exhaustive { continue }
        if complete {
            let input = json!({"pre": pre, "conns": conns, "enumerate": true});
            ctx.case(&input, &format!("c36n {}|{}", join_nums(pre), show_conns(conns)),
                &format!("n={runs} stuck={stuck}"));
            ctx.count("exhaustive-scenarios");
        }
        ctx.extra(&format!("{}|{}", join_nums(pre), show_conns(conns)),
            json!({"schedules_run": runs, "exhaustive": complete, "stuck": stuck}));
    }
}

fn parse_nums(v: &Value) -> Option<Vec<usize>> {
    v.as_array()?.iter().map(|k| k.as_u64().map(|k| k as usize)).collect()
}

fn run_input(ctx: &mut Ctx, input: &Value) {
    let n_addr = universe().len();
    let pre = parse_nums(&input["pre"]);
    let conns: Option<Vec<Vec<usize>>> = input["conns"].as_array()
        .and_then(|a| a.iter().map(parse_nums).collect());
    let (Some(pre), Some(conns)) = (pre, conns) else { ctx.count("bad-input"); return };
    if conns.len() < 2 || conns.len() > 4 || conns.iter().any(|c| c.is_empty() || c.len() > 3)
        || pre.iter().chain(conns.iter().flatten()).any(|a| *a >= n_addr)
    {
        ctx.count("bad-input");
        return
    }
    if input["enumerate"].as_bool() == Some(true) {
        run_groups(ctx, vec![exhaustive_group(&pre, &conns)]);
        return
    }
    let schedule = parse_nums(&input["schedule"]).unwrap_or_default();
    let out = execute(&pre, &conns, Policy::Prefix(&schedule));
    record(ctx, &pre, &conns, &schedule, &out);
}

pub fn run_c36(ctx: &mut Ctx) {
    ctx.rule = "one case = one complete interleaving of 2-3 real threads doing \
        get_client(addr)/update(inc)/update(dec) on one RtrServerMetrics (segments between the \
        metrics.* hook points), depth-first over the real code's enabled sets for the 2-thread \
        scenarios (new/existing, equal/smaller/larger addresses), random walks for 3 threads; \
        distinct = distinct (scenario, event trace with list states)".into();
    if let Some(inputs) = ctx.replay_inputs() {
        for input in inputs { run_input(ctx, &input) }
        return
    }
    for input in ctx.corpus("C36") { run_input(ctx, &input) }
    let mut groups = Vec::new();
    // Two first connections: same new address; different new addresses in
    // both orders relative to an existing one; one of them existing.
    groups.push(exhaustive_group(&[], &[vec![4], vec![4]]));
    groups.push(exhaustive_group(&[], &[vec![6], vec![2]]));
    groups.push(exhaustive_group(&[4], &[vec![2], vec![6]]));
    groups.push(exhaustive_group(&[4], &[vec![4], vec![6]]));
    let n = ctx.budget(300, 6000);
    for (pre, conns) in [
        (vec![], vec![vec![3], vec![3], vec![3]]),
        (vec![5], vec![vec![7], vec![1], vec![5]]),
        (vec![], vec![vec![8, 0], vec![0, 8]]),
        (vec![2, 9], vec![vec![0], vec![9], vec![4, 4]]),
    ] {
        groups.push(sampled_group(ctx, &pre, &conns, n, 4));
    }
    if !ctx.quick() || ctx.search {
        groups.push(exhaustive_group(&[1, 8], &[vec![0], vec![9]]));
        groups.push(exhaustive_group(&[], &[vec![5, 5], vec![5]]));
    }
    run_groups(ctx, groups);
}
