//! C19: the real `rtr::rtr_listener` on a real TCP socket; sequences of
//! client connections some of which fail the per-connection setup
//! (`RtrStream::new`): through a TCP keepalive value the kernel rejects
//! (every connection fails) or through the `rtr.setup-fails` injection hook
//! (any chosen subset).
//!
//! Observed per connection by a plain blocking client: `served` (a Reset
//! Query was answered with an RTR PDU), `closed` (the server closed the
//! connection) or `hang` (neither within the deadline). The Lean model of
//! the poll contract predicts the same sequence.

use std::collections::VecDeque;
use std::io::{Read, Write};
use std::net::{SocketAddr, TcpListener, TcpStream};
use std::os::fd::AsRawFd;
use std::sync::{Arc, Mutex};
use std::time::Duration;
use routinator::config::Config;
use routinator::metrics::RtrServerMetrics;
use routinator::payload::SharedHistory;
use rpki::rtr::server::NotifySender;
use serde_json::{json, Value};
use rvcore::Ctx;
use crate::sched;

/// How long a client waits before a connection counts as hanging.
const HANG: Duration = Duration::from_secs(10);

static SCRIPT: Mutex<VecDeque<bool>> = Mutex::new(VecDeque::new());

fn install_injector() {
    static ONCE: std::sync::Once = std::sync::Once::new();
    ONCE.call_once(|| {
        routinator::verif::set_inject_handler(Some(Arc::new(|name: &str| {
            // `true` in the script = this setup is to succeed.
            name == "rtr.setup-fails" && !SCRIPT.lock().unwrap().pop_front().unwrap_or(true)
        })));
    });
}

/// Does this kernel accept the options `RtrStream::set_keepalive` sets?
/// Asked of the kernel directly, on a fresh connected socket, with the same
/// three `setsockopt` calls.
fn kernel_accepts_keepalive(secs: u64) -> bool {
    let listener = TcpListener::bind("127.0.0.1:0").unwrap();
    let sock = TcpStream::connect(listener.local_addr().unwrap()).unwrap();
    let value = u32::try_from(secs).unwrap_or(u32::MAX) as libc_int;
    let fd = sock.as_raw_fd();
    let one: libc_int = 1;
    unsafe {
        setsockopt(fd, SOL_SOCKET, SO_KEEPALIVE, &one) == 0
            && setsockopt(fd, IPPROTO_TCP, TCP_KEEPIDLE, &value) == 0
            && setsockopt(fd, IPPROTO_TCP, TCP_KEEPINTVL, &value) == 0
    }
}

#[allow(non_camel_case_types)]
type libc_int = i32;
const SOL_SOCKET: libc_int = 1;
const SO_KEEPALIVE: libc_int = 9;
const IPPROTO_TCP: libc_int = 6;
const TCP_KEEPIDLE: libc_int = 4;
const TCP_KEEPINTVL: libc_int = 5;

extern "C" {
    #[link_name = "setsockopt"]
    fn c_setsockopt(fd: libc_int, level: libc_int, name: libc_int, value: *const u8, len: u32) -> libc_int;
}

unsafe fn setsockopt(fd: libc_int, level: libc_int, name: libc_int, value: &libc_int) -> libc_int {
    c_setsockopt(fd, level, name, value as *const libc_int as *const u8, 4)
}

#[derive(Clone, Debug, Default)]
struct Outcome {
    /// Per attempted connection: served / closed / hang.
    results: Vec<&'static str>,
    /// Hook events of the server: (setups started, setups succeeded).
    setups: usize,
    setups_ok: usize,
    /// The future returned by `rtr_listener` had completed (or panicked)
    /// by the end of the case.
    listener_finished: bool,
}

/// What the client sees on one connection after having sent a Reset Query.
fn read_outcome(sock: &mut TcpStream) -> &'static str {
    let _ = sock.set_read_timeout(Some(HANG));
    let mut header = [0u8; 8];
    let mut got = 0;
    while got < 8 {
        match sock.read(&mut header[got..]) {
            Ok(0) => return "closed",
            Ok(n) => got += n,
            Err(err) if matches!(
                err.kind(), std::io::ErrorKind::WouldBlock | std::io::ErrorKind::TimedOut
            ) => return "hang",
            Err(err) if err.kind() == std::io::ErrorKind::Interrupted => continue,
            Err(_) => return "closed",
        }
    }
    // Cache Response (3) or Error Report (10, e.g. "no data available").
    if header[0] <= 2 && (header[1] == 3 || header[1] == 10) { "served" } else { "closed" }
}

fn send_query(sock: &mut TcpStream) {
    let query = rpki::rtr::pdu::ResetQuery::new(1);
    // The server may already have closed the connection.
    let _ = sock.write_all(query.as_ref());
}

/// One listener, one sequence of connections.
fn execute(keepalive: Option<u64>, script: &[bool], burst: bool) -> Outcome {
    install_injector();
    *SCRIPT.lock().unwrap() = script.iter().copied().collect();
    sched::start_point_log();
    let runtime = tokio::runtime::Builder::new_multi_thread()
        .worker_threads(2).enable_all().build().expect("runtime");
    let listener = TcpListener::bind("127.0.0.1:0").expect("bind");
    listener.set_nonblocking(true).unwrap();
    let addr: SocketAddr = listener.local_addr().unwrap();
    let dir = std::env::temp_dir();
    let mut config = Config::default_with_paths(dir.join("none.conf"), dir.join("none-cache"));
    config.rtr_tcp_keepalive = keepalive.map(Duration::from_secs);
    config.rtr_client_metrics = true;
    let history = SharedHistory::from_config(&config);
    let metrics = Arc::new(RtrServerMetrics::new(true));
    let future = {
        let _guard = runtime.enter();
        routinator::rtr::rtr_listener(
            history, metrics, &config, NotifySender::new(), Some(listener)
        ).unwrap_or_else(|_| panic!("rtr_listener failed"))
    };
    let server = runtime.spawn(future);

    let mut out = Outcome::default();
    let connect = || TcpStream::connect_timeout(&addr, HANG);
    // A refused connection: nobody listens any more.
    let connect_error = |err: &std::io::Error| {
        if err.kind() == std::io::ErrorKind::ConnectionRefused { "refused" } else { "hang" }
    };
    if burst {
        let mut socks = Vec::new();
        for _ in script {
            match connect() {
                Ok(mut sock) => { send_query(&mut sock); socks.push(Ok(sock)) }
                Err(err) => socks.push(Err(connect_error(&err)))
            }
        }
        for sock in socks.iter_mut() {
            let res = match sock { Ok(sock) => read_outcome(sock), Err(res) => *res };
            out.results.push(res);
            if res == "hang" || res == "refused" { break }
        }
    }
    else {
        for _ in script {
            let res = match connect() {
                Ok(mut sock) => { send_query(&mut sock); read_outcome(&mut sock) }
                Err(err) => connect_error(&err)
            };
            out.results.push(res);
            if res == "hang" || res == "refused" { break }
        }
    }
    // The future of `rtr_listener` never finishes while the server lives.
    out.listener_finished = server.is_finished();
    runtime.shutdown_background();
    let log = sched::take_point_log();
    out.setups = log.iter().filter(|p| *p == "rtr.setup").count();
    out.setups_ok = log.iter().filter(|p| *p == "rtr.setup-ok").count();
    SCRIPT.lock().unwrap().clear();
    out
}

fn bits(items: &[bool]) -> String {
    items.iter().map(|b| if *b { "1" } else { "0" }).collect::<Vec<_>>().join(" ")
}

fn run_case(ctx: &mut Ctx, keepalive: Option<u64>, script: &[bool], burst: bool) -> bool {
    let kernel_ok = keepalive.map(kernel_accepts_keepalive).unwrap_or(true);
    // The setup outcome of connection i: injected failure or kernel refusal.
    let oks: Vec<bool> = script.iter().map(|ok| *ok && kernel_ok).collect();
    let input = json!({"keepalive": keepalive, "setup_ok": script, "burst": burst});
    let out = execute(keepalive, script, burst);
    let op = format!("c19 fixed {} {}", if burst { "burst" } else { "seq" }, bits(&oks));
    let imp = out.results.join(" ");
    ctx.case(&input, &op, &imp);
    ctx.count(&format!("keepalive-{}", if kernel_ok { "accepted" } else { "rejected" }));
    ctx.count(&format!("failing-setups={}", oks.iter().filter(|ok| !**ok).count()));
    ctx.nontrivial(format!("{keepalive:?}|{burst}|{}", bits(&oks)));
    let observed = json!({
        "results": out.results, "kernel_accepts_keepalive": kernel_ok,
        "server_setups": out.setups, "server_setups_ok": out.setups_ok,
        "listener_future_finished": out.listener_finished,
    });
    let mut failed = false;
    if out.listener_finished {
        failed = true;
        ctx.oracle_fail("listener-finished",
            "the future returned by rtr_listener finished: the RTR server stopped listening",
            &input, observed.clone());
    }
    // The property on the real observations.
    let mut seen_failure = false;
    for (i, res) in out.results.iter().enumerate() {
        let ok = oks[i];
        if *res == "refused" {
            failed = true;
            ctx.oracle_fail(
                if seen_failure { "connection-after-failed-setup-refused" } else { "connection-refused" },
                &format!("connection {i} was refused: the listening socket is gone{}",
                    if seen_failure { " after an earlier connection failed its setup" } else { "" }),
                &input, observed.clone()
            );
            break
        }
        if *res == "hang" {
            failed = true;
            ctx.oracle_fail(
                if seen_failure { "connection-after-failed-setup-not-accepted" }
                else { "connection-not-accepted" },
                &format!("connection {i} was neither answered nor closed within {} s{}",
                    HANG.as_secs(),
                    if seen_failure { " after an earlier connection failed its setup" } else { "" }),
                &input, observed.clone()
            );
            break
        }
        if ok && *res != "served" {
            failed = true;
            ctx.oracle_fail("good-connection-not-served",
                &format!("connection {i} (setup succeeds) was {res}"), &input, observed.clone());
        }
        if !ok && *res != "closed" {
            failed = true;
            ctx.oracle_fail("failed-setup-not-closed",
                &format!("connection {i} (setup fails) was {res}"), &input, observed.clone());
        }
        if !ok { seen_failure = true }
    }
    failed
}

fn run_input(ctx: &mut Ctx, input: &Value) -> bool {
    let keepalive = input["keepalive"].as_u64();
    let script: Option<Vec<bool>> = input["setup_ok"].as_array()
        .and_then(|a| a.iter().map(|b| b.as_bool()).collect());
    let Some(script) = script else { ctx.count("bad-input"); return false };
    if script.is_empty() || script.len() > 8 { ctx.count("bad-input"); return false }
    run_case(ctx, keepalive, &script, input["burst"].as_bool().unwrap_or(false))
}

pub fn run_c19(ctx: &mut Ctx) {
    ctx.rule = "one case = one real rtr_listener on a fresh TCP socket + a sequence of 1-5 \
        client connections (sequential, or all opened before the first answer is read) with a \
        chosen subset failing RtrStream::new (kernel-rejected keepalive value: all; injection \
        hook: any subset); distinct = distinct (keepalive, mode, failing subset)".into();
    if let Some(inputs) = ctx.replay_inputs() {
        for input in inputs { run_input(ctx, &input); }
        return
    }
    let mut failures = 0;
    for input in ctx.corpus("C19") {
        if run_input(ctx, &input) { failures += 1 }
    }
    // Kernel-decided outcomes: values around the kernel's limit (32767).
    // ... and the boundaries of the option's domain (the config file accepts
    // up to i64::MAX seconds, the command line up to u64::MAX; what is
    // passed to the kernel is clamped to u32, and arithmetic on the
    // `Duration` has its own limits at u64::MAX / k).
    let keepalives = [
        Some(60u64), Some(32767), Some(32768), Some(40000), Some(0), None,
        Some(1), Some(i32::MAX as u64), Some(i32::MAX as u64 + 1),
        Some(u32::MAX as u64), Some(u32::MAX as u64 + 1),
        Some(u64::MAX / 1000), Some(u64::MAX / 1000 + 1),
        Some(i64::MAX as u64), Some(i64::MAX as u64 + 1),
        Some(u64::MAX / 10), Some(u64::MAX / 10 + 1),
        Some(u64::MAX / 2), Some(u64::MAX / 2 + 1), Some(u64::MAX - 1), Some(u64::MAX),
    ];
    for keepalive in keepalives {
        for len in 1..=3usize {
            for burst in [false, true] {
                if failures >= 5 { return }
                if run_case(ctx, keepalive, &vec![true; len], burst) { failures += 1 }
            }
        }
    }
    // Injected failures: every failing subset of sequences of 1..=5
    // connections, with an accepted keepalive value (or none).
    let max_len = 5;
    for len in 1..=max_len {
        for mask in 0..(1u32 << len) {
            let script: Vec<bool> = (0..len).map(|i| mask & (1 << i) != 0).collect();
            for burst in [false, true] {
                if failures >= 5 { return }
                let keepalive = *ctx.rng.pick(&[Some(60u64), Some(32767), None]);
                if run_case(ctx, keepalive, &script, burst) { failures += 1 }
            }
        }
    }
}


//------------ C36, end to end -----------------------------------------------

/// C36 through the real listener: connections from several loopback source
/// addresses, opened by concurrent client threads, are answered; while they
/// are open the per-address list must be strictly sorted, contain exactly
/// the source addresses and show the number of open connections of each;
/// after all have closed every count must return to zero.
fn run_metrics_case(ctx: &mut Ctx, input: &Value) -> bool {
    use std::net::{IpAddr, Ipv4Addr};
    // (source host 127.0.0.<host>, connections, through the listener whose
    // keepalive value the kernel rejects?)
    let Some(plan) = input["clients"].as_array().and_then(|a| a.iter().map(|c| {
        Some((c["host"].as_u64()? as u8, c["conns"].as_u64()? as usize,
              c["bad"].as_bool().unwrap_or(false)))
    }).collect::<Option<Vec<(u8, usize, bool)>>>()) else { ctx.count("bad-input"); return false };
    if plan.is_empty() || plan.len() > 8 || plan.iter().any(|p| p.1 == 0 || p.1 > 4 || p.0 == 0) {
        ctx.count("bad-input");
        return false
    }
    let good_keepalive = input["good_keepalive"].as_u64();
    let bad_keepalive = input["bad_keepalive"].as_u64().unwrap_or(86400);
    // Setup on the second listener really fails iff the kernel says so.
    let bad_fails = !kernel_accepts_keepalive(bad_keepalive);
    let good_ok = good_keepalive.map(kernel_accepts_keepalive).unwrap_or(true);
    if !good_ok { ctx.count("bad-input"); return false }
    let runtime = tokio::runtime::Builder::new_multi_thread()
        .worker_threads(3).enable_all().build().expect("runtime");
    let dir = std::env::temp_dir();
    let metrics = Arc::new(RtrServerMetrics::new(true));
    // Two listeners of one server (one shared `RtrServerMetrics`): one with
    // an accepted keepalive value (or none), one with a rejected one.
    let mut addrs = Vec::new();
    for keepalive in [good_keepalive, Some(bad_keepalive)] {
        let listener = TcpListener::bind("127.0.0.1:0").expect("bind");
        listener.set_nonblocking(true).unwrap();
        addrs.push(listener.local_addr().unwrap());
        let mut config = Config::default_with_paths(dir.join("none.conf"), dir.join("none-cache"));
        config.rtr_client_metrics = true;
        config.rtr_tcp_keepalive = keepalive.map(Duration::from_secs);
        let history = SharedHistory::from_config(&config);
        let future = {
            let _guard = runtime.enter();
            routinator::rtr::rtr_listener(
                history, metrics.clone(), &config, NotifySender::new(), Some(listener)
            ).unwrap_or_else(|_| panic!("rtr_listener failed"))
        };
        runtime.spawn(future);
    }
    let (good_addr, bad_addr): (SocketAddr, SocketAddr) = (addrs[0], addrs[1]);

    // One client thread per plan entry, all at once.
    let handle = runtime.handle().clone();
    let threads: Vec<_> = plan.iter().map(|(host, conns, bad)| {
        let (host, conns, handle) = (*host, *conns, handle.clone());
        let addr = if *bad { bad_addr } else { good_addr };
        std::thread::spawn(move || {
            let mut socks = Vec::new();
            let mut results = Vec::new();
            for _ in 0..conns {
                let sock = handle.block_on(async {
                    let sock = tokio::net::TcpSocket::new_v4()?;
                    sock.bind(SocketAddr::new(IpAddr::V4(Ipv4Addr::new(127, 0, 0, host)), 0))?;
                    sock.connect(addr).await
                }).and_then(|s| s.into_std()).and_then(|s| { s.set_nonblocking(false)?; Ok(s) });
                match sock {
                    Ok(mut sock) => {
                        send_query(&mut sock);
                        results.push(read_outcome(&mut sock));
                        socks.push(sock);
                    }
                    Err(_) => results.push("connect-failed")
                }
            }
            (socks, results)
        })
    }).collect();
    let mut socks = Vec::new();
    let mut results = Vec::new();
    for thread in threads {
        let (s, r) = thread.join().unwrap();
        socks.push(s);
        results.push(r);
    }
    let snapshot = |metrics: &RtrServerMetrics| -> (Vec<(IpAddr, usize)>, usize) {
        (metrics.clients().unwrap().iter().map(|(a, d)| (*a, d.current_connections())).collect(),
         metrics.global().current_connections())
    };
    let (open_list, open_global) = snapshot(&metrics);
    let mut expected: std::collections::BTreeMap<IpAddr, usize> = Default::default();
    // Connections that are really open: those whose setup succeeded.
    for (host, conns, bad) in &plan {
        if !(*bad && bad_fails) {
            *expected.entry(IpAddr::V4(Ipv4Addr::new(127, 0, 0, *host))).or_insert(0) += conns;
        }
    }
    drop(socks);
    // The server notices the closed connections asynchronously.
    let deadline = std::time::Instant::now() + HANG;
    let (mut closed_list, mut closed_global) = snapshot(&metrics);
    while (closed_global != 0 || closed_list.iter().any(|x| x.1 != 0))
        && std::time::Instant::now() < deadline
    {
        std::thread::sleep(Duration::from_millis(5));
        (closed_list, closed_global) = snapshot(&metrics);
    }
    runtime.shutdown_background();

    let show = |l: &[(IpAddr, usize)]| l.iter().map(|(a, c)| format!("{a}:{}", *c as isize))
        .collect::<Vec<_>>().join(",");
    let observed = json!({
        "results": results, "while_open": show(&open_list), "global_while_open": open_global as isize,
        "after_close": show(&closed_list), "global_after_close": closed_global as isize,
    });
    ctx.case_oracle_only(input, &format!("{} | {}", show(&open_list), show(&closed_list)));
    ctx.nontrivial(format!("{plan:?}|{good_keepalive:?}|{bad_keepalive}"));
    ctx.count("e2e-cases");
    ctx.count(&format!("e2e-failing-setups={}",
        plan.iter().filter(|p| p.2 && bad_fails).map(|p| p.1).sum::<usize>().min(9)));
    for (entry, res) in plan.iter().zip(results.iter()) {
        let want = if entry.2 && bad_fails { "closed" } else { "served" };
        if res.iter().any(|r| *r != want) {
            ctx.oracle_fail("e2e-connection-outcome",
                &format!("connections of {entry:?} should all be {want} but were {res:?}"),
                input, observed.clone());
            return true
        }
    }
    let mut failed = false;
    if !open_list.windows(2).all(|w| w[0].0 < w[1].0) {
        failed = true;
        ctx.oracle_fail("e2e-list-not-strictly-sorted", "client list not strictly sorted", input, observed.clone());
    }
    let listed: std::collections::BTreeMap<IpAddr, usize> = open_list.iter().cloned().collect();
    // Addresses whose connections all failed setup may or may not be listed;
    // if they are, with zero open connections.
    let counts_ok = open_list.iter().all(|(a, c)| *c == expected.get(a).copied().unwrap_or(0))
        && expected.keys().all(|a| listed.contains_key(a));
    if !counts_ok {
        failed = true;
        ctx.oracle_fail("e2e-open-counts-wrong",
            &format!("while all connections are open the list is {} but the open connections are {expected:?}", show(&open_list)),
            input, observed.clone());
    }
    if open_global != expected.values().sum::<usize>() {
        failed = true;
        ctx.oracle_fail("e2e-global-count-wrong", "global open-connection count differs from the open connections", input, observed.clone());
    }
    if closed_global != 0 || closed_list.iter().any(|x| x.1 != 0) {
        failed = true;
        ctx.oracle_fail("e2e-counts-not-zero-after-close",
            &format!("after every connection was closed the counts are {} global {}", show(&closed_list), closed_global as isize),
            input, observed.clone());
    }
    if !expected.keys().all(|a| closed_list.iter().any(|x| x.0 == *a)) {
        failed = true;
        ctx.oracle_fail("e2e-address-lost", "an address disappeared from the list", input, observed);
    }
    failed
}

pub fn run_c36e(ctx: &mut Ctx) {
    ctx.rule = "one case = one real rtr_listener with per-client metrics + concurrent client \
        threads opening 1-3 connections each from loopback source addresses 127.0.0.x \
        (repeated and distinct) through two listeners sharing the metrics: one with an accepted \
        keepalive value, one with a kernel-rejected one (setup really fails, connection closed \
        by the server); counts checked while open and after close; distinct = distinct plans".into();
    if let Some(inputs) = ctx.replay_inputs() {
        for input in inputs { run_metrics_case(ctx, &input); }
        return
    }
    // Failing cases wait for the deadline; a few of them are evidence enough.
    let mut failures = 0;
    for input in ctx.corpus("C36e") {
        if run_metrics_case(ctx, &input) { failures += 1 }
    }
    let n = ctx.budget(150, 1500);
    for _ in 0..n {
        let clients = ctx.rng.range(1, 5);
        // A third of the client threads go through the listener whose
        // keepalive value the kernel rejects (their setup really fails).
        let plan: Vec<Value> = (0..clients).map(|_| json!({
            "host": ctx.rng.range(1, 6), "conns": ctx.rng.range(1, 3), "bad": ctx.rng.chance(1, 3)
        })).collect();
        let input = json!({
            "clients": plan,
            "good_keepalive": *ctx.rng.pick(&[None, Some(60u64), Some(32767)]),
            "bad_keepalive": *ctx.rng.pick(&[32768u64, 86400, u32::MAX as u64, 0, u64::MAX]),
        });
        if run_metrics_case(ctx, &input) { failures += 1 }
        if failures >= 3 { break }
    }
}
