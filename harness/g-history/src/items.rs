//! Canonical view of payload items, deltas and data sets in the model's
//! vocabulary (ranks in Rust's `Ord`), plus the glue to get data sets into
//! a `SharedHistory` (SLURM assertions / snapshot hook) and configurations
//! through the real option parsers.

use std::collections::{BTreeMap, BTreeSet};
use std::path::Path;
use clap::Command;
use rpki::resources::Asn;
use rpki::rtr::payload::{Action, PayloadRef};
use rpki::slurm::{
    Base64KeyInfo, BgpsecAssertion, LocallyAddedAssertions, PrefixAssertion,
    SlurmFile, ValidationOutputFilters,
};
use routinator::config::Config;
use routinator::payload::{PayloadDelta, PayloadSnapshot};
use routinator::slurm::LocalExceptions;
use serde_json::Value;
use rvcore::payload_gen::{aspa, info, AbsSet, Universe};

/// A payload item in the model's vocabulary.
#[derive(Clone, Debug, PartialEq, Eq, PartialOrd, Ord)]
pub enum Item {
    Origin(usize),
    RouterKey(usize),
    Aspa(u32, Vec<u32>),
}

impl Item {
    pub fn key(&self) -> String {
        match self {
            Item::Origin(r) => format!("O{r}"),
            Item::RouterKey(r) => format!("R{r}"),
            Item::Aspa(c, p) => format!("A{}:{}", c, join(p, ",")),
        }
    }
}

pub fn join<T: ToString>(items: &[T], sep: &str) -> String {
    items.iter().map(|x| x.to_string()).collect::<Vec<_>>().join(sep)
}

pub fn item_of(uni: &Universe, p: PayloadRef) -> Item {
    match p {
        PayloadRef::Origin(x) => Item::Origin(uni.origin_rank_of(&x)),
        PayloadRef::RouterKey(x) => Item::RouterKey(uni.key_rank_of(x)),
        PayloadRef::Aspa(x) => Item::Aspa(
            x.customer.into_u32(),
            x.providers.iter().map(|p| p.into_u32()).collect()
        ),
    }
}

pub type Actions = Vec<(Item, Action)>;

fn act(a: Action) -> &'static str {
    match a { Action::Announce => "+", Action::Withdraw => "-" }
}

/// `O=…|R=…|A=…` exactly like the model's `showActions`. Items keep the
/// order in which the implementation produced them.
pub fn show_actions(actions: &Actions) -> String {
    let mut o = Vec::new();
    let mut r = Vec::new();
    let mut a = Vec::new();
    for (item, action) in actions {
        match item {
            Item::Origin(x) => o.push(format!("{}{}", x, act(*action))),
            Item::RouterKey(x) => r.push(format!("{}{}", x, act(*action))),
            Item::Aspa(c, p) => a.push(format!("{}:{}{}", c, join(p, ","), act(*action))),
        }
    }
    format!("O={}|R={}|A={}", o.join(" "), r.join(" "), a.join(" "))
}

pub fn delta_actions(uni: &Universe, d: &PayloadDelta) -> Actions {
    d.actions().map(|(p, a)| (item_of(uni, p), a)).collect()
}

/// The model's `showDelta`.
pub fn show_delta(uni: &Universe, d: &PayloadDelta, actions: &Actions) -> String {
    let _ = uni;
    format!(
        "s={} a={} w={} {}",
        u32::from(d.serial()), d.announce_len(), d.withdraw_len(),
        show_actions(actions)
    )
}

/// A data set as a set of canonical item keys.
pub type ItemSet = BTreeSet<String>;

pub fn item_set(uni: &Universe, s: &PayloadSnapshot) -> ItemSet {
    s.payload().map(|p| item_of(uni, p).key()).collect()
}

/// `O=…|R=…|A=…` like the model's `showSnapshot`, items in the order given.
pub fn show_items(items: &[Item]) -> String {
    let mut o = Vec::new();
    let mut r = Vec::new();
    let mut a = Vec::new();
    for item in items {
        match item {
            Item::Origin(x) => o.push(x.to_string()),
            Item::RouterKey(x) => r.push(x.to_string()),
            Item::Aspa(c, p) => a.push(format!("{}:{}", c, join(p, ","))),
        }
    }
    format!("O={}|R={}|A={}", o.join(" "), r.join(" "), a.join(" "))
}

/// Applies actions to an item set the way a client would. An impossible
/// action (announce of a present item, withdraw of an absent one) is an
/// error.
pub fn apply_actions(set: &ItemSet, actions: &Actions) -> Result<ItemSet, String> {
    let mut res = set.clone();
    for (item, action) in actions {
        match item {
            Item::Origin(_) | Item::RouterKey(_) => {
                let key = item.key();
                match action {
                    Action::Announce => if !res.insert(key.clone()) {
                        return Err(format!("announce of present item {key}"))
                    }
                    Action::Withdraw => if !res.remove(&key) {
                        return Err(format!("withdraw of absent item {key}"))
                    }
                }
            }
            Item::Aspa(c, _) => {
                let prefix = format!("A{c}:");
                let existing: Vec<String> = res.iter().filter(|k| k.starts_with(&prefix)).cloned().collect();
                let key = item.key();
                match action {
                    Action::Announce => {
                        if existing.contains(&key) {
                            return Err(format!("announce of unchanged ASPA {key}"))
                        }
                        for k in existing { res.remove(&k); }
                        res.insert(key);
                    }
                    Action::Withdraw => {
                        if existing.is_empty() {
                            return Err(format!("withdraw of absent ASPA customer {prefix}"))
                        }
                        for k in existing { res.remove(&k); }
                    }
                }
            }
        }
    }
    Ok(res)
}

//------------ data sets into the history ------------------------------------

/// SLURM file asserting exactly the origins and router keys of `set`
/// (serialised with rpki's own serialiser, parsed by routinator).
pub fn slurm_json(uni: &Universe, set: &AbsSet) -> String {
    let prefix: Vec<PrefixAssertion> = set.origins.iter().map(|i| {
        let o = uni.origins[*i];
        PrefixAssertion::new(o.prefix, o.asn, None)
    }).collect();
    let bgpsec: Vec<BgpsecAssertion> = set.router_keys.iter().map(|i| {
        let k = &uni.router_keys[*i];
        BgpsecAssertion::new(
            k.asn, k.key_identifier,
            Base64KeyInfo::try_from(k.key_info.clone().into_bytes()).expect("key info"),
            None
        )
    }).collect();
    SlurmFile::new(
        ValidationOutputFilters::new(Vec::new(), Vec::new()),
        LocallyAddedAssertions::new(prefix, bgpsec),
    ).to_string()
}

pub fn exceptions(uni: &Universe, set: &AbsSet) -> LocalExceptions {
    LocalExceptions::from_json(&slurm_json(uni, set), false).expect("SLURM JSON")
}

/// A snapshot of `set` with a chosen refresh time (for the snapshot hook).
pub fn snapshot(
    uni: &Universe, set: &AbsSet, refresh: Option<rpki::repository::x509::Time>
) -> PayloadSnapshot {
    PayloadSnapshot::new(
        set.origins.iter().map(|i| (uni.origins[*i], info())),
        set.router_keys.iter().map(|i| (uni.router_keys[*i].clone(), info())),
        set.aspas.iter().map(|(c, p)| (aspa(*c, p), info())),
        refresh
    )
}

//------------ configuration through the real parsers ------------------------

/// Builds a server configuration through routinator's own option parsing:
/// `file` options go into a config file read by `Config::from_arg_matches`,
/// `cli` options onto the command line. `Err` if routinator rejects it.
pub fn make_config(
    tag: &str, file: &[(&str, String)], cli: &[(&str, String)]
) -> Result<Config, String> {
    let dir = std::env::temp_dir().join(format!("rv-history-{}-{}", std::process::id(), tag));
    std::fs::create_dir_all(&dir).map_err(|e| e.to_string())?;
    let conf = dir.join("routinator.conf");
    let mut text = format!("repository-dir = \"{}\"\n", dir.join("repo").display());
    for (key, value) in file {
        text.push_str(&format!("{key} = {value}\n"));
    }
    std::fs::write(&conf, text).map_err(|e| e.to_string())?;
    let mut args: Vec<String> = vec![
        "routinator".into(), "-c".into(), conf.display().to_string()
    ];
    for (key, value) in cli {
        args.push(format!("--{key}"));
        args.push(value.clone());
    }
    let res = (|| {
        let matches = Config::server_args(Config::config_args(Command::new("routinator")))
            .try_get_matches_from(&args).map_err(|e| format!("cli: {}", e.kind()))?;
        let mut config = Config::from_arg_matches(&matches, Path::new("/"))
            .map_err(|_| "config file rejected".to_string())?;
        config.apply_server_arg_matches(&matches, Path::new("/"))
            .map_err(|_| "server args rejected".to_string())?;
        Ok(config)
    })();
    let _ = std::fs::remove_dir_all(&dir);
    res
}

//------------ HTTP /json-delta bodies ---------------------------------------

/// Decoder for the items of `/json-delta` bodies back into model items.
pub struct JsonItems {
    origins: BTreeMap<(String, String, u64), usize>,
    keys: BTreeMap<(String, String, String), usize>,
}

fn parse_asn(v: &Value) -> Option<u32> {
    v.as_str()?.strip_prefix("AS")?.parse().ok()
}

impl JsonItems {
    pub fn new(uni: &Universe) -> Self {
        let mut origins = BTreeMap::new();
        for (i, o) in uni.origins.iter().enumerate() {
            origins.insert((
                o.asn.to_string(),
                format!("{}/{}", o.prefix.addr(), o.prefix.prefix_len()),
                o.prefix.resolved_max_len() as u64
            ), uni.origin_rank[i]);
        }
        let mut keys = BTreeMap::new();
        for (i, k) in uni.router_keys.iter().enumerate() {
            keys.insert((
                k.key_identifier.to_string(), k.asn.to_string(), k.key_info.to_string()
            ), uni.key_rank[i]);
        }
        JsonItems { origins, keys }
    }

    pub fn item(&self, v: &Value) -> Result<Item, String> {
        match v["type"].as_str() {
            Some("routeOrigin") => {
                let key = (
                    v["asn"].as_str().unwrap_or("").to_string(),
                    v["prefix"].as_str().unwrap_or("").to_string(),
                    v["maxLength"].as_u64().unwrap_or(u64::MAX),
                );
                self.origins.get(&key).map(|r| Item::Origin(*r))
                    .ok_or_else(|| format!("unknown origin {v}"))
            }
            Some("routerKey") => {
                let key = (
                    v["keyIdentifier"].as_str().unwrap_or("").to_string(),
                    v["asn"].as_str().unwrap_or("").to_string(),
                    v["keyInfo"].as_str().unwrap_or("").to_string(),
                );
                self.keys.get(&key).map(|r| Item::RouterKey(*r))
                    .ok_or_else(|| format!("unknown router key {v}"))
            }
            Some("aspa") => {
                let c = parse_asn(&v["customerAsn"]).ok_or("bad customerAsn")?;
                let p = v["providerAsns"].as_array().ok_or("bad providerAsns")?
                    .iter().map(|x| parse_asn(x).ok_or("bad provider".to_string()))
                    .collect::<Result<Vec<_>, _>>()?;
                Ok(Item::Aspa(c, p))
            }
            _ => Err(format!("unknown item type in {v}"))
        }
    }

    pub fn items(&self, v: &Value) -> Result<Vec<Item>, String> {
        v.as_array().ok_or("not an array")?.iter().map(|x| self.item(x)).collect()
    }
}

/// The interleaving of announced and withdrawn items in key order per type:
/// the action list a delta with these two lists stands for.
pub fn actions_of_lists(announced: Vec<Item>, withdrawn: Vec<Item>) -> Actions {
    let mut all: Vec<(u8, u64, Item, Action)> = Vec::new();
    let tag = |item: &Item| match item {
        Item::Origin(r) => (0u8, *r as u64),
        Item::RouterKey(r) => (1, *r as u64),
        Item::Aspa(c, _) => (2, *c as u64),
    };
    for item in announced { let (t, k) = tag(&item); all.push((t, k, item, Action::Announce)) }
    for item in withdrawn { let (t, k) = tag(&item); all.push((t, k, item, Action::Withdraw)) }
    all.sort_by(|a, b| (a.0, a.1).cmp(&(b.0, b.1)));
    all.into_iter().map(|(_, _, item, action)| (item, action)).collect()
}

#[allow(dead_code)]
pub fn asn(x: u32) -> Asn { Asn::from_u32(x) }
